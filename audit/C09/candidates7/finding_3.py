"""C09 finding 3: a COGAS turbine or a dual-fuel engine described in protobuf WITHOUT a
nox_calculation_method gets Tier II, although the FEEMS classes (and the converter's own code)
give these two classes Tier III when no method is stated.

MachSysS.convert_to_feems.convert_nox_calculation_method() starts from "TIER_2 for an engine,
TIER_3 for a COGAS" and then tests `proto_comp.nox_calculation_method is not None`.  A proto3 enum
field is never None (unset reads as 0 = TIER_2), so the stated default is dead code and every
message without the field becomes Tier II.  For the dual-fuel engine the converter then passes
TIER_2 explicitly and so also overrides EngineDualFuel's constructor default (TIER_3).

Two public entry points that describe the same machine with the same stated data therefore give
NOx masses that differ by the factor Tier II / Tier III (3.9 at 1800 rpm, 4.0 at 500 rpm): for the
tier the FEEMS model documents for that class (Tier III) the converted plant's NOx is not
"the Regulation 13 limit for that tier and rated speed times the brake energy".

exit status 1: property violated, 0: holds
"""
import logging
import sys

import numpy as np

logging.disable(logging.WARNING)

import MachSysS.system_structure_pb2 as proto
from MachSysS.convert_to_feems import convert_proto_cogas_to_feems, convert_proto_engine_to_feems
from feems.components_model.component_mechanical import COGAS, EngineDualFuel
from feems.fuel import FuelOrigin, TypeFuel
from feems.types_for_feems import EmissionType, NOxCalculationMethod, TypeComponent


def limit_g_per_kwh(tier: int, rpm: float) -> float:
    if rpm <= 130:
        return {1: 17.0, 2: 14.4, 3: 3.4}[tier]
    return {1: 45 * rpm**-0.2, 2: 44 * rpm**-0.23, 3: 9 * rpm**-0.2}[tier]


violated = False
power_kw = np.array([1000.0, 2500.0, 4000.0])
dt_s = 3600.0
brake_energy_kwh = power_kw.sum() * dt_s / 3600.0

# --- a gas turbine plant -------------------------------------------------------------------
rpm = 1800.0
cogas_direct = COGAS(  # built directly, no NOx method stated -> TIER_3 (constructor default)
    name="cogas", rated_power=5000.0, rated_speed=rpm, eff_curve=np.array([0.5])
)
cogas_message = proto.COGAS(  # the same data as a protobuf message, no NOx method stated
    name="cogas",
    rated_power_kw=5000.0,
    rated_speed_rpm=rpm,
    efficiency=proto.Efficiency(value=0.5),
    fuel=proto.Fuel(fuel_type=TypeFuel.DIESEL.value, fuel_origin=FuelOrigin.FOSSIL.value),
)
cogas_converted = convert_proto_cogas_to_feems(cogas_message)
nox_direct = (
    cogas_direct.get_gas_turbine_run_point_from_power_output_kw(power_kw).emissions_g_per_s[
        EmissionType.NOX
    ].sum()
    * dt_s
)
nox_converted = (
    cogas_converted.get_gas_turbine_run_point_from_power_output_kw(power_kw).emissions_g_per_s[
        EmissionType.NOX
    ].sum()
    * dt_s
)
want = limit_g_per_kwh(3, rpm) * brake_energy_kwh
print(f"COGAS, no method stated: constructor -> {cogas_direct.nox_calculation_method.name}, "
      f"NOx {nox_direct:.1f} g;  protobuf -> {cogas_converted.nox_calculation_method.name}, "
      f"NOx {nox_converted:.1f} g;  Tier III limit x brake energy = {want:.1f} g")
if not np.isclose(nox_converted, want, rtol=1e-9) or not np.isclose(nox_direct, nox_converted):
    violated = True

# --- a dual-fuel engine --------------------------------------------------------------------
rpm = 500.0
engine_direct = EngineDualFuel(
    type_=TypeComponent.AUXILIARY_ENGINE,
    name="df",
    rated_power=5000.0,
    rated_speed=rpm,
    bsfc_curve=np.array([180.0]),
    bspfc_curve=np.array([2.0]),
    pilot_fuel_type=TypeFuel.DIESEL,
)
engine_message = proto.Engine(
    name="df",
    rated_power_kw=5000.0,
    rated_speed_rpm=rpm,
    bsfc=proto.BSFC(value=180.0),
    pilot_bsfc=proto.BSFC(value=2.0),
    main_fuel=proto.Fuel(
        fuel_type=TypeFuel.NATURAL_GAS.value, fuel_origin=FuelOrigin.FOSSIL.value
    ),
    pilot_fuel=proto.Fuel(fuel_type=TypeFuel.DIESEL.value, fuel_origin=FuelOrigin.FOSSIL.value),
    engine_cycle_type=proto.Engine.EngineCycleType.DIESEL,
)
engine_converted = convert_proto_engine_to_feems(engine_message)
nox_direct = (
    engine_direct.get_engine_run_point_from_power_out_kw(power_kw).emissions_g_per_s[
        EmissionType.NOX
    ].sum()
    * dt_s
)
nox_converted = (
    engine_converted.get_engine_run_point_from_power_out_kw(power_kw).emissions_g_per_s[
        EmissionType.NOX
    ].sum()
    * dt_s
)
want = limit_g_per_kwh(3, rpm) * brake_energy_kwh
print(f"EngineDualFuel, no method stated: constructor -> {engine_direct.nox_calculation_method.name}"
      f", NOx {nox_direct:.1f} g;  protobuf -> {type(engine_converted).__name__} "
      f"{engine_converted.nox_calculation_method.name}, NOx {nox_converted:.1f} g;  "
      f"Tier III limit x brake energy = {want:.1f} g")
if not np.isclose(nox_converted, want, rtol=1e-9) or not np.isclose(nox_direct, nox_converted):
    violated = True

assert cogas_direct.nox_calculation_method == NOxCalculationMethod.TIER_3
if violated:
    print("The two entry points disagree on the tier of a machine whose tier was not stated.")
    sys.exit(1)
print("property holds")
sys.exit(0)
