"""C09 finding 2: a NOx emission curve handed to Engine / EngineDualFuel / COGAS is silently
discarded unless nox_calculation_method=CURVE is passed as well.

Clause: "For any species given as a curve the mass is the curve value at the current load times
the brake energy."  NOx is one of the EmissionType species, the curve is given through the public
constructor argument emissions_curves, and nox_calculation_method is left at its default.
_setup_emissions() first registers the curve, _setup_nox() then overwrites the NOX entry with the
tier constant (default TIER_2 for Engine, TIER_3 for EngineDualFuel and COGAS).  No error, no
warning; the curve is still exported to protobuf as if it were in use.

exit status 1: property violated, 0: holds
"""
import logging
import sys

import numpy as np
from scipy.interpolate import PchipInterpolator

logging.disable(logging.WARNING)

from feems.components_model.component_electric import (
    ElectricComponent,
    ElectricMachine,
    Genset,
)
from feems.components_model.component_mechanical import COGAS, Engine, EngineDualFuel
from feems.components_model.utility import IntegrationMethod, integrate_data
from feems.fuel import TypeFuel
from feems.system_model import ElectricPowerSystem
from feems.types_for_feems import (
    EmissionCurve,
    EmissionCurvePoint,
    EmissionType,
    TypeComponent,
    TypePower,
)

BSFC = np.array([[0.25, 220.0], [0.5, 200.0], [0.75, 190.0], [1.0, 195.0]])
EFF_GEN = np.array([[0.25, 0.90], [0.5, 0.94], [0.75, 0.96], [1.0, 0.955]])
LOADS = [0.25, 0.5, 0.75, 1.0]
NOX_G_PER_KWH = [12.0, 10.0, 8.5, 8.0]  # measured NOx curve of the engine
nox_curve = EmissionCurve(
    points_per_kwh=[EmissionCurvePoint(l, v) for l, v in zip(LOADS, NOX_G_PER_KWH)],
    emission=EmissionType.NOX,
)
co_curve = EmissionCurve(
    points_per_kwh=[EmissionCurvePoint(l, v) for l, v in zip(LOADS, [3.0, 1.5, 1.0, 0.8])],
    emission=EmissionType.CO,
)
reference = PchipInterpolator(LOADS, NOX_G_PER_KWH)
reference_co = PchipInterpolator(LOADS, [3.0, 1.5, 1.0, 0.8])

violated = False
rated_power = 1000.0
power_kw = np.array([250.0, 500.0, 750.0, 1000.0])  # exactly the curve's own points


def check(label, emissions_g_per_s):
    global violated
    got = emissions_g_per_s[EmissionType.NOX] * 3600.0 / power_kw
    want = reference(power_kw / rated_power)
    ok = np.allclose(got, want, rtol=1e-9)
    print(f"{label}: NOx g/kWh returned {np.round(got, 4)}, curve given {want}  -> "
          f"{'ok' if ok else 'VIOLATED'}")
    violated |= not ok
    if EmissionType.CO in emissions_g_per_s:  # the other species of the same list is honoured
        got_co = emissions_g_per_s[EmissionType.CO] * 3600.0 / power_kw
        print(f"    (CO curve of the same list: returned {np.round(got_co, 4)}, "
              f"given {reference_co(power_kw / rated_power)})")


engine = Engine(
    type_=TypeComponent.AUXILIARY_ENGINE,
    name="engine",
    rated_power=rated_power,
    rated_speed=900.0,
    bsfc_curve=BSFC,
    emissions_curves=[nox_curve, co_curve],
)
check("Engine", engine.get_engine_run_point_from_power_out_kw(power_kw).emissions_g_per_s)

dual_fuel = EngineDualFuel(
    type_=TypeComponent.AUXILIARY_ENGINE,
    name="dual fuel",
    rated_power=rated_power,
    rated_speed=900.0,
    bsfc_curve=BSFC,
    bspfc_curve=np.array([[0.25, 5.0], [1.0, 2.0]]),
    pilot_fuel_type=TypeFuel.DIESEL,
    emissions_curves=[nox_curve],
)
check("EngineDualFuel", dual_fuel.get_engine_run_point_from_power_out_kw(power_kw).emissions_g_per_s)

cogas = COGAS(
    name="cogas",
    rated_power=rated_power,
    rated_speed=1800.0,
    eff_curve=np.array([[0.25, 0.35], [1.0, 0.5]]),
    emissions_curves=[nox_curve],
)
check("COGAS", cogas.get_gas_turbine_run_point_from_power_output_kw(power_kw).emissions_g_per_s)

# The same through a whole plant: total NOx of the system result
genset = Genset(
    "genset",
    engine,
    ElectricMachine(
        type_=TypeComponent.SYNCHRONOUS_MACHINE,
        name="gen",
        rated_power=900.0,
        rated_speed=900.0,
        power_type=TypePower.POWER_SOURCE,
        switchboard_id=1,
        eff_curve=EFF_GEN,
    ),
)
load = ElectricComponent(
    type_=TypeComponent.OTHER_LOAD,
    name="load",
    rated_power=900.0,
    power_type=TypePower.POWER_CONSUMER,
    switchboard_id=1,
)
plant = ElectricPowerSystem("plant", [genset, load], bus_tie_connections=[])
load.power_input = np.array([200.0, 450.0, 700.0, 850.0])
genset.status = np.ones(4, dtype=bool)
genset.load_sharing_mode = np.zeros(4)
dt = np.array([600.0, 600.0, 600.0, 600.0])
plant.set_time_interval(dt, IntegrationMethod.sum_with_time)
plant.do_power_balance_calculation()
result = plant.get_fuel_energy_consumption_running_time()
brake_kw = genset.aux_engine.power_output
want_kg = (
    integrate_data(
        data_to_integrate=reference(brake_kw / rated_power) * brake_kw / 3600.0,
        time_interval_s=dt,
        integration_method=IntegrationMethod.sum_with_time,
    )
    / 1000.0
)
got_kg = result.total_emission_kg[EmissionType.NOX]
ok = np.isclose(got_kg, want_kg, rtol=1e-9)
print(f"ElectricPowerSystem result: NOx {got_kg:.5f} kg, curve value x brake energy = {want_kg:.5f} kg"
      f"  -> {'ok' if ok else 'VIOLATED'}")
violated |= not ok

if violated:
    print("The NOx curve that was given is not used (tier constant instead), without any notice.")
    sys.exit(1)
print("property holds")
sys.exit(0)
