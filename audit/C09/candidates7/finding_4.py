"""C09 finding 4: the tier limit is frozen into a closure when the engine is constructed.  The public
attributes it was computed from (nox_calculation_method, rated_speed, emission_curves) can be
changed afterwards - the usual way of working with FEEMS objects, whose status, load sharing mode,
power and (BatterySystem) rated power are all set by assignment - and everything else that reads
them follows the new value (FuelEU consumer class: `self.rated_speed < 200`; protobuf export:
nox_calculation_method, rated_speed_rpm, emission_curves), but the NOx figure keeps the old one.

So for an engine object whose stated tier is Tier III and whose stated rated speed is 750 rpm the
NOx mass is not "the Regulation 13 limit for that tier and rated speed times the brake energy",
and the plant read back from its own protobuf export gives another NOx mass than the plant it was
exported from.

exit status 1: property violated, 0: holds
"""
import logging
import sys

import numpy as np

logging.disable(logging.WARNING)

from MachSysS.convert_to_feems import convert_proto_propulsion_system_to_feems
from MachSysS.convert_to_protobuf import convert_electric_system_to_protobuf_machinery_system
from feems.components_model.component_electric import (
    ElectricComponent,
    ElectricMachine,
    Genset,
)
from feems.components_model.component_mechanical import Engine
from feems.components_model.utility import IntegrationMethod, integrate_data
from feems.fuel import TypeFuel
from feems.system_model import ElectricPowerSystem
from feems.types_for_feems import (
    EmissionType,
    EngineCycleType,
    NOxCalculationMethod,
    TypeComponent,
    TypePower,
)


def limit_g_per_kwh(tier: int, rpm: float) -> float:
    if rpm <= 130:
        return {1: 17.0, 2: 14.4, 3: 3.4}[tier]
    return {1: 45 * rpm**-0.2, 2: 44 * rpm**-0.23, 3: 9 * rpm**-0.2}[tier]


BSFC = np.array([[0.25, 220.0], [0.5, 200.0], [0.75, 190.0], [1.0, 195.0]])
EFF_GEN = np.array([[0.25, 0.90], [0.5, 0.94], [0.75, 0.96], [1.0, 0.955]])
DT = 600.0
METHOD = IntegrationMethod.trapezoid
LOAD = np.array([200.0, 450.0, 700.0, 850.0])

engine = Engine(
    type_=TypeComponent.AUXILIARY_ENGINE,
    nox_calculation_method=NOxCalculationMethod.TIER_2,
    name="aux",
    rated_power=1000.0,
    rated_speed=100.0,
    bsfc_curve=BSFC,
    fuel_type=TypeFuel.NATURAL_GAS,
    engine_cycle_type=EngineCycleType.OTTO,
)
genset = Genset(
    "genset",
    engine,
    ElectricMachine(
        type_=TypeComponent.SYNCHRONOUS_MACHINE,
        name="gen",
        rated_power=900.0,
        rated_speed=750.0,
        power_type=TypePower.POWER_SOURCE,
        switchboard_id=1,
        eff_curve=EFF_GEN,
    ),
)
load = ElectricComponent(
    type_=TypeComponent.OTHER_LOAD,
    name="load",
    rated_power=900.0,
    power_type=TypePower.POWER_CONSUMER,
    switchboard_id=1,
)
plant = ElectricPowerSystem("plant", [genset, load], bus_tie_connections=[])


def nox_and_brake_energy(system: ElectricPowerSystem):
    consumer = system.switchboards[1].component_by_power_type[TypePower.POWER_CONSUMER.value][0]
    source = system.switchboards[1].component_by_power_type[TypePower.POWER_SOURCE.value][0]
    consumer.power_input = LOAD.copy()
    source.status = np.ones(LOAD.size, dtype=bool)
    source.load_sharing_mode = np.zeros(LOAD.size)
    system.set_time_interval(DT, METHOD)
    system.do_power_balance_calculation()
    result = system.get_fuel_energy_consumption_running_time()
    energy_kwh = (
        integrate_data(
            data_to_integrate=source.aux_engine.power_output,
            time_interval_s=DT,
            integration_method=METHOD,
        )
        / 3600.0
    )
    return result.total_emission_kg[EmissionType.NOX], energy_kwh, source.aux_engine


nox_0, energy, _ = nox_and_brake_energy(plant)
print(f"as built (Tier II, 100 rpm): NOx {nox_0:.4f} kg = {nox_0 * 1e3 / energy:.4f} g/kWh "
      f"(limit {limit_g_per_kwh(2, 100.0):.4f})")

# The data sheet is corrected: a 750 rpm engine certified to Tier III
engine.rated_speed = 750.0
engine.nox_calculation_method = NOxCalculationMethod.TIER_3
nox_1, energy, _ = nox_and_brake_energy(plant)
want = limit_g_per_kwh(3, 750.0) * energy / 1e3
print(f"after the change the object says: {engine.nox_calculation_method.name}, "
      f"{engine.rated_speed} rpm, FuelEU class {engine.fuel_consumer_type_fuel_eu_maritime.name}")
print(f"  NOx {nox_1:.4f} kg = {nox_1 * 1e3 / energy:.4f} g/kWh;  Tier III limit at 750 rpm x brake "
      f"energy = {want:.4f} kg ({limit_g_per_kwh(3, 750.0):.4f} g/kWh)")

# The same plant through its own protobuf export
message = convert_electric_system_to_protobuf_machinery_system(plant)
plant_read_back = convert_proto_propulsion_system_to_feems(message)
nox_2, energy_2, engine_2 = nox_and_brake_energy(plant_read_back)
print(f"plant read back from its protobuf export ({engine_2.nox_calculation_method.name}, "
      f"{engine_2.rated_speed} rpm): NOx {nox_2:.4f} kg = {nox_2 * 1e3 / energy_2:.4f} g/kWh")

violated = (not np.isclose(nox_1, want, rtol=1e-9)) or (not np.isclose(nox_1, nox_2, rtol=1e-9))
if violated:
    print("The NOx figure does not follow the tier and rated speed the engine object states.")
    sys.exit(1)
print("property holds")
sys.exit(0)
