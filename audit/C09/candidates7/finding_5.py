"""C09 finding 5 (boundary value; mostly a defect of the statement, see findings.txt): the tier
limit the code applies is NOT continuous in rated speed at 130 rpm, and at exactly 130 rpm it is
the slow-speed constant although Regulation 13 puts n = 130 rpm into the formula branch
("130 or more but less than 2000 rpm").

Clause: "Hence the limit is positive, continuous in speed, never increases with speed ..."
Quantifier: every tier, every rated speed from 1 to 2000 rpm - 130 rpm and its neighbour
np.nextafter(130, 131) are both inside.

exit status 1: property violated, 0: holds
"""
import logging
import sys

import numpy as np

logging.disable(logging.WARNING)

from feems.components_model.component_mechanical import COGAS, Engine
from feems.types_for_feems import EmissionType, NOxCalculationMethod, TypeComponent

TIERS = {
    1: NOxCalculationMethod.TIER_1,
    2: NOxCalculationMethod.TIER_2,
    3: NOxCalculationMethod.TIER_3,
}
REGULATION_13_FORMULA = {1: (45.0, -0.2), 2: (44.0, -0.23), 3: (9.0, -0.2)}
BSFC = np.array([[0.25, 220.0], [1.0, 195.0]])


def limit_from_engine(tier: int, rpm: float) -> float:
    engine = Engine(
        type_=TypeComponent.MAIN_ENGINE,
        nox_calculation_method=TIERS[tier],
        rated_power=1000.0,
        rated_speed=rpm,
        bsfc_curve=BSFC,
    )
    rate_g_per_s = engine.get_engine_run_point_from_power_out_kw(np.array([800.0])).emissions_g_per_s[
        EmissionType.NOX
    ][0]
    turbine = COGAS(
        rated_power=1000.0,
        rated_speed=rpm,
        eff_curve=np.array([0.4]),
        nox_calculation_method=TIERS[tier],
    )
    rate_turbine = turbine.get_gas_turbine_run_point_from_power_output_kw(
        np.array([800.0])
    ).emissions_g_per_s[EmissionType.NOX][0]
    assert np.isclose(rate_g_per_s, rate_turbine, rtol=1e-14)
    return rate_g_per_s * 3600.0 / 800.0


violated = False
just_above = float(np.nextafter(130.0, 131.0))
for tier in (1, 2, 3):
    at_130 = limit_from_engine(tier, 130.0)
    above = limit_from_engine(tier, just_above)
    factor, exponent = REGULATION_13_FORMULA[tier]
    regulation_at_130 = factor * 130.0**exponent  # "130 or more but less than 2000 rpm"
    jump = at_130 - above
    # continuity: moving the speed by one ulp (1.4e-14 relative) must not move the limit by more
    # than a few ulps; allow 1e-9 relative
    continuous = abs(jump) <= 1e-9 * at_130
    print(
        f"Tier {tier}: limit(130 rpm) = {at_130:.6f}, limit(130 rpm + 1 ulp) = {above:.6f}, "
        f"jump {jump:.6f} g/kWh ({100 * jump / at_130:.3f} %); Regulation 13 at n = 130: "
        f"{regulation_at_130:.6f}  -> {'ok' if continuous else 'NOT CONTINUOUS'}"
    )
    violated |= not continuous

# the other clauses hold on a fine grid (shown for completeness)
speeds = np.unique(np.concatenate([np.linspace(1, 2000, 4000), [130.0, just_above, 2000.0]]))
table = {t: np.array([limit_from_engine(t, float(n)) for n in speeds]) for t in (1, 2, 3)}
print("positive:", all((table[t] > 0).all() for t in table),
      "| never increases:", all((np.diff(table[t]) <= 0).all() for t in table),
      "| Tier I >= II >= III:", bool(((table[1] >= table[2]) & (table[2] >= table[3])).all()))

if violated:
    sys.exit(1)
print("property holds")
sys.exit(0)
