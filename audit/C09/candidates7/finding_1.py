"""C09 finding 1: MechanicalPropulsionSystemWithElectricPowerSystem.get_fuel_energy_consumption_running_time
takes a documented argument `nox_emission_criteria` ("IMO NOx emission tier 1, 2, 3") and ignores it.

The plant below is built with the constructors' default NOx method.  The result is asked for with
nox_emission_criteria = 1, 2, 3.  The property demands NOx = Regulation-13 limit of THAT tier at the
engine's rated speed times the brake energy delivered; the code returns the same (Tier II) mass
whatever tier is asked for.

exit status 1: property violated, 0: holds
"""
import logging
import sys

import numpy as np

logging.disable(logging.WARNING)

from feems.components_model.component_electric import (
    ElectricComponent,
    ElectricMachine,
    Genset,
)
from feems.components_model.component_mechanical import (
    Engine,
    MainEngineForMechanicalPropulsion,
    MechanicalPropulsionComponent,
)
from feems.components_model.utility import IntegrationMethod, integrate_data
from feems.system_model import (
    ElectricPowerSystem,
    MechanicalPropulsionSystem,
    MechanicalPropulsionSystemWithElectricPowerSystem,
)
from feems.types_for_feems import EmissionType, TypeComponent, TypePower


def limit_g_per_kwh(tier: int, rpm: float) -> float:
    if rpm <= 130:
        return {1: 17.0, 2: 14.4, 3: 3.4}[tier]
    return {1: 45 * rpm**-0.2, 2: 44 * rpm**-0.23, 3: 9 * rpm**-0.2}[tier]


BSFC = np.array([[0.25, 220.0], [0.5, 200.0], [0.75, 190.0], [1.0, 195.0]])
EFF_GEN = np.array([[0.25, 0.90], [0.5, 0.94], [0.75, 0.96], [1.0, 0.955]])
RPM_MAIN, RPM_AUX = 500.0, 1800.0

main_engine = MainEngineForMechanicalPropulsion(
    "ME",
    Engine(  # nox_calculation_method left at its default
        type_=TypeComponent.MAIN_ENGINE,
        name="me",
        rated_power=5000.0,
        rated_speed=RPM_MAIN,
        bsfc_curve=BSFC,
    ),
    shaft_line_id=1,
)
propeller = MechanicalPropulsionComponent(
    TypeComponent.PROPELLER_LOAD,
    TypePower.POWER_CONSUMER,
    "propeller",
    5000.0,
    np.array([1.0]),
    shaft_line_id=1,
)
mechanical = MechanicalPropulsionSystem("mech", [main_engine, propeller])

genset = Genset(
    "genset",
    Engine(
        type_=TypeComponent.AUXILIARY_ENGINE,
        name="aux",
        rated_power=1100.0,
        rated_speed=RPM_AUX,
        bsfc_curve=BSFC,
    ),
    ElectricMachine(
        type_=TypeComponent.SYNCHRONOUS_MACHINE,
        name="gen",
        rated_power=1000.0,
        rated_speed=RPM_AUX,
        power_type=TypePower.POWER_SOURCE,
        switchboard_id=1,
        eff_curve=EFF_GEN,
    ),
)
hotel = ElectricComponent(
    type_=TypeComponent.OTHER_LOAD,
    name="hotel",
    rated_power=1000.0,
    power_type=TypePower.POWER_CONSUMER,
    switchboard_id=1,
)
electric = ElectricPowerSystem("el", [genset, hotel], bus_tie_connections=[])
plant = MechanicalPropulsionSystemWithElectricPowerSystem("plant", electric, mechanical)

n = 5
dt = 60.0
method = IntegrationMethod.simpson
propeller.power_input = np.array([1000.0, 2500.0, 4000.0, 3000.0, 500.0])
hotel.power_input = np.array([100.0, 400.0, 800.0, 600.0, 200.0])
main_engine.status = np.ones(n, dtype=bool)
genset.status = np.ones(n, dtype=bool)
genset.load_sharing_mode = np.zeros(n)
plant.set_time_interval(dt, method)
plant.do_power_balance_calculation()


def energy_kwh(power_kw):
    return (
        integrate_data(data_to_integrate=power_kw, time_interval_s=dt, integration_method=method)
        / 3600.0
    )


violated = False
for tier in (1, 2, 3):
    result = plant.get_fuel_energy_consumption_running_time(
        time_interval_s=dt, nox_emission_criteria=tier, integration_method=method
    )
    got_mech = result.mechanical_system.total_emission_kg[EmissionType.NOX]
    got_elec = result.electric_system.total_emission_kg[EmissionType.NOX]
    want_mech = limit_g_per_kwh(tier, RPM_MAIN) * energy_kwh(main_engine.engine.power_output) / 1e3
    want_elec = limit_g_per_kwh(tier, RPM_AUX) * energy_kwh(genset.aux_engine.power_output) / 1e3
    ok = np.isclose(got_mech, want_mech, rtol=1e-9) and np.isclose(got_elec, want_elec, rtol=1e-9)
    print(
        f"nox_emission_criteria={tier}: NOx main engine {got_mech:.6f} kg (Tier {tier} limit x "
        f"brake energy = {want_mech:.6f} kg), genset {got_elec:.6f} kg (expected {want_elec:.6f} kg)"
        f"  -> {'ok' if ok else 'VIOLATED'}"
    )
    violated |= not ok

if violated:
    print("The argument nox_emission_criteria has no effect: every tier asked for gives Tier II.")
    sys.exit(1)
print("property holds")
sys.exit(0)
