"""C09 finding 2: an emission curve whose points are not listed by increasing load is refused.

Property clause: for ANY species given as a curve the mass is the curve value at the current load
times the brake energy. The same curve (same set of points) listed from 100 % load downwards, as
engine data sheets and the BSFC columns of the project's own CSV format do, must give the same
masses as when it is listed upwards.
"""
import sys

import numpy as np

from feems.components_model.component_mechanical import COGAS, Engine
from feems.types_for_feems import (
    EmissionCurve,
    EmissionCurvePoint,
    EmissionType,
    NOxCalculationMethod,
    TypeComponent,
)

bsfc = np.array([[1.0, 195.0], [0.75, 190.0], [0.5, 200.0], [0.25, 220.0]])  # descending: accepted
points_up = [(0.25, 8.0), (0.5, 5.0), (0.75, 4.0), (1.0, 3.5)]  # CH4 slip, g/kWh
power_kw = np.array([250.0, 500.0, 600.0, 750.0, 1000.0])
dt_s = 60.0


def curve(points):
    return [
        EmissionCurve(
            points_per_kwh=[EmissionCurvePoint(load_ratio=x, emission_g_per_kwh=y) for x, y in points],
            emission=EmissionType.CH4,
        )
    ]


def engine_mass_kg(points):
    engine = Engine(
        type_=TypeComponent.MAIN_ENGINE,
        nox_calculation_method=NOxCalculationMethod.TIER_3,
        rated_power=1000.0,
        rated_speed=750.0,
        bsfc_curve=bsfc,
        emissions_curves=curve(points),
    )
    rate = engine.get_engine_run_point_from_power_out_kw(power_kw).emissions_g_per_s
    return float(np.sum(rate[EmissionType.CH4]) * dt_s / 1000)


def cogas_mass_kg(points):
    cogas = COGAS(
        rated_power=1000.0,
        rated_speed=1500.0,
        eff_curve=np.array([[1.0, 0.5], [0.25, 0.3]]),
        emissions_curves=curve(points),
    )
    rate = cogas.get_gas_turbine_run_point_from_power_output_kw(power_kw).emissions_g_per_s
    return float(np.sum(rate[EmissionType.CH4]) * dt_s / 1000)


violated = False
for label, fun in (("Engine", engine_mass_kg), ("COGAS", cogas_mass_kg)):
    reference = fun(points_up)
    # at the curve's own points the value is known without any interpolation rule:
    print(f"{label}: points listed upwards -> CH4 {reference:.6f} kg")
    for name, pts in (
        ("listed downwards (100 % first)", points_up[::-1]),
        ("listed in mixed order", [points_up[1], points_up[3], points_up[0], points_up[2]]),
    ):
        try:
            got = fun(pts)
        except Exception as exc:  # noqa: BLE001
            print(f"{label}: same points {name} -> refused: {type(exc).__name__}: {exc}")
            violated = True
            continue
        ok = np.isclose(got, reference, rtol=1e-9)
        print(f"{label}: same points {name} -> CH4 {got:.6f} kg -> {'ok' if ok else 'VIOLATED'}")
        violated |= not ok

if violated:
    print("Property C09 violated: a valid curve is refused (or read differently) for its listing order")
    sys.exit(1)
print("Property C09 holds: the listing order of the curve points does not matter")
sys.exit(0)
