"""C09 finding 3: emission curves handed to Engine / COGAS as a one-pass iterable (generator, map,
iterator) are copied into the public attribute `emission_curves` (and from there written to
protobuf) but NO species is computed from them: the copy added by the repair 'a component keeps
the caller's emission curve lists' consumes the iterable before the interpolators are built.
The mass of every curve species is then absent (read as 0 from the totals) instead of
curve(load) x brake energy; with the NOx method CURVE the constructor fails on its assert.
The same plant read back from its own protobuf description DOES compute the species.

(The argument is annotated List[EmissionCurve]; a tuple works, a generator did work for the
calculation before that repair.)

Run: PYTHONPATH=<wt>/feems:<wt>/machinery-system-structure:<wt>/RunFEEMSSim python finding_3.py
Exit status 1 = property violated (current code), 0 = holds.
"""
import logging
import sys

import numpy as np

logging.disable(logging.CRITICAL)

from feems.components_model.component_mechanical import COGAS, Engine  # noqa: E402
from feems.types_for_feems import (  # noqa: E402
    EmissionCurve,
    EmissionCurvePoint,
    EmissionType,
    NOxCalculationMethod,
    TypeComponent,
)

TABLE = {
    EmissionType.CO: [(0.25, 3.0), (1.0, 1.0)],  # two points: linear in load
    EmissionType.PM: [(0.5, 0.4)],  # one point: constant
}


def curves():
    """The curves of the plant description, produced on the fly"""
    return (
        EmissionCurve([EmissionCurvePoint(*point) for point in points], species)
        for species, points in TABLE.items()
    )


POWER_KW = np.array([250.0, 500.0, 1000.0])
RATED_KW = 1000.0
EXPECTED_G_PER_S = {
    EmissionType.CO: np.interp(POWER_KW / RATED_KW, [0.25, 1.0], [3.0, 1.0]) * POWER_KW / 3600,
    EmissionType.PM: 0.4 * POWER_KW / 3600,
}

violated = False
FACTORIES = (
    ("list", lambda: list(curves())),
    ("tuple", lambda: tuple(curves())),
    ("generator", lambda: curves()),
    ("map", lambda: map(lambda curve: curve, list(curves()))),
)
for label, make_argument in FACTORIES:
    for kind in ("Engine", "COGAS"):
        if kind == "Engine":
            component = Engine(
                type_=TypeComponent.AUXILIARY_ENGINE,
                nox_calculation_method=NOxCalculationMethod.TIER_2,
                rated_power=RATED_KW,
                rated_speed=720,
                bsfc_curve=np.array([[0.25, 220.0], [1.0, 195.0]]),
                emissions_curves=make_argument(),
            )
            rates = component.get_engine_run_point_from_power_out_kw(POWER_KW).emissions_g_per_s
        else:
            component = COGAS(
                rated_power=RATED_KW,
                rated_speed=720,
                eff_curve=np.array([0.4]),
                nox_calculation_method=NOxCalculationMethod.TIER_2,
                emissions_curves=make_argument(),
            )
            rates = component.get_gas_turbine_run_point_from_power_output_kw(
                POWER_KW
            ).emissions_g_per_s
        kept = [curve.emission.name for curve in component.emission_curves]
        for species, expected in EXPECTED_G_PER_S.items():
            got = rates.get(species)
            ok = got is not None and np.allclose(got, expected, rtol=1e-12)
            violated |= not ok
            print(
                f"{kind:6s} curves given as {label:9s}: component.emission_curves lists {kept}; "
                f"{species.name} rate {None if got is None else np.round(got, 6)} g/s, "
                f"curve(load) x power = {np.round(expected, 6)} g/s -> "
                f"{'ok' if ok else 'VIOLATED'}"
            )

if violated:
    print("VIOLATION: species given as a curve have no mass although the component keeps the curve.")
    sys.exit(1)
print("property holds")
sys.exit(0)
