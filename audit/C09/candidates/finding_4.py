"""C09 finding 4: MechanicalPropulsionSystemWithElectricPowerSystem.get_fuel_energy_consumption_
running_time(nox_emission_criteria=...) - documented as "IMO NOx emission tier 1, 2, 3" - is
ignored: the NOx mass is the same for 1, 2 and 3.

Property clause: NOx mass = Regulation 13 limit for THAT TIER and rated speed times brake energy,
for every tier. Here the tier is stated through the public argument made for it, on engines whose
constructor was not told any tier.
"""
import logging
import sys

import numpy as np

logging.disable(logging.CRITICAL)

from feems.components_model.component_electric import ElectricComponent, ElectricMachine, Genset
from feems.components_model.component_mechanical import (
    Engine,
    MainEngineForMechanicalPropulsion,
    MechanicalPropulsionComponent,
)
from feems.components_model.utility import IntegrationMethod
from feems.system_model import (
    ElectricPowerSystem,
    MechanicalPropulsionSystem,
    MechanicalPropulsionSystemWithElectricPowerSystem,
)
from feems.types_for_feems import EmissionType, TypeComponent, TypePower


def limit_g_per_kwh(tier: int, n: float) -> float:
    if n <= 130:
        return {1: 17.0, 2: 14.4, 3: 3.4}[tier]
    return {1: 45 * n**-0.2, 2: 44 * n**-0.23, 3: 9 * n**-0.2}[tier]


bsfc = np.array([[0.25, 220.0], [0.5, 200.0], [0.75, 190.0], [1.0, 195.0]])
n_steps, dt_s = 9, 30.0
rng = np.random.default_rng(9)

main_engine = MainEngineForMechanicalPropulsion(
    "main engine",
    Engine(type_=TypeComponent.MAIN_ENGINE, name="me", rated_power=5000.0, rated_speed=110.0,
           bsfc_curve=bsfc),
    shaft_line_id=1,
)
propeller = MechanicalPropulsionComponent(
    TypeComponent.PROPELLER_LOAD, TypePower.POWER_CONSUMER, "propeller", 5000.0, np.array([1.0]),
    110.0, shaft_line_id=1,
)
mechanical = MechanicalPropulsionSystem("mech", [main_engine, propeller])
aux_engine = Engine(type_=TypeComponent.AUXILIARY_ENGINE, name="ae", rated_power=1100.0,
                    rated_speed=900.0, bsfc_curve=bsfc)
generator = ElectricMachine(
    type_=TypeComponent.GENERATOR, name="gen", rated_power=1000.0, rated_speed=900.0,
    power_type=TypePower.POWER_SOURCE, switchboard_id=1, eff_curve=np.array([0.95]),
)
genset = Genset("genset", aux_engine, generator)
hotel = ElectricComponent(
    type_=TypeComponent.OTHER_LOAD, name="hotel", rated_power=1500.0,
    power_type=TypePower.POWER_CONSUMER, switchboard_id=1, eff_curve=np.array([1.0]),
)
electric = ElectricPowerSystem("el", [genset, hotel], [])
system = MechanicalPropulsionSystemWithElectricPowerSystem("ship", electric, mechanical)

propeller.set_power_input_from_output(1000.0 + rng.random(n_steps) * 3000.0)
main_engine.status = np.ones(n_steps, dtype=bool)
hotel.power_input = 200.0 + rng.random(n_steps) * 600.0
genset.status = np.ones(n_steps, dtype=bool)
genset.load_sharing_mode = np.zeros(n_steps)
electric.set_time_interval(dt_s, IntegrationMethod.trapezoid)
mechanical.set_time_interval(dt_s, IntegrationMethod.trapezoid)
system.do_power_balance_calculation()

violated = False
for tier in (1, 2, 3):
    try:
        res = system.get_fuel_energy_consumption_running_time(
            time_interval_s=dt_s,
            nox_emission_criteria=tier,
            integration_method=IntegrationMethod.trapezoid,
        )
    except TypeError as exc:
        # the argument was removed: the tier can then only be stated on the engine - no conflict
        print(f"nox_emission_criteria is no longer accepted ({exc}); nothing to disagree with")
        sys.exit(0)
    e_me_kwh = res.mechanical_system.detail_result.loc[
        "main engine", "mechanical energy consumption [MJ]"] / 3.6
    e_ae_kwh = res.electric_system.detail_result.loc[
        "genset", "mechanical energy consumption [MJ]"] / 3.6
    got = (res.mechanical_system.total_emission_kg[EmissionType.NOX],
           res.electric_system.total_emission_kg[EmissionType.NOX])
    want = (limit_g_per_kwh(tier, 110.0) * e_me_kwh / 1000,
            limit_g_per_kwh(tier, 900.0) * e_ae_kwh / 1000)
    ok = np.allclose(got, want, rtol=1e-9)
    print(f"nox_emission_criteria={tier}: NOx main engine {got[0]:.5f} kg (Tier {tier} limit x "
          f"brake energy = {want[0]:.5f}), genset {got[1]:.5f} kg ({want[1]:.5f}) -> "
          f"{'ok' if ok else 'VIOLATED'}")
    violated |= not ok
if violated:
    print("Property C09 violated: the tier asked for in the call is ignored")
    sys.exit(1)
print("Property C09 holds for the tier asked for in the call")
sys.exit(0)
