"""C09 finding 3: below the first point of a curve the species factor is a cubic extrapolation
that turns NEGATIVE, so an engine that delivers positive brake energy emits a negative mass.

Property clause: for any species given as a curve the mass is the curve value at the current load
times the brake energy - for ALL powers. Every value of the curve below is positive, so whatever
one takes "the curve value" to be outside the points (end value held, straight line to zero, ...),
the mass for positive brake energy cannot be negative, and it cannot exceed the largest value of
the curve times the energy either.
"""
import sys

import numpy as np

from feems.components_model.component_electric import ElectricMachine, Genset
from feems.components_model.node import get_fuel_emission_energy_balance_for_component
from feems.components_model.utility import IntegrationMethod
from feems.types_for_feems import (
    EmissionCurve,
    EmissionCurvePoint,
    EmissionType,
    NOxCalculationMethod,
    TypeComponent,
    TypePower,
)
from feems.components_model.component_mechanical import Engine

bsfc = np.array([[0.25, 220.0], [0.5, 200.0], [0.75, 190.0], [1.0, 195.0]])
nox_points = [(0.25, 2.0), (0.5, 6.0), (0.75, 9.0), (1.0, 10.0)]  # measured NOx, g/kWh
engine = Engine(
    type_=TypeComponent.AUXILIARY_ENGINE,
    name="aux engine",
    nox_calculation_method=NOxCalculationMethod.CURVE,
    rated_power=1000.0,
    rated_speed=900.0,
    bsfc_curve=bsfc,
    emissions_curves=[
        EmissionCurve(
            points_per_kwh=[EmissionCurvePoint(x, y) for x, y in nox_points],
            emission=EmissionType.NOX,
        )
    ],
)
generator = ElectricMachine(
    type_=TypeComponent.GENERATOR,
    name="generator",
    rated_power=1000.0,
    rated_speed=900.0,
    power_type=TypePower.POWER_SOURCE,
    switchboard_id=1,
    eff_curve=np.array([1.0]),
)
genset = Genset("genset", engine, generator)

# A genset idling at 2 - 12 % load for an hour (harbour stand-by), positive power throughout
genset.power_output = np.array([20.0, 50.0, 80.0, 100.0, 120.0, 50.0])
dt_s = np.full(6, 600.0)
result = get_fuel_emission_energy_balance_for_component(
    component=genset,
    time_interval_s=dt_s,
    integration_method=IntegrationMethod.sum_with_time,
)
nox_kg = float(result.total_emission_kg[EmissionType.NOX])
brake_energy_kwh = float(np.dot(engine.power_output, dt_s) / 3600)
low = 0.0
high = max(y for _, y in nox_points) * brake_energy_kwh / 1000
print("factor used by the code at loads 0.02 .. 0.12 [g/kWh]:",
      np.round(engine.emissions_g_per_kwh(EmissionType.NOX, engine.power_output / 1000.0), 3))
print(f"brake energy delivered {brake_energy_kwh:.2f} kWh (positive), NOx mass {nox_kg:.6f} kg; "
      f"any reading of a curve whose values lie in [2, 10] g/kWh gives between {low} and {high:.4f} kg")
if not (low <= nox_kg <= high):
    print("Property C09 violated: negative mass of a species for positive brake energy")
    sys.exit(1)
print("Property C09 holds at loads below the first curve point")
sys.exit(0)
