"""C09 finding 1: a ONE-point emission curve is not copied at construction.

get_emission_curve_from_points returns, for a curve of one point, a lambda that reads the caller's
list every time it is evaluated (late binding); a curve of two or more points is copied into numpy
arrays.  When the caller re-uses the list object to describe the next engine, the species mass of
the engine built earlier silently becomes that of the later curve.

Property clause: "For any species given as a curve the mass is the curve value at the current load
times the brake energy" - the curve being the one the component was given.
"""
import sys
import numpy as np
from feems.components_model.component_mechanical import Engine, COGAS
from feems.components_model.component_electric import ElectricMachine, Genset
from feems.components_model.node import get_fuel_emission_energy_balance_for_component
from feems.components_model.utility import IntegrationMethod
from feems.types_for_feems import (
    EmissionCurve, EmissionCurvePoint, EmissionType, NOxCalculationMethod, TypeComponent, TypePower,
)

BSFC = np.array([[0.25, 220.0], [0.5, 200.0], [0.75, 190.0], [1.0, 195.0]])
VALUES = (5.0, 9.0)  # g/kWh of CO of engine 1 and engine 2


def build_gensets(points_for):
    """Two generating sets; the list of curve points is the same python list, filled anew for
    the second engine (a common way of writing a loop over a fleet table)."""
    gensets = []
    points = []
    for i, value in enumerate(VALUES):
        points.clear()
        points.extend(points_for(value))
        engine = Engine(
            type_=TypeComponent.AUXILIARY_ENGINE,
            nox_calculation_method=NOxCalculationMethod.TIER_1,
            name=f"engine {i + 1}",
            rated_power=1000.0,
            rated_speed=720.0,
            bsfc_curve=BSFC,
            emissions_curves=[EmissionCurve(points_per_kwh=points, emission=EmissionType.CO)],
        )
        generator = ElectricMachine(
            type_=TypeComponent.GENERATOR,
            name=f"generator {i + 1}",
            rated_power=950.0,
            rated_speed=720.0,
            power_type=TypePower.POWER_SOURCE,
            switchboard_id=1,
            eff_curve=np.array([0.95]),
        )
        gensets.append(Genset(f"genset {i + 1}", engine, generator))
    return gensets


def co_factor_seen(genset):
    """CO mass of the node-level record divided by the brake energy -> g/kWh actually applied."""
    genset.power_output = np.array([475.0, 475.0, 475.0])
    dt = np.array([3600.0, 3600.0, 3600.0])
    res = get_fuel_emission_energy_balance_for_component(
        genset, dt, IntegrationMethod.sum_with_time
    )
    brake_kwh = float(np.dot(genset.aux_engine.power_output, dt) / 3600.0)
    return res.total_emission_kg[EmissionType.CO] * 1000.0 / brake_kwh


violated = False
for label, points_for in (
    ("one-point curve ", lambda v: [EmissionCurvePoint(1.0, v)]),
    ("two-point curve ", lambda v: [EmissionCurvePoint(0.0, v), EmissionCurvePoint(1.0, v)]),
):
    gensets = build_gensets(points_for)
    for genset, given in zip(gensets, VALUES):
        seen = co_factor_seen(genset)
        ok = np.isclose(seen, given, rtol=1e-9)
        print(f"{label} {genset.name}: curve given {given} g/kWh, mass / brake energy = {seen:.6f} g/kWh"
              f"  {'ok' if ok else 'VIOLATION'}")
        violated |= not ok

# the same for the turbine class
points = [EmissionCurvePoint(1.0, 5.0)]
turbine = COGAS(name="t", rated_power=1000.0, rated_speed=1500.0, eff_curve=np.array([0.4]),
                emissions_curves=[EmissionCurve(points, EmissionType.CO)])
points[0] = EmissionCurvePoint(1.0, 9.0)
rate = turbine.get_gas_turbine_run_point_from_power_output_kw(np.array([500.0])).emissions_g_per_s
seen = float(rate[EmissionType.CO][0] * 3600 / 500.0)
print(f"COGAS one-point curve: given 5.0 g/kWh, applied {seen} g/kWh  {'ok' if seen == 5.0 else 'VIOLATION'}")
violated |= seen != 5.0

sys.exit(1 if violated else 0)
