"""C09 finding 1: an Engine built with the file_name= (CSV) constructor takes the slow-speed
NOx constant (17.0 / 14.4 / 3.4 g/kWh) whatever rated speed the file states.

Property clause: NOx mass = Regulation 13 limit for the engine's tier AND RATED SPEED times the
brake energy delivered.
"""
import os
import sys
import tempfile

import numpy as np
import pandas as pd

from feems.components_model.component_mechanical import Engine
from feems.types_for_feems import EmissionType, NOxCalculationMethod, TypeComponent


def limit_g_per_kwh(tier: int, n: float) -> float:
    if n <= 130:
        return {1: 17.0, 2: 14.4, 3: 3.4}[tier]
    return {1: 45 * n**-0.2, 2: 44 * n**-0.23, 3: 9 * n**-0.2}[tier]


tmp = tempfile.mkdtemp()
csv = os.path.join(tmp, "engine.csv")
pd.DataFrame(
    {
        "Rated Power": [2000.0],
        "Rated Speed": [750.0],
        "BSFC @100%": [195.0],
        "BSFC @75%": [190.0],
        "BSFC @50%": [200.0],
        "BSFC @25%": [220.0],
    },
    index=["engine from file"],
).to_csv(csv)

power_kw = np.array([0.0, 500.0, 1000.0, 1500.0, 2000.0])  # brake power series
dt_s = 60.0
violated = False
for tier, method in (
    (1, NOxCalculationMethod.TIER_1),
    (2, NOxCalculationMethod.TIER_2),
    (3, NOxCalculationMethod.TIER_3),
):
    # exactly the call of feems/tests/test_components.py::test_engine_with_file_bsfc_curve
    engine = Engine(type_=TypeComponent.MAIN_ENGINE, file_name=csv, nox_calculation_method=method)
    assert engine.rated_speed == 750.0 and engine.rated_power == 2000.0
    run_point = engine.get_engine_run_point_from_power_out_kw(power_kw)
    nox_kg = float(np.sum(run_point.emissions_g_per_s[EmissionType.NOX]) * dt_s / 1000)
    brake_energy_kwh = float(np.sum(power_kw) * dt_s / 3600)
    expected_kg = limit_g_per_kwh(tier, engine.rated_speed) * brake_energy_kwh / 1000
    ok = np.isclose(nox_kg, expected_kg, rtol=1e-9)
    print(
        f"Tier {tier}: rated speed of the engine {engine.rated_speed} rpm, brake energy "
        f"{brake_energy_kwh:.3f} kWh, NOx {nox_kg:.6f} kg, Regulation 13 demands "
        f"{expected_kg:.6f} kg ({nox_kg / expected_kg:.3f} x) -> {'ok' if ok else 'VIOLATED'}"
    )
    violated |= not ok
os.unlink(csv)
os.rmdir(tmp)
if violated:
    print("Property C09 violated: the limit of an engine read from a file ignores its rated speed")
    sys.exit(1)
print("Property C09 holds for engines read from a file")
sys.exit(0)
