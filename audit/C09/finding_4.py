"""C09 finding 1: the per-component record of a COGES (gas/steam turbine plant + generator) carries
a NOx mass but NO brake energy, so 'NOx mass = Regulation 13 limit x brake energy delivered' is
false on the published record of a turbine, while it holds on the record of a genset built from
the same numbers.

Run: PYTHONPATH=<wt>/feems:<wt>/machinery-system-structure:<wt>/RunFEEMSSim python finding_1.py
Exit status 1 = property violated (current code), 0 = holds.
"""
import logging
import sys

import numpy as np

logging.disable(logging.CRITICAL)

from feems.components_model.component_electric import (  # noqa: E402
    COGES,
    ElectricComponent,
    ElectricMachine,
    Genset,
)
from feems.components_model.component_mechanical import COGAS, Engine  # noqa: E402
from feems.components_model.utility import IntegrationMethod  # noqa: E402
from feems.system_model import ElectricPowerSystem  # noqa: E402
from feems.types_for_feems import (  # noqa: E402
    EmissionType,
    NOxCalculationMethod,
    TypeComponent,
    TypePower,
)

RATED_SPEED = 1500.0  # rpm, inside 130..2000
TIER = NOxCalculationMethod.TIER_1
LIMIT_G_PER_KWH = 45.0 * RATED_SPEED**-0.2  # Regulation 13, Tier I, 130 < n < 2000

eff_generator = np.array([[0.0, 0.85], [0.25, 0.9], [0.5, 0.94], [0.75, 0.95], [1.0, 0.96]])


def generator(name):
    return ElectricMachine(
        type_=TypeComponent.GENERATOR,
        name=name,
        rated_power=950,
        rated_speed=RATED_SPEED,
        power_type=TypePower.POWER_SOURCE,
        switchboard_id=1,
        eff_curve=eff_generator,
    )


cogas = COGAS(
    name="cogas",
    rated_power=1000,
    rated_speed=RATED_SPEED,
    eff_curve=np.array([[0.25, 0.3], [0.5, 0.4], [1.0, 0.5]]),
    nox_calculation_method=TIER,
)
coges = COGES(name="COGES", cogas=cogas, generator=generator("generator 1"))
engine = Engine(
    type_=TypeComponent.AUXILIARY_ENGINE,
    nox_calculation_method=TIER,
    rated_power=1000,
    rated_speed=RATED_SPEED,
    bsfc_curve=np.array([[0.25, 220.0], [1.0, 195.0]]),
)
genset = Genset("GENSET", engine, generator("generator 2"))
load = ElectricComponent(
    type_=TypeComponent.OTHER_LOAD,
    name="hotel load",
    rated_power=2000,
    power_type=TypePower.POWER_CONSUMER,
    switchboard_id=1,
)
system = ElectricPowerSystem("plant", [coges, genset, load], bus_tie_connections=[])

load.power_input = np.array([500.0, 1000.0, 1500.0])
for source in (coges, genset):
    source.status = np.ones(3, dtype=bool)
    source.load_sharing_mode = np.zeros(3)
system.set_time_interval(
    np.array([3600.0, 3600.0, 3600.0]), integration_method=IntegrationMethod.sum_with_time
)
system.do_power_balance_calculation()
result = system.get_fuel_energy_consumption_running_time()

# brake energy actually delivered by the two prime movers (equal: same generator, same share)
brake_mj = {
    "COGES": float(np.sum(cogas.power_output) * 3600.0 / 1000.0),
    "GENSET": float(np.sum(engine.power_output) * 3600.0 / 1000.0),
}

violated = False
for name in ("GENSET", "COGES"):
    row = result.detail_result.loc[name]
    nox_kg = float(row["NOx emission [kg]"])
    brake_mj_record = float(row["mechanical energy consumption [MJ]"])
    expected_from_record = LIMIT_G_PER_KWH * (brake_mj_record / 3.6) / 1000.0
    expected_from_object = LIMIT_G_PER_KWH * (brake_mj[name] / 3.6) / 1000.0
    ok = np.isclose(nox_kg, expected_from_record, rtol=1e-9)
    print(
        f"{name:7s} NOx in record {nox_kg:.6f} kg | brake energy in record "
        f"{brake_mj_record:.3f} MJ (delivered: {brake_mj[name]:.3f} MJ) | "
        f"limit x brake energy of the record = {expected_from_record:.6f} kg "
        f"(of the object {expected_from_object:.6f} kg) -> {'ok' if ok else 'VIOLATED'}"
    )
    violated |= not ok

total = result.total_emission_kg[EmissionType.NOX]
print(f"system NOx total {total:.6f} kg")
if violated:
    print(
        "VIOLATION: the COGES row reports NOx for a brake energy of 0 MJ; the genset row next "
        "to it reports the engine's brake energy."
    )
    sys.exit(1)
print("property holds")
sys.exit(0)
