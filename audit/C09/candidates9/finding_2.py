"""C09 finding 2: the clause 'the limit is continuous in speed' is false at 130 rpm, most visibly
for Tier II: rated speed 130 rpm gives 14.4 g/kWh, the next representable speed above 130 rpm gives
44 * n**-0.23 = 14.363 g/kWh - a step of 0.26 % (Tier I and Tier III: 0.005 %).  The code follows
the constants of Regulation 13 (first clause of the property) exactly; the constants themselves
do not meet at 130 rpm, so the derived clause of the property cannot hold together with the first.

Run: PYTHONPATH=<wt>/feems:<wt>/machinery-system-structure:<wt>/RunFEEMSSim python finding_2.py
Exit status 1 = property violated (current code), 0 = holds.
"""
import logging
import sys

import numpy as np

logging.disable(logging.CRITICAL)

from feems.components_model.component_mechanical import COGAS, Engine  # noqa: E402
from feems.types_for_feems import EmissionType, NOxCalculationMethod, TypeComponent  # noqa: E402

TIERS = [
    NOxCalculationMethod.TIER_1,
    NOxCalculationMethod.TIER_2,
    NOxCalculationMethod.TIER_3,
]


def limit_engine(tier, rated_speed):
    engine = Engine(
        type_=TypeComponent.AUXILIARY_ENGINE,
        nox_calculation_method=tier,
        rated_power=1000,
        rated_speed=rated_speed,
        bsfc_curve=np.array([[0.25, 220.0], [1.0, 195.0]]),
    )
    # 3600 kW for one second = 1 kWh of brake energy: the rate in g/s is the limit in g/kWh
    run_point = engine.get_engine_run_point_from_power_out_kw(np.array([3600.0]))
    return float(run_point.emissions_g_per_s[EmissionType.NOX][0])


def limit_turbine(tier, rated_speed):
    cogas = COGAS(
        rated_power=1000,
        rated_speed=rated_speed,
        eff_curve=np.array([0.4]),
        nox_calculation_method=tier,
    )
    run_point = cogas.get_gas_turbine_run_point_from_power_output_kw(np.array([3600.0]))
    return float(run_point.emissions_g_per_s[EmissionType.NOX][0])


below = 130.0
above = float(np.nextafter(130.0, 200.0))  # 130.00000000000003 rpm
# A continuous function cannot move by more than this over one unit in the last place of the
# speed (the steepest of the three formulas changes by 2e-16 relative over that distance).
TOLERANCE = 1e-9

violated = False
for name, limit in (("Engine", limit_engine), ("COGAS", limit_turbine)):
    for tier in TIERS:
        low, high = limit(tier, below), limit(tier, above)
        step = abs(high - low) / low
        ok = step <= TOLERANCE
        print(
            f"{name:6s} {tier.name}: limit({below!r}) = {low:.6f} g/kWh, "
            f"limit({above!r}) = {high:.6f} g/kWh, relative step {step:.3e} "
            f"-> {'continuous' if ok else 'NOT continuous'}"
        )
        violated |= not ok

# The other derived clauses do hold at the joint (never increasing, ordered by tier, positive)
for tier in TIERS:
    assert limit_engine(tier, above) <= limit_engine(tier, below)
    assert limit_engine(tier, above) > 0
assert limit_engine(TIERS[0], above) >= limit_engine(TIERS[1], above) >= limit_engine(TIERS[2], above)

if violated:
    print("VIOLATION: the NOx limit steps down at 130 rpm (Tier II by 0.26 %).")
    sys.exit(1)
print("property holds")
sys.exit(0)
