"""C09 finding 2: EnergySource.set_remaining_capacity_from_feems_result cuts the fuel and the CO2
of a result down to what the tank still held, but leaves the NOx mass (and every curve-based
species) of the whole period in the 'updated' result it returns.

A Tier I generating set runs at constant load for 9 h and would burn about 1.1 t of diesel.  The
tank (EnergySourceType.LNG_DIESEL) holds 500 kg.  The method returns the share of the period that
could be served (0.455), sets fuel = 500 kg and scales CO2 accordingly - the NOx mass stays that of
the full 9 h.  At constant load the brake energy delivered with 500 kg of fuel is exactly that
share of the full brake energy, so NOx must be limit x brake energy x share.
"""
import sys
import logging
import numpy as np

logging.disable(logging.WARNING)
from feems.components_model.component_mechanical import Engine
from feems.components_model.component_electric import ElectricMachine, ElectricComponent, Genset
from feems.components_model.utility import IntegrationMethod
from feems.simulation_interface import EnergySource, EnergySourceType
from feems.system_model import ElectricPowerSystem
from feems.types_for_feems import (
    EmissionCurve, EmissionCurvePoint, EmissionType, NOxCalculationMethod, TypeComponent, TypePower,
)

SPEED = 720.0
LIMIT_TIER_1 = 45.0 * SPEED ** -0.2  # g/kWh
CO_G_PER_KWH = 2.0

engine = Engine(
    type_=TypeComponent.AUXILIARY_ENGINE,
    nox_calculation_method=NOxCalculationMethod.TIER_1,
    name="engine",
    rated_power=1000.0,
    rated_speed=SPEED,
    bsfc_curve=np.array([[0.25, 220.0], [0.5, 200.0], [0.75, 190.0], [1.0, 195.0]]),
    emissions_curves=[
        EmissionCurve(
            [EmissionCurvePoint(0.0, CO_G_PER_KWH), EmissionCurvePoint(1.0, CO_G_PER_KWH)],
            EmissionType.CO,
        )
    ],
)
generator = ElectricMachine(
    type_=TypeComponent.GENERATOR, name="generator", rated_power=950.0, rated_speed=SPEED,
    power_type=TypePower.POWER_SOURCE, switchboard_id=1, eff_curve=np.array([0.95]),
)
genset = Genset("genset", engine, generator)
load = ElectricComponent(
    type_=TypeComponent.OTHER_LOAD, name="hotel", rated_power=1000.0,
    power_type=TypePower.POWER_CONSUMER, switchboard_id=1, eff_curve=np.array([1.0]),
)
plant = ElectricPowerSystem("plant", [genset, load], [])

n = 10
plant.set_time_interval(3600.0, IntegrationMethod.trapezoid)
load.power_input = np.full(n, 570.0)
genset.status = np.ones(n, dtype=bool)
genset.load_sharing_mode = np.zeros(n)
plant.do_power_balance_calculation()
result = plant.get_fuel_energy_consumption_running_time()

brake_kwh_full = float(np.trapezoid(engine.power_output) * 3600.0 / 3600.0)
nox_full = result.total_emission_kg[EmissionType.NOX]
print(f"full period : fuel {result.fuel_consumption_total_kg:.1f} kg, brake energy {brake_kwh_full:.1f} kWh, "
      f"NOx {nox_full:.3f} kg (= {nox_full * 1000 / brake_kwh_full:.4f} g/kWh, limit {LIMIT_TIER_1:.4f})")
assert np.isclose(nox_full * 1000 / brake_kwh_full, LIMIT_TIER_1, rtol=1e-9)

tank = EnergySource(EnergySourceType.LNG_DIESEL, rated_capacity=500.0, unit="kg", remaining_capacity=500.0)
share, updated = tank.set_remaining_capacity_from_feems_result(result)
brake_kwh_served = brake_kwh_full * share  # constant load: fuel, time and brake energy scale alike
nox_expected = LIMIT_TIER_1 * brake_kwh_served / 1000.0
co_expected = CO_G_PER_KWH * brake_kwh_served / 1000.0
nox_updated = updated.total_emission_kg[EmissionType.NOX]
co_updated = updated.total_emission_kg[EmissionType.CO]
print(f"tank 500 kg : share served {share:.4f}, fuel {updated.fuel_consumption_total_kg:.1f} kg, "
      f"CO2 {updated.co2_emission_total_kg.tank_to_wake_kg_or_gco2eq_per_gfuel:.1f} kg, brake energy served {brake_kwh_served:.1f} kWh")
print(f"              NOx in the updated result {nox_updated:.3f} kg, limit x brake energy = {nox_expected:.3f} kg")
print(f"              CO  in the updated result {co_updated:.3f} kg, curve x brake energy = {co_expected:.3f} kg")

violated = not (np.isclose(nox_updated, nox_expected, rtol=1e-6) and np.isclose(co_updated, co_expected, rtol=1e-6))
print("VIOLATION" if violated else "ok")
sys.exit(1 if violated else 0)
