"""C08 finding 1: a mix of an IMO-specified fuel and a USER-specified fuel is not the sum over its
fuels of mass x pathway factor.

FuelByMassFraction.get_kg_co2_per_kg_fuel drops the engine class for the WHOLE mix as soon as one
fuel of the mix is IMO-specified (fuel.py, "if self.fuel_specified_by == IMO: fuel_consumer_class =
None").  The user-specified fuel of the same mix is then looked up with class None instead of the
engine class the caller gave:
  (a) if the user's factor list has an entry for the engine class only, the mix is refused with a
      bare StopIteration, although each of the two fuels alone is accepted with the same call;
  (b) if the list also holds a class-less entry, that one is used silently, so the contribution of
      the user-specified gas changes when a pilot fuel is added to the record.

Exit status 1 = property violated (current code), 0 = holds.
"""

import sys

import numpy as np

from feems.fuel import (
    Fuel,
    FuelConsumption,
    FuelConsumerClassFuelEUMaritime as Cls,
    FuelOrigin,
    FuelSpecifiedBy,
    GhgEmissionFactorTankToWake,
    TypeFuel,
)

ENGINE_CLASS = Cls.LNG_OTTO_MEDIUM_SPEED
LHV = 0.0495  # MJ/g
WTT = 12.0  # gCO2eq/MJ
CO2, CH4, N2O, SLIP = 2.75, 0.0, 0.00011, 3.1  # the user's certified figures for this engine


def expected_ttw(co2, ch4, n2o, slip_percent):
    s = slip_percent / 100
    return (1 - s) * (co2 + 25 * ch4 + 298 * n2o) + 25 * s


def user_gas(mass, with_classless_entry):
    factors = [GhgEmissionFactorTankToWake(CO2, CH4, N2O, SLIP, ENGINE_CLASS)]
    if with_classless_entry:
        # a generic entry without methane slip, e.g. for use in a boiler
        factors.append(GhgEmissionFactorTankToWake(CO2, CH4, N2O, 0.0))
    return Fuel(
        fuel_type=TypeFuel.NATURAL_GAS,
        origin=FuelOrigin.BIO,
        fuel_specified_by=FuelSpecifiedBy.USER,
        lhv_mj_per_g=LHV,
        ghg_emission_factor_well_to_tank_gco2eq_per_mj=WTT,
        ghg_emission_factor_tank_to_wake=factors,
        mass_or_mass_fraction=mass,
    )


def pilot(mass):
    return Fuel(
        fuel_type=TypeFuel.DIESEL,
        origin=FuelOrigin.FOSSIL,
        fuel_specified_by=FuelSpecifiedBy.IMO,
        mass_or_mass_fraction=mass,
    )


def check(mass_gas, mass_pilot, with_classless_entry, label):
    violated = False
    # what the property demands: sum over the fuels of mass x factor of the pathway
    ttw_demanded = np.asarray(mass_gas) * expected_ttw(CO2, CH4, N2O, SLIP) + np.asarray(
        mass_pilot
    ) * 3.206  # IMO: only the tabulated CO2 factor of MDO/MGO
    wtt_demanded = np.asarray(mass_gas) * WTT * LHV + np.asarray(mass_pilot) * 0.0
    # each fuel alone is accepted with the engine class and gives its share
    alone_gas = FuelConsumption(
        [user_gas(mass_gas, with_classless_entry)]
    ).get_total_co2_emissions(ENGINE_CLASS)
    alone_pilot = FuelConsumption([pilot(mass_pilot)]).get_total_co2_emissions(ENGINE_CLASS)
    ttw_alone = (
        alone_gas.tank_to_wake_kg_or_gco2eq_per_gfuel
        + alone_pilot.tank_to_wake_kg_or_gco2eq_per_gfuel
    )
    assert np.allclose(ttw_alone, ttw_demanded), "single fuels do not give mass x factor"
    print(f"[{label}] demanded tank-to-wake       : {ttw_demanded}")
    print(f"[{label}] gas alone + pilot alone     : {ttw_alone}")
    try:
        mix = FuelConsumption(
            [user_gas(mass_gas, with_classless_entry), pilot(mass_pilot)]
        ).get_total_co2_emissions(ENGINE_CLASS)
    except BaseException as e:  # StopIteration
        print(f"[{label}] the mix of the two is REFUSED: {type(e).__name__}({e})")
        return True
    print(f"[{label}] reported for the mix        : {mix.tank_to_wake_kg_or_gco2eq_per_gfuel}")
    if not np.allclose(mix.tank_to_wake_kg_or_gco2eq_per_gfuel, ttw_demanded, rtol=1e-9):
        print(f"[{label}] VIOLATION: tank-to-wake of the mix differs from sum of mass x factor")
        violated = True
    if not np.allclose(mix.well_to_tank_kg_or_gco2eq_per_gfuel, wtt_demanded, rtol=1e-9):
        print(f"[{label}] VIOLATION: well-to-tank of the mix differs")
        violated = True
    if not np.allclose(
        mix.well_to_wake_kg_or_gco2eq_per_gfuel, ttw_demanded + wtt_demanded, rtol=1e-9
    ):
        violated = True
    return violated


if __name__ == "__main__":
    results = [
        check(10.0, 0.3, False, "a: scalar, class entry only"),
        check(10.0, 0.3, True, "b: scalar, class + class-less entry"),
        check(
            np.array([10.0, 0.0, 4.0]),
            np.array([0.3, 0.0, 0.2]),
            True,
            "c: series, class + class-less entry",
        ),
    ]
    if any(results):
        print("PROPERTY VIOLATED")
        sys.exit(1)
    print("property holds")
    sys.exit(0)
