"""C08 finding 2: the packaged FuelEU table carries, for RFNBO (e-)LNG burnt in an LBSI engine, a
tank-to-wake figure WITHOUT the methane slip of that engine class.

Row 'RFNBO,LNG,...,LBSI' of feems/package_data/fuel_eu_fuel_table.csv has C_slip = 2.6 but
TtW_mass = 2.78278 gCO2eq/gFuel and TtW_energy = 56.67576375 gCO2eq/MJ, which are the values of
(1 - slip) x (CO2 + 25 CH4 + 298 N2O) + 25 x slip for slip = 0.  The fossil and the bio LBSI rows
give 3.36042772 / 68.44 (fossil), so in the table the figure depends on the origin of the gas.  The
row is also inconsistent with itself: TtW_energy + CO2_WtT = 30.08, WTW_energy = 41.84.

The public lookup get_ghg_factors_for_fuel_eu_maritime() (the reference that feems/tests/test_fuel.py
compares against - it looks at WTW_energy only) hands these cells out, so two public entry points
disagree about the tank-to-wake factor of the same pathway and engine class:
    Fuel(...).get_ghg_emission_factor_tank_to_wake_gco2eq_per_gfuel(LNG_LBSI)  -> 3.36042772
    get_ghg_factors_for_fuel_eu_maritime(..., LNG_LBSI).TtW_mass               -> 2.78278
(The emissions computed by FuelConsumption use the first one and are right.)

The script cross-checks every row that can be reached through the API.
Exit status 1 = property violated (current code), 0 = holds.
"""

import sys

import numpy as np

from feems.fuel import (
    Fuel,
    FuelConsumerClassFuelEUMaritime as Cls,
    FuelOrigin,
    FuelSpecifiedBy,
    TypeFuel,
    get_ghg_factors_for_fuel_eu_maritime,
)

violations = []
ttw_of_gas_by_class = {}
for fuel_type in TypeFuel:
    for origin in [FuelOrigin.FOSSIL, FuelOrigin.BIO, FuelOrigin.RENEWABLE_NON_BIO]:
        try:
            fuel = Fuel(fuel_type, origin, FuelSpecifiedBy.FUEL_EU_MARITIME)
        except ValueError:
            continue  # pathway not offered
        for factor in fuel.ghg_emission_factor_tank_to_wake:
            cls = factor.fuel_consumer_class
            slip = factor.c_slip_percent / 100
            # the statement of the property
            ttw = (1 - slip) * (
                factor.co2_factor_gco2_per_gfuel
                + 25 * factor.ch4_factor_gch4_per_gfuel
                + 298 * factor.n2o_factor_gn2o_per_gfuel
            ) + 25 * slip
            wtt = fuel.ghg_emission_factor_well_to_tank_gco2eq_per_mj * fuel.lhv_mj_per_g
            assert np.isclose(
                fuel.get_ghg_emission_factor_tank_to_wake_gco2eq_per_gfuel(cls), ttw, rtol=1e-12
            )
            row = get_ghg_factors_for_fuel_eu_maritime(fuel_type, origin, cls)
            assert len(row) == 1
            name = f"{origin.name} {fuel_type.name} in {cls.name}"
            checks = {
                "TtW_mass [g/gFuel]": (row.TtW_mass.values[0], ttw),
                "TtW_energy [g/MJ]": (row.TtW_energy.values[0], ttw / fuel.lhv_mj_per_g),
                "WTW_energy [g/MJ]": (row.WTW_energy.values[0], (ttw + wtt) / fuel.lhv_mj_per_g),
                "TtW_energy + CO2_WtT vs WTW_energy": (
                    row.TtW_energy.values[0] + row.CO2_WtT.values[0],
                    row.WTW_energy.values[0],
                ),
            }
            for what, (in_table, demanded) in checks.items():
                if not np.isclose(in_table, demanded, rtol=1e-6, atol=1e-9):
                    violations.append(f"{name}: {what}: table/lookup {in_table}, demanded {demanded}")
            if fuel_type == TypeFuel.NATURAL_GAS:
                ttw_of_gas_by_class.setdefault(cls, {})[origin] = row.TtW_mass.values[0]

# the slip (hence the tank-to-wake factor per g: CO2, CH4, N2O factors of LNG are the same for the
# three origins) does not depend on the origin of the gas
for cls, by_origin in ttw_of_gas_by_class.items():
    values = list(by_origin.values())
    if not np.allclose(values, values[0], rtol=1e-6):
        violations.append(
            f"natural gas in {cls.name}: tank-to-wake per g of fuel depends on the origin: "
            + ", ".join(f"{o.name}={v}" for o, v in by_origin.items())
        )

if violations:
    print("PROPERTY VIOLATED")
    for v in violations:
        print("  " + v)
    sys.exit(1)
print("property holds: every reachable row of the FuelEU table agrees with the computed factors")
sys.exit(0)
