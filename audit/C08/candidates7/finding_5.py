"""C08 finding 5: the emissions reported per fuel (or per engine) cannot be totalled with the built-in
sum(), and the reflected division of GHGEmissions gives the result of the operands swapped.

GHGEmissions defines __radd__ - whose only use is sum(), which starts from the integer 0 - as
"return self.__add__(other)"; __add__ reads other.tank_to_wake_kg_or_gco2eq_per_gfuel, so
sum([e1, e2]) raises AttributeError ('int' object has no attribute ...).  In the same block
__rtruediv__(self, other) returns self / other, so "x / emissions" silently gives "emissions / x"
(and __rsub__(self, other) returns self - other instead of other - self; Python only reaches it for
a left operand that is not a GHGEmissions, where it fails like __radd__).

The script totals the emissions of a 3-fuel FuelEU mix fuel by fuel (scalar and series) and compares
with the emissions reported for the whole record.
Exit status 1 = property violated (current code), 0 = holds.
"""

import sys

import numpy as np

from feems.fuel import (
    Fuel,
    FuelConsumption,
    FuelConsumerClassFuelEUMaritime as Cls,
    FuelOrigin,
    FuelSpecifiedBy,
    TypeFuel,
)

EU = FuelSpecifiedBy.FUEL_EU_MARITIME
CLS = Cls.LNG_DIESEL
violated = False

for label, masses in [
    ("scalar", [900.0, 40.0, 10.0]),
    ("series", [np.array([900.0, 0.0, 450.0]), np.array([40.0, 0.0, 30.0]), np.array([10.0, 0.0, 5.0])]),
]:
    fuels = [
        Fuel(TypeFuel.NATURAL_GAS, FuelOrigin.BIO, EU, mass_or_mass_fraction=masses[0]),
        Fuel(TypeFuel.DIESEL, FuelOrigin.FOSSIL, EU, mass_or_mass_fraction=masses[1]),
        Fuel(TypeFuel.HYDROGEN, FuelOrigin.RENEWABLE_NON_BIO, EU, mass_or_mass_fraction=masses[2]),
    ]
    whole = FuelConsumption(fuels).get_total_co2_emissions(CLS)
    per_fuel = [FuelConsumption([fuel]).get_total_co2_emissions(CLS) for fuel in fuels]
    by_hand = per_fuel[0] + per_fuel[1] + per_fuel[2]
    assert np.allclose(
        by_hand.well_to_wake_kg_or_gco2eq_per_gfuel, whole.well_to_wake_kg_or_gco2eq_per_gfuel
    )
    try:
        total = sum(per_fuel)
    except Exception as e:
        print(f"[{label}] sum() over the emissions of the fuels is REFUSED: {type(e).__name__}: {e}")
        violated = True
    else:
        ok = np.allclose(
            total.well_to_wake_kg_or_gco2eq_per_gfuel, whole.well_to_wake_kg_or_gco2eq_per_gfuel
        )
        print(f"[{label}] sum() agrees with the record: {ok}")
        violated |= not ok

# the reflected operators
e = FuelConsumption(
    [Fuel(TypeFuel.DIESEL, FuelOrigin.FOSSIL, EU, mass_or_mass_fraction=1000.0)]
).get_total_co2_emissions(Cls.ICE)  # 3260.89 kg tank to wake
reflected = 1000.0 / e  # kg of fuel per kg CO2eq would be 0.3067; e / 1000 is 3.26089
print(
    "1000.0 / emissions -> tank to wake",
    reflected.tank_to_wake_kg_or_gco2eq_per_gfuel,
    "; 1000.0 / 3260.89 =",
    1000.0 / e.tank_to_wake_kg_or_gco2eq_per_gfuel,
    "; 3260.89 / 1000.0 =",
    e.tank_to_wake_kg_or_gco2eq_per_gfuel / 1000.0,
)
if not np.isclose(
    reflected.tank_to_wake_kg_or_gco2eq_per_gfuel, 1000.0 / e.tank_to_wake_kg_or_gco2eq_per_gfuel
):
    print("x / emissions returns emissions / x")
    violated = True


if violated:
    print("PROPERTY VIOLATED")
    sys.exit(1)
print("property holds")
sys.exit(0)
