"""C08 finding 4: where the masses of a record add up to exactly zero, the reported emissions are zero
although the sum over the fuels of mass x pathway factor is not.

FuelConsumption.fuel_by_mass_fraction treats "total mass == 0" as "nothing was burnt": the scalar
branch returns an empty mix, the series branch sets all mass fractions of such a sample to 0
(fuel.py, fuel_by_mass_fraction), and get_total_co2_emissions multiplies the factor per kg of mix by
the total mass.  With signed masses the total can be zero while the fuels are not: the difference of
two records (FuelConsumption supports "+" and "* -1"), e.g. "what changes when 100 kg of MGO are
replaced by 100 kg of LNG in this Otto engine".  The same formula with 99.99 kg gives the right
difference; the mass-neutral swap gives 0.  GHGEmissions itself supports signed values (it defines
__sub__ and __neg__), and the two ways of forming the difference disagree.

Exit status 1 = property violated (current code), 0 = holds.
"""

import sys

import numpy as np

from feems.fuel import (
    Fuel,
    FuelConsumption,
    FuelConsumerClassFuelEUMaritime as Cls,
    FuelOrigin,
    FuelSpecifiedBy,
    TypeFuel,
)

EU = FuelSpecifiedBy.FUEL_EU_MARITIME
CLS = Cls.LNG_OTTO_MEDIUM_SPEED
# FuelEU Maritime factors per g of fuel
TTW_LNG = (1 - 0.031) * (2.75 + 298 * 0.00011) + 25 * 0.031  # slip of the engine class
TTW_MGO = 3.206 + 25 * 0.00005 + 298 * 0.00018  # generic engine factors, no slip
WTT_LNG = 18.5 * 0.0491
WTT_MGO = 14.4 * 0.0427


def record(mass_lng, mass_mgo):
    return FuelConsumption(
        [
            Fuel(TypeFuel.NATURAL_GAS, FuelOrigin.FOSSIL, EU, mass_or_mass_fraction=mass_lng),
            Fuel(TypeFuel.DIESEL, FuelOrigin.FOSSIL, EU, mass_or_mass_fraction=mass_mgo),
        ]
    )


violated = False
for label, lng_after, mgo_after, lng_before, mgo_before in [
    ("scalar", 600.0, 20.0, 500.0, 120.0),
    (
        "series",
        np.array([600.0, 300.0, 0.0]),
        np.array([20.0, 10.0, 0.0]),
        np.array([500.0, 300.01, 0.0]),
        np.array([120.0, 10.0, 0.0]),
    ),
]:
    after = record(lng_after, mgo_after)
    before = record(lng_before, mgo_before)
    difference = after + before * -1.0  # masses: LNG +100, MGO -100 (first sample of the series)
    print(f"[{label}] masses of the difference record:", difference.asdict)
    reported = difference.get_total_co2_emissions(CLS)
    # sum over the fuels of mass x factor
    d_lng = np.asarray(lng_after) - np.asarray(lng_before)
    d_mgo = np.asarray(mgo_after) - np.asarray(mgo_before)
    ttw = d_lng * TTW_LNG + d_mgo * TTW_MGO
    wtt = d_lng * WTT_LNG + d_mgo * WTT_MGO
    # the other public way to the same number
    other_way = after.get_total_co2_emissions(CLS) - before.get_total_co2_emissions(CLS)
    print(f"[{label}] demanded  well-to-wake:", ttw + wtt)
    print(f"[{label}] E(after) - E(before)  :", other_way.well_to_wake_kg_or_gco2eq_per_gfuel)
    print(f"[{label}] reported for the record:", reported.well_to_wake_kg_or_gco2eq_per_gfuel)
    assert np.allclose(other_way.well_to_wake_kg_or_gco2eq_per_gfuel, ttw + wtt)
    if not np.allclose(
        reported.well_to_wake_kg_or_gco2eq_per_gfuel, ttw + wtt, rtol=1e-9, atol=1e-9
    ) or not np.allclose(reported.tank_to_wake_kg_or_gco2eq_per_gfuel, ttw, rtol=1e-9, atol=1e-9):
        print(f"[{label}] VIOLATION")
        violated = True

if violated:
    print("PROPERTY VIOLATED")
    sys.exit(1)
print("property holds")
sys.exit(0)
