"""C08 finding 4 (outside fuel.py, in feems/simulation_interface.py): after
EnergySource.set_remaining_capacity_from_feems_result the FEEMSResult no longer satisfies
"reported GHG = sum over fuels of mass x factor":
 (a) HYDROGEN source: the hydrogen mass is cut to what the tank holds, the GHG figure is not
     (FuelEU: fossil hydrogen has a well-to-tank factor of 132 g/MJ x 0.12 MJ/g = 15.84 kg/kg);
 (b) LNG_DIESEL source with a dual-fuel record (gas + pilot diesel): the diesel entry is overwritten
     with the TOTAL fuel mass although the tank is large enough and nothing has to be cut.

Run: PYTHONPATH=<wt>/feems:<wt>/machinery-system-structure:<wt>/RunFEEMSSim /venv/bin/python finding_4.py
Exit status 1 = property violated, 0 = property holds.
"""
import sys
import numpy as np
from feems.fuel import (
    Fuel,
    FuelConsumerClassFuelEUMaritime as Cls,
    FuelConsumption,
    FuelOrigin,
    FuelSpecifiedBy,
    TypeFuel,
)
from feems.simulation_interface import EnergySource, EnergySourceType
from feems.types_for_feems import FEEMSResult

EU = FuelSpecifiedBy.FUEL_EU_MARITIME


def result_for(fuels, cls):
    consumption = FuelConsumption(fuels=fuels)
    return FEEMSResult(
        duration_s=3600,
        multi_fuel_consumption_total_kg=consumption,
        co2_emission_total_kg=consumption.get_total_co2_emissions(fuel_consumer_class=cls),
    )


def consistent(label, res, cls) -> bool:
    reported = res.co2_emission_total_kg.well_to_wake_kg_or_gco2eq_per_gfuel
    recomputed = res.multi_fuel_consumption_total_kg.get_total_co2_emissions(
        fuel_consumer_class=cls
    ).well_to_wake_kg_or_gco2eq_per_gfuel
    masses = {str(f): float(f.mass_or_mass_fraction) for f in res.multi_fuel_consumption_total_kg.fuels}
    ok = bool(np.isclose(reported, recomputed, rtol=1e-9))
    print(f"{label}: fuels {masses}; reported WtW {reported:.3f} kg, "
          f"sum(mass x factor) {recomputed:.3f} kg -> {'ok' if ok else 'MISMATCH'}")
    return ok


all_ok = True
# (a) 100 kg of fossil hydrogen asked for in a fuel cell, 60 kg in the tank
res = result_for([Fuel(TypeFuel.HYDROGEN, FuelOrigin.FOSSIL, EU, mass_or_mass_fraction=100.0)], Cls.FUEL_CELL)
all_ok &= consistent("(a) before", res, Cls.FUEL_CELL)
tank = EnergySource(EnergySourceType.HYDROGEN, rated_capacity=60.0, unit="kg", remaining_capacity=60.0)
_, res = tank.set_remaining_capacity_from_feems_result(res)
all_ok &= consistent("(a) after the 60 kg hydrogen tank", res, Cls.FUEL_CELL)

# (b) dual-fuel record: 100 kg LNG + 2 kg pilot diesel, 1000 kg in the tank (nothing to cut)
res = result_for(
    [
        Fuel(TypeFuel.NATURAL_GAS, FuelOrigin.FOSSIL, EU, mass_or_mass_fraction=100.0),
        Fuel(TypeFuel.DIESEL, FuelOrigin.FOSSIL, EU, mass_or_mass_fraction=2.0),
    ],
    Cls.LNG_OTTO_MEDIUM_SPEED,
)
all_ok &= consistent("(b) before", res, Cls.LNG_OTTO_MEDIUM_SPEED)
tank = EnergySource(EnergySourceType.LNG_DIESEL, rated_capacity=1000.0, unit="kg", remaining_capacity=1000.0)
_, res = tank.set_remaining_capacity_from_feems_result(res)
all_ok &= consistent("(b) after the 1000 kg LNG/diesel tank", res, Cls.LNG_OTTO_MEDIUM_SPEED)

if all_ok:
    print("property holds")
    sys.exit(0)
print("property VIOLATED: the reported GHG is no longer mass x factor of the fuels in the same result")
sys.exit(1)
