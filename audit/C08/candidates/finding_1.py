"""C08 finding 1: under IMO a natural-gas engine whose engine cycle type is not specified
(EngineCycleType.NONE, the protobuf default) gets no GHG figure at all - the calculation is refused
with "Invalid engine cycle type", although under IMO only the tabulated CO2 factor applies and no
engine class is needed.

Run: PYTHONPATH=<wt>/feems:<wt>/machinery-system-structure:<wt>/RunFEEMSSim /venv/bin/python finding_1.py
Exit status 1 = property violated, 0 = property holds.
"""
import sys
import numpy as np
from feems.fuel import FuelOrigin, FuelSpecifiedBy, TypeFuel
from feems.types_for_feems import EngineCycleType, TypeComponent, TypePower
from feems.components_model.component_mechanical import Engine
from feems.components_model.component_electric import ElectricComponent, ElectricMachine, Genset
from feems.components_model.utility import IntegrationMethod
from feems.system_model import ElectricPowerSystem

CF_CO2_LNG_IMO = 2.75  # fuel_imo_table.csv, Fossil / LNG
BSFC = np.array([[0.25, 220.0], [0.5, 200.0], [0.75, 190.0], [1.0, 195.0]])
EFF = np.array([[0.25, 0.9], [1.0, 0.96]])
N = 4


def build_system(cycle: EngineCycleType) -> ElectricPowerSystem:
    engine = Engine(
        type_=TypeComponent.AUXILIARY_ENGINE,
        name="gas engine",
        rated_power=1000,
        rated_speed=750,
        bsfc_curve=BSFC,
        fuel_type=TypeFuel.NATURAL_GAS,
        fuel_origin=FuelOrigin.FOSSIL,
        engine_cycle_type=cycle,
    )
    generator = ElectricMachine(
        type_=TypeComponent.GENERATOR,
        name="generator",
        rated_power=950,
        rated_speed=750,
        power_type=TypePower.POWER_SOURCE,
        switchboard_id=1,
        eff_curve=EFF,
    )
    genset = Genset("genset", engine, generator)
    load = ElectricComponent(
        type_=TypeComponent.OTHER_LOAD,
        name="hotel load",
        rated_power=900,
        eff_curve=np.array([[1.0, 1.0]]),
        power_type=TypePower.POWER_CONSUMER,
        switchboard_id=1,
    )
    system = ElectricPowerSystem("one switchboard", [genset, load], [])
    load.power_input = np.array([300.0, 450.0, 600.0, 800.0])
    genset.status = np.ones(N, dtype=bool)
    genset.load_sharing_mode = np.zeros(N)
    system.set_time_interval(np.full(N, 60.0), IntegrationMethod.sum_with_time)
    system.do_power_balance_calculation()
    return system


def check(cycle: EngineCycleType) -> bool:
    system = build_system(cycle)
    try:
        res = system.get_fuel_energy_consumption_running_time(fuel_specified_by=FuelSpecifiedBy.IMO)
    except Exception as exc:  # noqa: BLE001
        print(f"  cycle={cycle.name}: REFUSED with {type(exc).__name__}: {exc}")
        return False
    mass = sum(f.mass_or_mass_fraction for f in res.multi_fuel_consumption_total_kg.fuels)
    ghg = res.co2_emission_total_kg
    expected = mass * CF_CO2_LNG_IMO
    ok = (
        np.isclose(ghg.tank_to_wake_kg_or_gco2eq_per_gfuel, expected, rtol=1e-9)
        and np.isclose(ghg.well_to_tank_kg_or_gco2eq_per_gfuel, 0.0)
        and np.isclose(ghg.well_to_wake_kg_or_gco2eq_per_gfuel, expected, rtol=1e-9)
    )
    print(
        f"  cycle={cycle.name}: LNG {mass:.6f} kg, reported TtW "
        f"{ghg.tank_to_wake_kg_or_gco2eq_per_gfuel:.6f} kg, expected {expected:.6f} kg -> "
        f"{'ok' if ok else 'MISMATCH'}"
    )
    return bool(ok)


print("IMO specification, natural-gas genset, every member of EngineCycleType:")
results = {cycle: check(cycle) for cycle in EngineCycleType}
if all(results.values()):
    print("property holds")
    sys.exit(0)
print(
    "property VIOLATED for engine cycle types: "
    + ", ".join(c.name for c, ok in results.items() if not ok)
    + " (IMO needs no engine class; the expected figure is mass x 2.75)"
)
sys.exit(1)
