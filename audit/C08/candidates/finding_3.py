"""C08 finding 3: the GHG intensity per unit of fuel energy (FuelByMassFraction.get_kg_co2_per_kwh_fuel
and get_kg_co2_per_mj_fuel) is right for scalar masses but for a time series it does not return a
GHGEmissions record: it returns a numpy object array of N GHGEmissions records, each holding an
N-element series, of which only the "diagonal" (record i, element i) is the intended number. So the
figure computed from a series disagrees with the figure computed from the scalars of the same step.

Run: PYTHONPATH=<wt>/feems:<wt>/machinery-system-structure:<wt>/RunFEEMSSim /venv/bin/python finding_3.py
Exit status 1 = property violated, 0 = property holds.
"""
import sys
import numpy as np
from feems.fuel import (
    Fuel,
    FuelConsumerClassFuelEUMaritime,
    FuelConsumption,
    FuelOrigin,
    FuelSpecifiedBy,
    GHGEmissions,
    TypeFuel,
)

CLS = FuelConsumerClassFuelEUMaritime.LNG_OTTO_MEDIUM_SPEED
EU = FuelSpecifiedBy.FUEL_EU_MARITIME
lng = np.array([1.0, 2.0, 3.0])
mdo = np.array([0.5, 0.2, 0.03])


def mix(m_lng, m_mdo):
    return FuelConsumption(
        fuels=[
            Fuel(TypeFuel.NATURAL_GAS, FuelOrigin.FOSSIL, EU, mass_or_mass_fraction=m_lng),
            Fuel(TypeFuel.DIESEL, FuelOrigin.FOSSIL, EU, mass_or_mass_fraction=m_mdo),
        ]
    )


# Step by step from scalars (this branch is right: it equals sum(mass x factor) / sum(mass x LHV))
per_step = [
    mix(float(a), float(b)).fuel_by_mass_fraction.get_kg_co2_per_kwh_fuel(fuel_consumer_class=CLS)
    for a, b in zip(lng, mdo)
]
TTW_LNG = (1 - 0.031) * (2.75 + 298 * 0.00011) + 25 * 0.031
TTW_MDO = 3.206 + 25 * 0.00005 + 298 * 0.00018
WTW = (TTW_LNG + 18.5 * 0.0491) * lng + (TTW_MDO + 14.4 * 0.0427) * mdo
ENERGY_KWH = (0.0491 * lng + 0.0427 * mdo) * 1000 / 3.6
expected = WTW / ENERGY_KWH
scalar_values = np.array([r.well_to_wake_kg_or_gco2eq_per_gfuel for r in per_step])
print("expected WtW intensity [kg CO2eq/kWh fuel]:", expected)
print("from scalars, step by step:               ", scalar_values)
assert np.allclose(scalar_values, expected, rtol=1e-9)

# The same from the series
series = mix(lng.copy(), mdo.copy()).fuel_by_mass_fraction.get_kg_co2_per_kwh_fuel(
    fuel_consumer_class=CLS
)
print("from the series: type", type(series).__name__, end="")
violated = False
if not isinstance(series, GHGEmissions):
    print(f", dtype {series.dtype}, shape {series.shape}; element 0 is {type(series[0]).__name__} with "
          f"WtW = {series[0].well_to_wake_kg_or_gco2eq_per_gfuel}")
    violated = True
else:
    values = np.asarray(series.well_to_wake_kg_or_gco2eq_per_gfuel)
    print(", WtW =", values)
    violated = values.shape != expected.shape or not np.allclose(values, expected, rtol=1e-9)

if violated:
    print("property VIOLATED: the intensity from a time series is not the GHGEmissions record "
          "that the scalars give (a 1-D series of", len(lng), "values was expected)")
    sys.exit(1)
print("property holds")
sys.exit(0)
