"""C08 finding 2: a fuel mix in which one fuel has a scalar mass and another a time series
(e.g. the main fuel as a series next to a pilot fuel that is a constant, or the Fuel default 0.0)
is refused by FuelConsumption.get_total_co2_emissions (ValueError from numpy: inhomogeneous shape),
for every specification. The same masses written all-scalar or all-series are accepted, and
FuelConsumption.__add__ / __mul__ broadcast a scalar against a series without complaint.

Run: PYTHONPATH=<wt>/feems:<wt>/machinery-system-structure:<wt>/RunFEEMSSim /venv/bin/python finding_2.py
Exit status 1 = property violated, 0 = property holds.
"""
import sys
import numpy as np
from feems.fuel import (
    Fuel,
    FuelConsumerClassFuelEUMaritime,
    FuelConsumption,
    FuelOrigin,
    FuelSpecifiedBy,
    TypeFuel,
)

CLS = FuelConsumerClassFuelEUMaritime.LNG_OTTO_MEDIUM_SPEED
# FuelEU table, fossil LNG in a medium-speed Otto engine and fossil diesel in "ALL ICEs"
TTW_LNG = (1 - 0.031) * (2.75 + 25 * 0.0 + 298 * 0.00011) + 25 * 0.031
WTT_LNG = 18.5 * 0.0491
TTW_MDO = 3.206 + 25 * 0.00005 + 298 * 0.00018
WTT_MDO = 14.4 * 0.0427
FACTORS = {
    FuelSpecifiedBy.FUEL_EU_MARITIME: ((TTW_LNG, WTT_LNG), (TTW_MDO, WTT_MDO)),
    FuelSpecifiedBy.IMO: ((2.75, 0.0), (3.206, 0.0)),
}

lng_series = np.array([1.0, 2.0, 0.0, 3.0])
violated = False
for spec, ((ttw_lng, wtt_lng), (ttw_mdo, wtt_mdo)) in FACTORS.items():
    for pilot in (0.05, 0.0):  # a constant pilot flow; the default mass of Fuel()
        exp_ttw = ttw_lng * lng_series + ttw_mdo * pilot
        exp_wtt = wtt_lng * lng_series + wtt_mdo * pilot
        for label, pilot_mass in (
            ("pilot as scalar", pilot),
            ("pilot as series", np.full(lng_series.shape, pilot)),
        ):
            mix = FuelConsumption(
                fuels=[
                    Fuel(TypeFuel.NATURAL_GAS, FuelOrigin.FOSSIL, spec, mass_or_mass_fraction=lng_series.copy()),
                    Fuel(TypeFuel.DIESEL, FuelOrigin.FOSSIL, spec, mass_or_mass_fraction=pilot_mass),
                ]
            )
            try:
                ghg = mix.get_total_co2_emissions(fuel_consumer_class=CLS)
            except Exception as exc:  # noqa: BLE001
                print(f"{spec.name}, pilot {pilot}, {label}: REFUSED {type(exc).__name__}: {exc}")
                violated = True
                continue
            ok = (
                np.allclose(ghg.tank_to_wake_kg_or_gco2eq_per_gfuel, exp_ttw, rtol=1e-9)
                and np.allclose(ghg.well_to_tank_kg_or_gco2eq_per_gfuel, exp_wtt, rtol=1e-9)
                and np.allclose(ghg.well_to_wake_kg_or_gco2eq_per_gfuel, exp_ttw + exp_wtt, rtol=1e-9)
            )
            print(f"{spec.name}, pilot {pilot}, {label}: WtW {ghg.well_to_wake_kg_or_gco2eq_per_gfuel} "
                  f"expected {exp_ttw + exp_wtt} -> {'ok' if ok else 'MISMATCH'}")
            violated |= not ok

if violated:
    print("property VIOLATED: a legal mix (series + scalar masses) gets no GHG figure")
    sys.exit(1)
print("property holds")
sys.exit(0)
