"""C08 finding 3: all Fuel objects of one tabulated pathway share ONE list of mutable factor records,
kept in a process-wide cache, so adjusting the factors of one fuel object changes the factor of every
other fuel of that pathway - those that exist already, those created later, the run points of the
engines, and the copies FuelConsumption makes internally.

get_prescribed_factors() is wrapped in functools.cache and returns a PrescribedFactors object whose
list of GhgEmissionFactorTankToWake dataclass instances is assigned to
Fuel.ghg_emission_factor_tank_to_wake as it is (fuel.py, Fuel._get_prescribed_factors); Fuel.copy
looks the same cache entry up again.  GhgEmissionFactorTankToWake is an ordinary (unfrozen) public
dataclass and ghg_emission_factor_tank_to_wake a documented public attribute of Fuel.

Scenario: the operator has a measured methane slip for ONE engine and sets it on the fuel record of
that engine.  Afterwards an unrelated, freshly built FuelEU record of fossil LNG in another
medium-speed Otto engine no longer reports mass x tabulated factor.

Exit status 1 = property violated (current code), 0 = holds.
"""

import sys

import numpy as np

from feems.fuel import (
    Fuel,
    FuelConsumption,
    FuelConsumerClassFuelEUMaritime as Cls,
    FuelOrigin,
    FuelSpecifiedBy,
    TypeFuel,
)

CLS = Cls.LNG_OTTO_MEDIUM_SPEED
# FuelEU Maritime, fossil LNG, LNG Otto (medium speed): CO2 2.75, CH4 0, N2O 0.00011, slip 3.1 %
TABULATED_TTW = (1 - 0.031) * (2.75 + 25 * 0 + 298 * 0.00011) + 25 * 0.031


def new_record(mass):
    return FuelConsumption(
        [
            Fuel(
                TypeFuel.NATURAL_GAS,
                FuelOrigin.FOSSIL,
                FuelSpecifiedBy.FUEL_EU_MARITIME,
                mass_or_mass_fraction=mass,
            )
        ]
    )


mass = np.array([100.0, 250.0])
before = new_record(mass).get_total_co2_emissions(CLS).tank_to_wake_kg_or_gco2eq_per_gfuel
print("before, unrelated record:", before, " demanded:", mass * TABULATED_TTW)
assert np.allclose(before, mass * TABULATED_TTW)

# the fuel record of the one engine with a measured slip of 1.2 %
fuel_of_engine_a = Fuel(
    TypeFuel.NATURAL_GAS, FuelOrigin.FOSSIL, FuelSpecifiedBy.FUEL_EU_MARITIME, mass_or_mass_fraction=50.0
)
own_copy = fuel_of_engine_a.copy  # "Returns a copy of this object"
for factor in own_copy.ghg_emission_factor_tank_to_wake:
    if factor.fuel_consumer_class == CLS:
        factor.c_slip_percent = 1.2

after = new_record(mass).get_total_co2_emissions(CLS).tank_to_wake_kg_or_gco2eq_per_gfuel
print("after,  unrelated record:", after, " demanded:", mass * TABULATED_TTW)
print(
    "the original of the copy that was changed now has slip",
    [f.c_slip_percent for f in fuel_of_engine_a.ghg_emission_factor_tank_to_wake if f.fuel_consumer_class == CLS],
)

if not np.allclose(after, mass * TABULATED_TTW, rtol=1e-9):
    print(
        "PROPERTY VIOLATED: a new FuelEU record of fossil LNG no longer reports mass x tabulated "
        "pathway factor after the factors of a COPY of another fuel object were adjusted"
    )
    sys.exit(1)
print("property holds")
sys.exit(0)
