"""C08 finding 3: EnergySource(HYDROGEN).set_remaining_capacity_from_feems_result cuts the
hydrogen mass of a result to what the tank still holds (or to the share left over by an earlier
source) but leaves the greenhouse-gas emissions at the value of the uncut mass. Under FuelEU
Maritime hydrogen has a well-to-tank factor (RFNBO 3.6, fossil 132 gCO2eq/MJ x 0.12 MJ/g), so the
returned record reports GHG != sum(mass x factor). (The LNG_DIESEL branch of the same method
does rescale the emissions.)

Run: PYTHONPATH=<worktree>/feems /venv/bin/python finding_3.py   (exit 1 = property violated)
"""
import sys
import logging
import numpy as np

logging.disable(logging.WARNING)
from feems.components_model import ElectricComponent
from feems.components_model.component_electric import FuelCell, FuelCellSystem
from feems.components_model.utility import IntegrationMethod
from feems.fuel import FuelOrigin, FuelSpecifiedBy, TypeFuel
from feems.simulation_interface import EnergySource, EnergySourceType
from feems.system_model import ElectricPowerSystem
from feems.types_for_feems import TypeComponent, TypePower

WTT_KG_PER_KG = {  # FuelEU table: CO2_WtT [g/MJ] x LCV [MJ/g]; tank-to-wake is 0 for hydrogen
    FuelOrigin.RENEWABLE_NON_BIO: 3.6 * 0.12,
    FuelOrigin.FOSSIL: 132.0 * 0.12,
}


def plant_result(origin):
    fuel_cell = FuelCellSystem(
        name="fuel cell system",
        fuel_cell_module=FuelCell(
            name="fuel cell",
            rated_power=600,
            eff_curve=np.array([0.5]),
            fuel_type=TypeFuel.HYDROGEN,
            fuel_origin=origin,
        ),
        converter=ElectricComponent(
            type_=TypeComponent.POWER_CONVERTER,
            name="converter",
            rated_power=1200,
            eff_curve=np.array([0.98]),
            switchboard_id=1,
        ),
        switchboard_id=1,
        number_modules=2,
    )
    load = ElectricComponent(
        type_=TypeComponent.OTHER_LOAD,
        name="load",
        power_type=TypePower.POWER_CONSUMER,
        rated_power=1200,
        eff_curve=np.array([1.0]),
        switchboard_id=1,
    )
    plant = ElectricPowerSystem(
        name="plant", power_plant_components=[fuel_cell, load], bus_tie_connections=[]
    )
    load.set_power_input_from_output(np.array([1000.0, 600.0, 300.0]))
    fuel_cell.status = np.ones(3, dtype=bool)
    fuel_cell.load_sharing_mode = np.zeros(3)
    plant.set_bus_tie_status_all(np.array([]))
    plant.set_time_interval(
        time_interval_s=np.array([3600.0, 3600.0, 7200.0]),
        integration_method=IntegrationMethod.sum_with_time,
    )
    plant.do_power_balance_calculation()
    return plant.get_fuel_energy_consumption_running_time(
        fuel_specified_by=FuelSpecifiedBy.FUEL_EU_MARITIME
    )


def check(tag, result, origin):
    mass = float(result.multi_fuel_consumption_total_kg.hydrogen)
    expected_wtt = mass * WTT_KG_PER_KG[origin]
    ghg = result.co2_emission_total_kg
    print(
        f"  {tag}: hydrogen {mass:.3f} kg, reported WtT "
        f"{float(ghg.well_to_tank_kg_or_gco2eq_per_gfuel):.3f} TtW "
        f"{float(ghg.tank_to_wake_kg_or_gco2eq_per_gfuel):.3f} WtW "
        f"{float(ghg.well_to_wake_kg_or_gco2eq_per_gfuel):.3f} kg; mass x factor {expected_wtt:.3f} kg"
    )
    return (
        np.isclose(ghg.well_to_tank_kg_or_gco2eq_per_gfuel, expected_wtt, rtol=1e-9)
        and np.isclose(ghg.tank_to_wake_kg_or_gco2eq_per_gfuel, 0.0, atol=1e-12)
        and np.isclose(ghg.well_to_wake_kg_or_gco2eq_per_gfuel, expected_wtt, rtol=1e-9)
    )


violated = False
for origin in [FuelOrigin.RENEWABLE_NON_BIO, FuelOrigin.FOSSIL]:
    print(f"hydrogen of origin {origin.name}, FuelEU Maritime")
    result = plant_result(origin)
    needed = float(result.multi_fuel_consumption_total_kg.hydrogen)
    if not check("plant result          ", result, origin):
        print("  the plant result itself violates the property")
        violated = True
    # (a) the tank holds 60 % of what the profile needs
    tank = EnergySource(
        source_type=EnergySourceType.HYDROGEN,
        rated_capacity=0.6 * needed,
        unit="kg",
        remaining_capacity=0.6 * needed,
    )
    ratio, after = tank.set_remaining_capacity_from_feems_result(result)
    print(f"  tank of {0.6 * needed:.3f} kg -> share covered {ratio:.3f}")
    if not check("after the small tank  ", after, origin):
        print("  reported GHG != mass x factor")
        violated = True
    # (b) a large tank that comes second, after another source covered 70 % of the demand
    result = plant_result(origin)
    tank = EnergySource(
        source_type=EnergySourceType.HYDROGEN,
        rated_capacity=1.0e6,
        unit="kg",
        remaining_capacity=1.0e6,
    )
    ratio, after = tank.set_remaining_capacity_from_feems_result(
        result, ratio_energy_used_in_previous_source=0.7
    )
    print(f"  second source after 70 % were covered -> share covered so far {ratio:.3f}")
    if not check("after the second tank ", after, origin):
        print("  reported GHG != mass x factor")
        violated = True

if violated:
    print("PROPERTY VIOLATED")
    sys.exit(1)
print("property holds")
sys.exit(0)
