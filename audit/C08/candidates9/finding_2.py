"""C08 finding 2: after EnergySource(LNG_DIESEL).set_remaining_capacity_from_feems_result the
result of a plant that burns TWO fuels (a dual-fuel generating set: gas + pilot diesel) reports
greenhouse-gas emissions that are no longer sum(mass x factor) over the fuels of the record:
the whole mass (gas + pilot) is written into the diesel entry while the gas entry keeps its
mass, so the record holds about twice the fuel burned and the GHG figure belongs to half of it.
This happens although the tank is far larger than the consumption (nothing should change).

Run: PYTHONPATH=<worktree>/feems /venv/bin/python finding_2.py   (exit 1 = property violated)
"""
import sys
import logging
import numpy as np

logging.disable(logging.WARNING)
from feems.components_model import ElectricMachine, Genset, ElectricComponent
from feems.components_model.component_mechanical import EngineDualFuel
from feems.components_model.utility import IntegrationMethod
from feems.fuel import FuelOrigin, FuelSpecifiedBy, TypeFuel
from feems.simulation_interface import EnergySource, EnergySourceType
from feems.system_model import ElectricPowerSystem
from feems.types_for_feems import EngineCycleType, TypeComponent, TypePower

bsfc = np.array([[1.0, 0.75, 0.5, 0.25, 0.1], [160.0, 158.0, 165.0, 185.0, 230.0]]).T
bspfc = np.array([[1.0, 0.75, 0.5, 0.25, 0.1], [2.0, 2.5, 3.5, 6.0, 12.0]]).T
engine = EngineDualFuel(
    type_=TypeComponent.AUXILIARY_ENGINE,
    name="dual fuel engine",
    rated_power=2100,
    rated_speed=720,
    bsfc_curve=bsfc,
    fuel_type=TypeFuel.NATURAL_GAS,
    fuel_origin=FuelOrigin.FOSSIL,
    bspfc_curve=bspfc,
    pilot_fuel_type=TypeFuel.DIESEL,
    pilot_fuel_origin=FuelOrigin.FOSSIL,
    engine_cycle_type=EngineCycleType.OTTO,
)
generator = ElectricMachine(
    type_=TypeComponent.GENERATOR,
    name="generator",
    rated_power=2000,
    rated_speed=720,
    power_type=TypePower.POWER_SOURCE,
    switchboard_id=1,
    eff_curve=np.array([0.96]),
)
genset = Genset(name="genset", aux_engine=engine, generator=generator)
load = ElectricComponent(
    type_=TypeComponent.OTHER_LOAD,
    name="hotel load",
    power_type=TypePower.POWER_CONSUMER,
    rated_power=2000,
    eff_curve=np.array([1.0]),
    switchboard_id=1,
)
plant = ElectricPowerSystem(
    name="plant", power_plant_components=[genset, load], bus_tie_connections=[]
)
power = np.array([1500.0, 1000.0, 400.0])
load.set_power_input_from_output(power)
genset.status = np.ones(3, dtype=bool)
genset.load_sharing_mode = np.zeros(3)
plant.set_bus_tie_status_all(np.array([]))
plant.set_time_interval(
    time_interval_s=np.array([3600.0, 7200.0, 1800.0]),
    integration_method=IntegrationMethod.sum_with_time,
)
plant.do_power_balance_calculation()

# factors typed in from the two tables
FACTORS = {
    FuelSpecifiedBy.IMO: {
        TypeFuel.NATURAL_GAS: (2.75, 0.0),
        TypeFuel.DIESEL: (3.206, 0.0),
    },
    FuelSpecifiedBy.FUEL_EU_MARITIME: {
        # Otto medium speed: slip 3.1 %
        TypeFuel.NATURAL_GAS: (
            (1 - 0.031) * (2.75 + 298 * 0.00011) + 25 * 0.031,
            18.5 * 0.0491,
        ),
        TypeFuel.DIESEL: (3.206 + 25 * 0.00005 + 298 * 0.00018, 14.4 * 0.0427),
    },
}


def sum_mass_times_factor(result, spec):
    ttw = sum(
        f.mass_or_mass_fraction * FACTORS[spec][f.fuel_type][0]
        for f in result.multi_fuel_consumption_total_kg.fuels
    )
    wtt = sum(
        f.mass_or_mass_fraction * FACTORS[spec][f.fuel_type][1]
        for f in result.multi_fuel_consumption_total_kg.fuels
    )
    return float(ttw), float(wtt)


def show(tag, result, spec):
    ttw, wtt = sum_mass_times_factor(result, spec)
    ghg = result.co2_emission_total_kg
    masses = {
        f.fuel_type.name: round(float(f.mass_or_mass_fraction), 3)
        for f in result.multi_fuel_consumption_total_kg.fuels
    }
    print(f"  {tag}: fuels {masses} total {float(result.fuel_consumption_total_kg):.3f} kg")
    print(
        f"  {tag}: reported TtW {float(ghg.tank_to_wake_kg_or_gco2eq_per_gfuel):.3f} "
        f"WtT {float(ghg.well_to_tank_kg_or_gco2eq_per_gfuel):.3f}   "
        f"sum(mass x factor) TtW {ttw:.3f} WtT {wtt:.3f}"
    )
    return np.isclose(ghg.tank_to_wake_kg_or_gco2eq_per_gfuel, ttw, rtol=1e-9) and np.isclose(
        ghg.well_to_tank_kg_or_gco2eq_per_gfuel, wtt, rtol=1e-9, atol=1e-12
    )


violated = False
for spec in [FuelSpecifiedBy.IMO, FuelSpecifiedBy.FUEL_EU_MARITIME]:
    print(spec.name)
    result = plant.get_fuel_energy_consumption_running_time(fuel_specified_by=spec)
    burned = float(result.fuel_consumption_total_kg)
    ok_before = show("plant result      ", result, spec)
    tank = EnergySource(
        source_type=EnergySourceType.LNG_DIESEL,
        rated_capacity=1.0e6,
        unit="kg",
        remaining_capacity=1.0e6,
    )
    ratio, result_after = tank.set_remaining_capacity_from_feems_result(result)
    ok_after = show("after energy source", result_after, spec)
    print(
        f"  share of the demand covered by the tank: {ratio}, taken from the tank "
        f"{tank.consumption:.3f} kg, fuel burned {burned:.3f} kg"
    )
    if not ok_before:
        print("  the plant result itself violates the property")
        violated = True
    if not ok_after:
        print("  after the energy source: reported GHG != sum over fuels of mass x factor")
        violated = True
    if not np.isclose(float(result_after.fuel_consumption_total_kg), burned, rtol=1e-9):
        print("  after the energy source: the record holds another fuel mass than was burned")
        violated = True

if violated:
    print("PROPERTY VIOLATED")
    sys.exit(1)
print("property holds")
sys.exit(0)
