"""C08 finding 1: the greenhouse-gas intensity per unit of fuel energy
(FuelByMassFraction.get_kg_co2_per_kwh_fuel / get_kg_co2_per_mj_fuel) computed from a mass
SERIES does not agree with the one computed sample by sample from scalars: the series call
returns an object ndarray of n GHGEmissions records, each holding n-element arrays (the cross
product emission[j] / lhv[i]) instead of one record with the n intensities.

Run: PYTHONPATH=<worktree>/feems /venv/bin/python finding_1.py   (exit 1 = property violated)
"""
import sys
import numpy as np
from feems.fuel import (
    Fuel,
    FuelConsumption,
    FuelOrigin,
    FuelSpecifiedBy,
    FuelConsumerClassFuelEUMaritime,
    GHGEmissions,
    TypeFuel,
)

EU = FuelSpecifiedBy.FUEL_EU_MARITIME
CLS = FuelConsumerClassFuelEUMaritime.LNG_OTTO_MEDIUM_SPEED
gas = np.array([100.0, 50.0, 10.0])  # kg of LNG burned in three periods
pilot = np.array([2.0, 2.0, 2.0])  # kg of pilot diesel


def record(m_gas, m_pilot):
    return FuelConsumption(
        fuels=[
            Fuel(TypeFuel.NATURAL_GAS, FuelOrigin.FOSSIL, EU, mass_or_mass_fraction=m_gas),
            Fuel(TypeFuel.DIESEL, FuelOrigin.FOSSIL, EU, mass_or_mass_fraction=m_pilot),
        ]
    )


# Independent expectation from the FuelEU table values (g CO2eq / MJ fuel), well to wake
def expected_wtw_per_mj(m_gas, m_pilot):
    ttw_gas = (1 - 0.031) * (2.75 + 25 * 0.0 + 298 * 0.00011) + 25 * 0.031
    ttw_die = 3.206 + 25 * 0.00005 + 298 * 0.00018
    wtt_gas = 18.5 * 0.0491
    wtt_die = 14.4 * 0.0427
    energy_mj_per_kg = (m_gas * 0.0491 + m_pilot * 0.0427) * 1000
    return (m_gas * (ttw_gas + wtt_gas) + m_pilot * (ttw_die + wtt_die)) / energy_mj_per_kg


violated = False
for method in ["get_kg_co2_per_mj_fuel", "get_kg_co2_per_kwh_fuel"]:
    scale = 1.0 if method.endswith("mj_fuel") else 3.6
    # scalars, one period at a time
    from_scalars = []
    for mg, mp in zip(gas, pilot):
        res = getattr(record(float(mg), float(mp)).fuel_by_mass_fraction, method)(
            fuel_consumer_class=CLS
        )
        assert isinstance(res, GHGEmissions)
        from_scalars.append(res.well_to_wake_kg_or_gco2eq_per_gfuel)
    from_scalars = np.array(from_scalars)
    expected = expected_wtw_per_mj(gas, pilot) * scale
    print(f"{method}: from scalars   {from_scalars}")
    print(f"{method}: table by hand  {expected}")
    if not np.allclose(from_scalars, expected, rtol=1e-9):
        print("  scalar values differ from the hand calculation")
        violated = True
    # the same three periods as one series
    res_series = getattr(record(gas, pilot).fuel_by_mass_fraction, method)(fuel_consumer_class=CLS)
    print(f"{method}: from series -> type {type(res_series).__name__}", end="")
    if isinstance(res_series, GHGEmissions):
        from_series = np.asarray(res_series.well_to_wake_kg_or_gco2eq_per_gfuel, dtype=float)
        print(f" values {from_series}")
        if from_series.shape != from_scalars.shape or not np.allclose(
            from_series, from_scalars, rtol=1e-9
        ):
            print("  series and scalar results differ")
            violated = True
    else:
        print(
            f", dtype {getattr(res_series, 'dtype', None)}, shape {np.shape(res_series)}; "
            f"element 0 well-to-wake = {res_series[0].well_to_wake_kg_or_gco2eq_per_gfuel}"
        )
        print(
            "  not a GHGEmissions record: n records of n values each (cross product "
            "emission[j] / lhv[i]); only the diagonal holds the intensities"
        )
        violated = True

if violated:
    print("PROPERTY VIOLATED: GHG per unit of fuel energy from a series != from scalars")
    sys.exit(1)
print("property holds")
sys.exit(0)
