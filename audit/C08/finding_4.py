"""C08 finding 1: a user-specified fuel whose tank-to-wake record names no consumer class
(the default of GhgEmissionFactorTankToWake) has no emissions as soon as an engine class is given.

Property C08: emissions = sum over fuels of mass x pathway factor, for every specification
(IMO, FuelEU, user) and every engine class, for all mixes of 1-4 fuels.

Three inputs, all built through the public API:
 (a) one user-specified fuel, engine class ICE (the class the Engine component itself reports);
 (b) the same through Engine.get_engine_run_point_from_power_out_kw(fuel_specified_by=USER, ...)
     and the engine's own fuel_consumer_type_fuel_eu_maritime;
 (c) a FuelEU gas engine (Otto, medium speed) burning FuelEU natural gas with a user-specified
     pilot fuel (supplier-certified factors): FuelEU fuels REQUIRE the class, the user record has none.

Exit status 1: property violated (refused or wrong number); 0: holds.
"""

import sys
import traceback

import numpy as np

from feems.fuel import (
    Fuel,
    FuelConsumption,
    FuelConsumerClassFuelEUMaritime as C,
    FuelOrigin,
    FuelSpecifiedBy,
    GhgEmissionFactorTankToWake,
    TypeFuel,
)
from feems.components_model.component_mechanical import Engine
from feems.types_for_feems import TypeComponent

GWP_CH4, GWP_N2O = 25, 298

# Supplier-certified figures of a bio-diesel blend (any numbers will do)
LHV = 0.0372  # MJ/g
WTT = -20.0  # gCO2eq/MJ
CO2, CH4, N2O, SLIP = 2.834, 0.00005, 0.00018, 0.0


def user_record():
    # fuel_consumer_class is left at its default (None): the factors do not depend on the consumer
    return GhgEmissionFactorTankToWake(
        co2_factor_gco2_per_gfuel=CO2,
        ch4_factor_gch4_per_gfuel=CH4,
        n2o_factor_gn2o_per_gfuel=N2O,
        c_slip_percent=SLIP,
    )


def user_fuel(mass):
    return Fuel(
        fuel_type=TypeFuel.DIESEL,
        origin=FuelOrigin.BIO,
        fuel_specified_by=FuelSpecifiedBy.USER,
        lhv_mj_per_g=LHV,
        ghg_emission_factor_well_to_tank_gco2eq_per_mj=WTT,
        ghg_emission_factor_tank_to_wake=[user_record()],
        mass_or_mass_fraction=mass,
    )


def ttw_user():
    s = SLIP / 100
    return (1 - s) * (CO2 + GWP_CH4 * CH4 + GWP_N2O * N2O) + GWP_CH4 * s


violations = []


def check(label, record, consumer_class, expected_ttw, expected_wtt):
    try:
        ghg = record.get_total_co2_emissions(fuel_consumer_class=consumer_class)
    except Exception as e:  # noqa
        print(f"[{label}] class={consumer_class}: REFUSED with {type(e).__name__}: {e!r}")
        traceback.print_exc(limit=2)
        print(f"    property demands TtW={expected_ttw}, WtT={expected_wtt}")
        violations.append(label)
        return
    ok = (
        np.allclose(ghg.tank_to_wake_kg_or_gco2eq_per_gfuel, expected_ttw)
        and np.allclose(ghg.well_to_tank_kg_or_gco2eq_per_gfuel, expected_wtt)
        and np.allclose(ghg.well_to_wake_kg_or_gco2eq_per_gfuel, expected_ttw + expected_wtt)
    )
    print(
        f"[{label}] class={consumer_class}: TtW={ghg.tank_to_wake_kg_or_gco2eq_per_gfuel} "
        f"(expected {expected_ttw}), WtT={ghg.well_to_tank_kg_or_gco2eq_per_gfuel} "
        f"(expected {expected_wtt}) -> {'ok' if ok else 'WRONG'}"
    )
    if not ok:
        violations.append(label)


# control: without a class the same record is evaluated (so the input is accepted as such)
mass = 7.0
check("control, no class", FuelConsumption([user_fuel(mass)]), None, mass * ttw_user(), mass * WTT * LHV)

# (a) one user fuel, every engine class that can burn diesel: the generic engine (ICE)
check("a: user fuel, ICE", FuelConsumption([user_fuel(mass)]), C.ICE, mass * ttw_user(), mass * WTT * LHV)
# ... as a series
mass_series = np.array([1.0, 0.0, 2.5])
check(
    "a: user fuel series, ICE",
    FuelConsumption([user_fuel(mass_series)]),
    C.ICE,
    mass_series * ttw_user(),
    mass_series * WTT * LHV,
)

# (b) through the engine component
bsfc = np.array([[1.0, 0.75, 0.5, 0.25, 0.1], [193.66, 188.995, 194.47, 211.4, 250.0]]).T
engine = Engine(
    type_=TypeComponent.MAIN_ENGINE,
    name="main engine",
    rated_power=1000,
    rated_speed=750,
    bsfc_curve=bsfc,
    fuel_type=TypeFuel.DIESEL,
    fuel_origin=FuelOrigin.BIO,
)
run_point = engine.get_engine_run_point_from_power_out_kw(
    power_kw=np.array([500.0, 750.0]),
    fuel_specified_by=FuelSpecifiedBy.USER,
    lhv_mj_per_g=LHV,
    ghg_emission_factor_well_to_tank_gco2eq_per_mj=WTT,
    ghg_emission_factor_tank_to_wake=[user_record()],
)
rate = run_point.fuel_flow_rate_kg_per_s
m = rate.fuels[0].mass_or_mass_fraction
check(
    "b: Engine run point (USER), engine's own class",
    rate,
    engine.fuel_consumer_type_fuel_eu_maritime,
    m * ttw_user(),
    m * WTT * LHV,
)

# (c) FuelEU natural gas + user-specified pilot fuel in a medium-speed Otto gas engine
m_gas, m_pilot = 90.0, 3.0
gas = Fuel(
    fuel_type=TypeFuel.NATURAL_GAS,
    origin=FuelOrigin.FOSSIL,
    fuel_specified_by=FuelSpecifiedBy.FUEL_EU_MARITIME,
    mass_or_mass_fraction=m_gas,
)
slip = 3.1 / 100
ttw_gas = (1 - slip) * (2.75 + GWP_CH4 * 0.0 + GWP_N2O * 0.00011) + GWP_CH4 * slip
wtt_gas = 18.5 * 0.0491
check(
    "c: FuelEU gas + user pilot, LNG Otto medium speed",
    FuelConsumption([gas, user_fuel(m_pilot)]),
    C.LNG_OTTO_MEDIUM_SPEED,
    m_gas * ttw_gas + m_pilot * ttw_user(),
    m_gas * wtt_gas + m_pilot * WTT * LHV,
)

print()
if violations:
    print("PROPERTY VIOLATED for:", violations)
    sys.exit(1)
print("property holds")
sys.exit(0)
