"""C20 finding 3: a component of a SOURCE kind is accepted in the role of a consumer, and what it
consumes is booked as energy the plant is GIVEN.

ElectricPowerSystem tests the kind of a power source (class and label) and of a propulsion drive, a
PTI/PTO and a storage unit, but a component with the power type POWER_CONSUMER is accepted whatever
its label.  With the label SHORE_POWER (a shore connection is a source: class ShorePowerConnection
has the power type POWER_SOURCE) the consumer is balanced as a load on the gensets and the result
books its consumption as `energy_input_electric_total_mj` (energy received from shore).  With the
label GENERATOR its consumption is booked as `energy_input_mechanical_total_mj` and its hours as
genset running hours.  The same happens on a shaft line (MechanicalPropulsionSystem).
(The mirror case - load / shore power / PTI-PTO labels on a power SOURCE - is refused by the
constructor.)

Run: PYTHONPATH=<wt>/feems:<wt>/machinery-system-structure:<wt>/RunFEEMSSim /venv/bin/python finding_3.py
Exit status 1 = property violated (current code), 0 = property holds.
"""
import logging
import sys
import warnings

import numpy as np

logging.disable(logging.CRITICAL)
warnings.filterwarnings("ignore")

from feems.components_model.component_electric import ElectricComponent, ElectricMachine, Genset
from feems.components_model.component_mechanical import (
    Engine,
    MainEngineForMechanicalPropulsion,
    MechanicalPropulsionComponent,
)
from feems.components_model.utility import IntegrationMethod
from feems.system_model import ElectricPowerSystem, MechanicalPropulsionSystem
from feems.types_for_feems import TypeComponent, TypePower

N = 5
BSFC = np.array([[0.25, 220.0], [0.5, 200.0], [0.75, 190.0], [1.0, 195.0]])
EFF = np.array([[0.25, 0.93], [0.5, 0.95], [0.75, 0.96], [1.0, 0.958]])


def electric(extra_label):
    engine = Engine(type_=TypeComponent.AUXILIARY_ENGINE, name="aux", rated_power=1100.0,
                    rated_speed=900, bsfc_curve=BSFC)
    generator = ElectricMachine(type_=TypeComponent.GENERATOR, name="gen", rated_power=1000.0,
                                rated_speed=900, power_type=TypePower.POWER_SOURCE,
                                switchboard_id=1, eff_curve=EFF)
    genset = Genset("genset 1", engine, generator)
    hotel = ElectricComponent(type_=TypeComponent.OTHER_LOAD, name="hotel", rated_power=1000.0,
                              eff_curve=np.array([1.0]), power_type=TypePower.POWER_CONSUMER,
                              switchboard_id=1)
    components = [genset, hotel]
    extra = None
    if extra_label is not None:
        extra = ElectricComponent(type_=extra_label, name="extra", rated_power=500.0,
                                  eff_curve=np.array([0.95]),
                                  power_type=TypePower.POWER_CONSUMER, switchboard_id=1)
        components.append(extra)
    system = ElectricPowerSystem("electric", components, [])  # <- should refuse
    hotel.set_power_input_from_output(np.full(N, 300.0))
    if extra is not None:
        extra.set_power_input_from_output(np.full(N, 100.0))
    genset.status = np.ones(N, dtype=bool)
    system.set_time_interval(np.full(N, 60.0), IntegrationMethod.sum_with_time)
    system.do_power_balance_calculation()
    return genset, system.get_fuel_energy_consumption_running_time()


def mechanical(extra_label):
    main_engine = MainEngineForMechanicalPropulsion(
        "main engine",
        Engine(type_=TypeComponent.MAIN_ENGINE, name="me", rated_power=2000.0, rated_speed=900,
               bsfc_curve=BSFC),
        shaft_line_id=1,
    )
    propeller = MechanicalPropulsionComponent(
        TypeComponent.PROPELLER_LOAD, TypePower.POWER_CONSUMER, "propeller", 2000.0,
        np.array([1.0]), 100, shaft_line_id=1)
    extra = MechanicalPropulsionComponent(
        extra_label, TypePower.POWER_CONSUMER, "extra", 500.0, np.array([0.95]), 100,
        shaft_line_id=1)
    system = MechanicalPropulsionSystem("mechanical", [main_engine, propeller, extra])
    propeller.set_power_input_from_output(np.full(N, 300.0))
    extra.set_power_input_from_output(np.full(N, 100.0))
    main_engine.status = np.ones(N, dtype=bool)
    system.set_time_interval(np.full(N, 60.0), IntegrationMethod.sum_with_time)
    system.do_power_balance()
    return main_engine, system.get_fuel_energy_consumption_running_time()


genset, base = electric(None)
print(f"base: genset {genset.power_output[0]:.1f} kW, energy input electric "
      f"{base.energy_input_electric_total_mj:.2f} MJ, energy input mechanical "
      f"{base.energy_input_mechanical_total_mj:.2f} MJ, genset hours "
      f"{base.running_hours_genset_total_hr:.4f}")

violated = False
for label in (TypeComponent.SHORE_POWER, TypeComponent.GENERATOR):
    for side, run in (("switchboard", electric), ("shaft line", mechanical)):
        try:
            source, result = run(label)
        except Exception as error:  # noqa
            print(f"consumer with the label {label.name} on a {side}: rejected "
                  f"({type(error).__name__}: {str(error)[:70]})")
            continue
        violated = True
        print(f"consumer with the label {label.name} on a {side}: ACCEPTED, result produced")
        print(f"   {type(source).__name__} now delivers {source.power_output[0]:.1f} kW (the "
              f"component is a load of 100 kW / 0.95), but the result books")
        print(f"   energy_input_electric_total_mj = {result.energy_input_electric_total_mj:.2f}, "
              f"energy_input_mechanical_total_mj = {result.energy_input_mechanical_total_mj:.2f}, "
              f"running_hours_genset_total_hr = {result.running_hours_genset_total_hr:.4f}")

if violated:
    print("PROPERTY VIOLATED: a component of a source kind (shore connection, generator) is "
          "accepted in the role of a consumer and yields a result (its consumption counted as an "
          "energy input)")
    sys.exit(1)
print("property holds")
sys.exit(0)
