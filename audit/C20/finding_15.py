"""C20 finding 2: MechanicalPropulsionSystem accepts a component of the wrong kind in the role of a main
engine.  A MechanicalPropulsionComponent (no engine, no fuel curve) that carries the MAIN_ENGINE (or
MAIN_ENGINE_WITH_GEARBOX) label and the power type ENERGY_STORAGE / NONE is listed among the main
engines, left out of the shaft balance, and the system yields a complete finite result.  The same
component with any other label is refused by the constructor (TypeError: 'neither a load nor a
transmission'); the test on the label comes first and by-passes the tests on class and power type.
With power type POWER_SOURCE the labelled component is balanced as a main engine that burns no fuel
(the real engine's power is halved); only the result call stumbles (AttributeError).

Run: PYTHONPATH=<wt>/feems:<wt>/machinery-system-structure:<wt>/RunFEEMSSim /venv/bin/python finding_2.py
Exit status 1 = property violated (current code), 0 = property holds.
"""
import logging
import sys
import warnings

import numpy as np

logging.disable(logging.CRITICAL)
warnings.filterwarnings("ignore")

from feems.components_model.component_mechanical import (
    Engine,
    MainEngineForMechanicalPropulsion,
    MechanicalPropulsionComponent,
)
from feems.components_model.utility import IntegrationMethod
from feems.system_model import MechanicalPropulsionSystem
from feems.types_for_feems import TypeComponent, TypePower

N = 5
BSFC = np.array([[0.25, 220.0], [0.5, 200.0], [0.75, 190.0], [1.0, 195.0]])


def calculate(extra_type, extra_power_type):
    """A valid shaft line (main engine + propeller) plus one extra component."""
    main_engine = MainEngineForMechanicalPropulsion(
        "main engine",
        Engine(type_=TypeComponent.MAIN_ENGINE, name="me", rated_power=2000.0, rated_speed=900,
               bsfc_curve=BSFC),
        shaft_line_id=1,
    )
    propeller = MechanicalPropulsionComponent(
        TypeComponent.PROPELLER_LOAD, TypePower.POWER_CONSUMER, "propeller", 2000.0,
        np.array([1.0]), 100, shaft_line_id=1,
    )
    components = [main_engine, propeller]
    extra = None
    if extra_type is not None:
        extra = MechanicalPropulsionComponent(
            extra_type, extra_power_type, "second main engine", 2000.0, np.array([0.95]), 900,
            shaft_line_id=1,
        )
        components.append(extra)
    system = MechanicalPropulsionSystem("mechanical", components)  # <- should refuse
    propeller.set_power_input_from_output(np.linspace(500.0, 900.0, N))
    main_engine.status = np.ones(N, dtype=bool)
    if extra is not None:
        extra.status = np.ones(N, dtype=bool)
    system.set_time_interval(np.full(N, 60.0), IntegrationMethod.sum_with_time)
    system.do_power_balance()
    balance = (np.round(main_engine.power_output, 1),
               None if extra is None else np.round(np.atleast_1d(extra.power_output), 1))
    result = system.get_fuel_energy_consumption_running_time()
    return system, balance, result


# the valid base configuration
system, balance, result = calculate(None, None)
print("base: accepted; main engines:", system.no_main_engines, " engine power:", balance[0])

# control: the wrong power type with another label is refused by the constructor
try:
    calculate(TypeComponent.BATTERY, TypePower.ENERGY_STORAGE)
    print("label BATTERY, power type ENERGY_STORAGE: ACCEPTED")
except Exception as error:  # noqa
    print(f"label BATTERY, power type ENERGY_STORAGE: rejected ({type(error).__name__}: "
          f"{str(error)[:70]})")

violated = False
for label in (TypeComponent.MAIN_ENGINE, TypeComponent.MAIN_ENGINE_WITH_GEARBOX):
    for power_type in (TypePower.ENERGY_STORAGE, TypePower.NONE, TypePower.POWER_SOURCE):
        stage = "constructor / balance / result"
        try:
            system, balance, result = calculate(label, power_type)
        except Exception as error:  # noqa
            print(f"label {label.name}, power type {power_type.name}: error "
                  f"({type(error).__name__}: {str(error)[:80]})")
            continue
        violated = True
        fuel = result.multi_fuel_consumption_total_kg.total_fuel_consumption
        print(f"label {label.name}, power type {power_type.name} on a MechanicalPropulsionComponent: "
              f"ACCEPTED, result produced")
        print(f"   system.no_main_engines = {system.no_main_engines}, classes of main_engines = "
              f"{[type(c).__name__ for c in system.main_engines]}")
        print(f"   real engine power {balance[0]}, 'second main engine' power {balance[1]}, "
              f"fuel {float(fuel):.3f} kg")

# the POWER_SOURCE variant, stage by stage: constructor and power balance accept it
main_engine = MainEngineForMechanicalPropulsion(
    "main engine",
    Engine(type_=TypeComponent.MAIN_ENGINE, name="me", rated_power=2000.0, rated_speed=900,
           bsfc_curve=BSFC),
    shaft_line_id=1,
)
propeller = MechanicalPropulsionComponent(
    TypeComponent.PROPELLER_LOAD, TypePower.POWER_CONSUMER, "propeller", 2000.0, np.array([1.0]),
    100, shaft_line_id=1,
)
fake = MechanicalPropulsionComponent(
    TypeComponent.MAIN_ENGINE, TypePower.POWER_SOURCE, "second main engine", 2000.0,
    np.array([0.95]), 900, shaft_line_id=1,
)
try:
    system = MechanicalPropulsionSystem("mechanical", [main_engine, propeller, fake])
    propeller.set_power_input_from_output(np.linspace(500.0, 900.0, N))
    main_engine.status = np.ones(N, dtype=bool)
    fake.status = np.ones(N, dtype=bool)
    system.set_time_interval(np.full(N, 60.0), IntegrationMethod.sum_with_time)
    system.do_power_balance()
    print("label MAIN_ENGINE, power type POWER_SOURCE: constructor and power balance accept it; "
          "real engine", np.round(main_engine.power_output, 1), "labelled component",
          np.round(fake.power_output, 1), "(a main engine that burns no fuel)")
except Exception as error:  # noqa
    print("label MAIN_ENGINE, power type POWER_SOURCE: rejected before the balance "
          f"({type(error).__name__})")

if violated:
    print("PROPERTY VIOLATED: a component of the wrong kind for the role of a main engine is "
          "accepted and the system yields a result")
    sys.exit(1)
print("property holds")
sys.exit(0)
