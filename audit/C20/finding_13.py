"""C20 finding 5 - a valid plant whose two switchboards are numbered 2 and 5 (joined by one
bus-tie breaker) is accepted by ElectricPowerSystem, balanced, and yields finite results; the
same plant written to a protobuf message and read back through the public entry point
MachSysS.convert_to_feems.convert_proto_propulsion_system_to_feems is refused with KeyError,
because the reader ties the switchboards as (1, 2), (2, 3), ... whatever their numbers are.

Clause: 'Every configuration built only from supported components with consistent inputs is
accepted and yields finite results.'
Exit status 1 = property violated (current code), 0 = property holds.
"""
import logging
import sys

import numpy as np

logging.disable(logging.CRITICAL)

from feems.components_model.component_electric import ElectricComponent, ElectricMachine, Genset
from feems.components_model.component_mechanical import Engine
from feems.components_model.utility import IntegrationMethod
from feems.system_model import ElectricPowerSystem
from feems.types_for_feems import TypeComponent, TypePower
from MachSysS.convert_to_feems import convert_proto_propulsion_system_to_feems
from MachSysS.convert_to_protobuf import convert_electric_system_to_protobuf_machinery_system

EFF_MACHINE = np.array([[1.00, 0.75, 0.50, 0.25], [0.9585, 0.9596, 0.9534, 0.9299]]).T
BSFC = np.array([[0.25, 0.5, 0.75, 1.0], [210.0, 195.0, 190.0, 193.0]]).T


def genset(name: str, switchboard_id: int) -> Genset:
    return Genset(
        name,
        Engine(
            type_=TypeComponent.AUXILIARY_ENGINE,
            name=name + " engine",
            rated_power=1100.0,
            rated_speed=900.0,
            bsfc_curve=BSFC,
        ),
        ElectricMachine(
            type_=TypeComponent.GENERATOR,
            name=name + " generator",
            rated_power=1000.0,
            rated_speed=900.0,
            power_type=TypePower.POWER_SOURCE,
            switchboard_id=switchboard_id,
            eff_curve=EFF_MACHINE,
        ),
    )


def load(name: str, switchboard_id: int) -> ElectricComponent:
    return ElectricComponent(
        type_=TypeComponent.OTHER_LOAD,
        name=name,
        rated_power=800.0,
        eff_curve=np.array([1.0]),
        power_type=TypePower.POWER_CONSUMER,
        switchboard_id=switchboard_id,
    )


def plant(first: int, second: int) -> ElectricPowerSystem:
    return ElectricPowerSystem(
        "plant",
        [genset("genset a", first), load("load a", first), genset("genset b", second), load("load b", second)],
        [(first, second)],
    )


def calculate(system: ElectricPowerSystem):
    for source in system.power_sources:
        source.status = np.ones(4, dtype=bool)
    for consumer in system.other_load:
        consumer.set_power_input_from_output(np.array([100.0, 300.0, 500.0, 700.0]))
    system.set_time_interval(60.0, IntegrationMethod.simpson)
    system.do_power_balance_calculation()
    result = system.get_fuel_energy_consumption_running_time()
    fuel = float(result.fuel_consumption_total_kg)
    assert np.isfinite(fuel) and np.isfinite(result.duration_s)
    return fuel


violated = False
for numbers in ((1, 2), (2, 5)):
    fuel_direct = calculate(plant(*numbers))
    print(f"switchboards {numbers}: built directly: accepted, fuel {fuel_direct:.4f} kg")
    message = convert_electric_system_to_protobuf_machinery_system(plant(*numbers))
    print(
        "   protobuf message holds switchboards",
        [switchboard.switchboard_id for switchboard in message.electric_system.switchboards],
    )
    try:
        system_read = convert_proto_propulsion_system_to_feems(message)
        fuel_read = calculate(system_read)
        print(f"   read back from protobuf: accepted, fuel {fuel_read:.4f} kg")
    except Exception as error:
        violated = True
        print(f"   read back from protobuf: REFUSED with {type(error).__name__}: {error}")

if violated:
    print("PROPERTY VIOLATED: a valid configuration (switchboards not numbered 1..n) is refused by the protobuf entry point")
    sys.exit(1)
print("property holds")
sys.exit(0)
