"""C20 finding 1: in a hybrid plant with at least one full-PTI step, a GIVEN PTI/PTO power series whose
length disagrees with every other series (3 values against 5) is not rejected: it is silently replaced
by zeros and a result is produced.  The same series is rejected (InputError) when no step is in full
PTI mode.

Run: PYTHONPATH=<wt>/feems:<wt>/machinery-system-structure:<wt>/RunFEEMSSim /venv/bin/python finding_1.py
Exit status 1 = property violated (current code), 0 = property holds.
"""
import logging
import sys
import warnings

import numpy as np

logging.disable(logging.CRITICAL)
warnings.filterwarnings("ignore")

from feems.components_model.component_electric import (
    ElectricComponent,
    ElectricMachine,
    Genset,
    PTIPTO,
)
from feems.components_model.component_mechanical import (
    Engine,
    MainEngineForMechanicalPropulsion,
    MechanicalPropulsionComponent,
)
from feems.components_model.utility import IntegrationMethod
from feems.system_model import (
    ElectricPowerSystem,
    HybridPropulsionSystem,
    MechanicalPropulsionSystem,
)
from feems.types_for_feems import TypeComponent, TypePower

N = 5
BSFC = np.array([[0.25, 220.0], [0.5, 200.0], [0.75, 190.0], [1.0, 195.0]])
EFF = np.array([[0.25, 0.93], [0.5, 0.95], [0.75, 0.96], [1.0, 0.958]])


def build(full_pti_mode, pti_pto_power):
    engine = Engine(
        type_=TypeComponent.AUXILIARY_ENGINE, name="aux", rated_power=1100.0, rated_speed=900,
        bsfc_curve=BSFC,
    )
    generator = ElectricMachine(
        type_=TypeComponent.GENERATOR, name="gen", rated_power=1000.0, rated_speed=900,
        power_type=TypePower.POWER_SOURCE, switchboard_id=1, eff_curve=EFF,
    )
    genset = Genset("genset 1", engine, generator)
    hotel = ElectricComponent(
        type_=TypeComponent.OTHER_LOAD, name="hotel", rated_power=1000.0,
        eff_curve=np.array([1.0]), power_type=TypePower.POWER_CONSUMER, switchboard_id=1,
    )
    machine = ElectricMachine(
        type_=TypeComponent.SYNCHRONOUS_MACHINE, name="shaft machine", rated_power=1000.0,
        rated_speed=900, power_type=TypePower.PTI_PTO, eff_curve=EFF,
    )
    converter = ElectricComponent(
        type_=TypeComponent.POWER_CONVERTER, name="converter", rated_power=1000.0,
        eff_curve=np.array([0.98]), power_type=TypePower.POWER_TRANSMISSION,
    )
    pti_pto = PTIPTO("pti/pto", [converter, machine], 1, 1000.0, 900, shaft_line_id=1)
    main_engine = MainEngineForMechanicalPropulsion(
        "main engine",
        Engine(type_=TypeComponent.MAIN_ENGINE, name="me", rated_power=2000.0, rated_speed=900,
               bsfc_curve=BSFC),
        shaft_line_id=1,
    )
    propeller = MechanicalPropulsionComponent(
        TypeComponent.PROPELLER_LOAD, TypePower.POWER_CONSUMER, "propeller", 2000.0,
        np.array([1.0]), 100, shaft_line_id=1,
    )
    electric = ElectricPowerSystem("electric", [genset, hotel, pti_pto], [])
    mechanical = MechanicalPropulsionSystem("mechanical", [main_engine, propeller, pti_pto])
    hybrid = HybridPropulsionSystem("hybrid", electric, mechanical)

    # all series have N = 5 samples ...
    hotel.set_power_input_from_output(np.linspace(100.0, 300.0, N))
    propeller.set_power_input_from_output(np.linspace(500.0, 900.0, N))
    genset.status = np.ones(N, dtype=bool)
    main_engine.status = np.ones(N, dtype=bool)
    pti_pto.status = np.ones(N, dtype=bool)
    pti_pto.full_pti_mode = np.asarray(full_pti_mode, dtype=bool)
    # ... the PTI/PTO is in given-power mode (load sharing mode 1) ...
    pti_pto.load_sharing_mode = np.ones(1)
    # ... and this is the power series it is given (electric side; negative = PTO)
    pti_pto.set_power_output_from_input(np.asarray(pti_pto_power, dtype=float))
    hybrid.set_time_interval(np.full(N, 60.0), IntegrationMethod.sum_with_time)
    return hybrid, pti_pto, genset, main_engine


def calculate(full_pti_mode, pti_pto_power):
    hybrid, pti_pto, genset, main_engine = build(full_pti_mode, pti_pto_power)
    hybrid.do_power_balance_calculation()
    result = hybrid.get_fuel_energy_consumption_running_time(
        np.full(N, 60.0), IntegrationMethod.sum_with_time
    )
    return result, pti_pto, genset, main_engine


FULL = [0, 1, 1, 0, 0]
NONE = [0, 0, 0, 0, 0]

# 1. the valid base configuration: a 5-sample given power; accepted
result, pti_pto, genset, main_engine = calculate(FULL, [-100.0] * N)
print("base (5-sample PTI/PTO power, full PTI at steps 1, 2): accepted")
print("   PTI/PTO electric power:", np.round(pti_pto.power_input, 1))

# 2. the invalidating change without a full-PTI step: rejected, as the property demands
try:
    calculate(NONE, [-100.0] * 3)
    print("3-sample PTI/PTO power, no full-PTI step: ACCEPTED")
    rejected_without_full_pti = False
except Exception as error:  # noqa
    print(f"3-sample PTI/PTO power, no full-PTI step: rejected ({type(error).__name__})")
    rejected_without_full_pti = True

# 3. the same invalidating change applied to the base configuration (full PTI at steps 1, 2)
violated = False
for length in (3, 7, 2):
    try:
        result, pti_pto, genset, main_engine = calculate(FULL, [-100.0] * length)
    except Exception as error:  # noqa
        print(f"{length}-sample PTI/PTO power, full PTI at steps 1, 2: rejected "
              f"({type(error).__name__}: {str(error)[:80]})")
        continue
    violated = True
    fuel = result.electric_system.multi_fuel_consumption_total_kg.total_fuel_consumption
    print(f"{length}-sample PTI/PTO power against {N}-sample series, full PTI at steps 1, 2: "
          f"ACCEPTED, result produced")
    print("   PTI/PTO electric power now:", np.round(pti_pto.power_input, 1),
          "(the given -100 kW has been dropped at steps 0, 3, 4)")
    print("   genset power:", np.round(genset.power_output, 1), " fuel electric side [kg]:",
          round(float(fuel), 3))

if violated:
    print("PROPERTY VIOLATED: a power series whose length disagrees with the other series is "
          "accepted and yields a result")
    sys.exit(1)
print("property holds")
sys.exit(0)
