"""C20 finding 5 (entry-point gap): MechanicalPropulsionSystemWithElectricPowerSystem refuses an electric
and a mechanical side whose series are not equally long - but only inside its own
do_power_balance_calculation().  The test is not made where the result is built: when the two
sub-systems are balanced through their own public methods (electric_system.do_power_balance_calculation(),
mechanical_system.do_power_balance() - the two calls the composite method itself makes and refers to
in its docstring), get_fuel_energy_consumption_running_time() of the composite returns a result over
two different time bases (5 samples / 300 s electric, 3 samples / 180 s mechanical).

Run: PYTHONPATH=<wt>/feems:<wt>/machinery-system-structure:<wt>/RunFEEMSSim /venv/bin/python finding_5.py
Exit status 1 = property violated (current code), 0 = property holds.
"""
import logging
import sys
import warnings

import numpy as np

logging.disable(logging.CRITICAL)
warnings.filterwarnings("ignore")

from feems.components_model.component_electric import ElectricComponent, ElectricMachine, Genset
from feems.components_model.component_mechanical import (
    Engine,
    MainEngineForMechanicalPropulsion,
    MechanicalPropulsionComponent,
)
from feems.components_model.utility import IntegrationMethod
from feems.system_model import (
    ElectricPowerSystem,
    MechanicalPropulsionSystem,
    MechanicalPropulsionSystemWithElectricPowerSystem,
)
from feems.types_for_feems import TypeComponent, TypePower

BSFC = np.array([[0.25, 220.0], [0.5, 200.0], [0.75, 190.0], [1.0, 195.0]])
EFF = np.array([[0.25, 0.93], [0.5, 0.95], [0.75, 0.96], [1.0, 0.958]])


def build(n_electric, n_mechanical):
    engine = Engine(type_=TypeComponent.AUXILIARY_ENGINE, name="aux", rated_power=1100.0,
                    rated_speed=900, bsfc_curve=BSFC)
    generator = ElectricMachine(type_=TypeComponent.GENERATOR, name="gen", rated_power=1000.0,
                                rated_speed=900, power_type=TypePower.POWER_SOURCE,
                                switchboard_id=1, eff_curve=EFF)
    genset = Genset("genset 1", engine, generator)
    hotel = ElectricComponent(type_=TypeComponent.OTHER_LOAD, name="hotel", rated_power=1000.0,
                              eff_curve=np.array([1.0]), power_type=TypePower.POWER_CONSUMER,
                              switchboard_id=1)
    main_engine = MainEngineForMechanicalPropulsion(
        "main engine",
        Engine(type_=TypeComponent.MAIN_ENGINE, name="me", rated_power=2000.0, rated_speed=900,
               bsfc_curve=BSFC),
        shaft_line_id=1,
    )
    propeller = MechanicalPropulsionComponent(
        TypeComponent.PROPELLER_LOAD, TypePower.POWER_CONSUMER, "propeller", 2000.0,
        np.array([1.0]), 100, shaft_line_id=1)
    electric = ElectricPowerSystem("electric", [genset, hotel], [])
    mechanical = MechanicalPropulsionSystem("mechanical", [main_engine, propeller])
    plant = MechanicalPropulsionSystemWithElectricPowerSystem("plant", electric, mechanical)
    hotel.set_power_input_from_output(np.linspace(100.0, 500.0, n_electric))
    genset.status = np.ones(n_electric, dtype=bool)
    propeller.set_power_input_from_output(np.linspace(500.0, 1500.0, n_mechanical))
    main_engine.status = np.ones(n_mechanical, dtype=bool)
    plant.set_time_interval(60.0, IntegrationMethod.simpson)
    return plant


def summary(result):
    return ("electric %.3f kg over %s s, mechanical %.3f kg over %s s" % (
        result.electric_system.multi_fuel_consumption_total_kg.total_fuel_consumption,
        result.electric_system.duration_s,
        result.mechanical_system.multi_fuel_consumption_total_kg.total_fuel_consumption,
        result.mechanical_system.duration_s))


# valid base: 5 samples on both sides
plant = build(5, 5)
plant.do_power_balance_calculation()
print("base (5 / 5 samples): accepted;", summary(plant.get_fuel_energy_consumption_running_time(60.0)))

# invalidating change: the propeller load and the engine status get 3 samples
plant = build(5, 3)
try:
    plant.do_power_balance_calculation()
    print("5 / 3 samples through plant.do_power_balance_calculation(): ACCEPTED")
except Exception as error:  # noqa
    print(f"5 / 3 samples through plant.do_power_balance_calculation(): rejected "
          f"({type(error).__name__}: {str(error)[:90]})")

# the same inputs, the two balances called on the sub-systems (what the composite method does)
plant = build(5, 3)
violated = False
try:
    plant.electric_system.do_power_balance_calculation()
    plant.mechanical_system.do_power_balance()
    result = plant.get_fuel_energy_consumption_running_time(60.0)
    violated = True
    print("5 / 3 samples, sub-systems balanced one by one, result asked of the plant: ACCEPTED;",
          summary(result))
except Exception as error:  # noqa
    print(f"5 / 3 samples, sub-systems balanced one by one: rejected ({type(error).__name__})")

if violated:
    print("PROPERTY VIOLATED: load series whose lengths disagree yield a result")
    sys.exit(1)
print("property holds")
sys.exit(0)
