"""C20 finding 4: 'a single value standing for a constant' is accepted for the load, the status and the
sharing mode of the electric side, but NOT for the interval series: with the integration method
sum_with_time a constant interval given as one value (60.0, [60.0] or np.array([60.0])) next to
5-sample series is accepted by set_time_interval and by the power balance and then refused by the
result call (IntegrationError / ValueError), although the same plant with the interval written out
five times, or with every OTHER series replaced by its single value, is accepted.

Run: PYTHONPATH=<wt>/feems:<wt>/machinery-system-structure:<wt>/RunFEEMSSim /venv/bin/python finding_4.py
Exit status 1 = property violated (current code), 0 = property holds.
"""
import logging
import sys
import warnings

import numpy as np

logging.disable(logging.CRITICAL)
warnings.filterwarnings("ignore")

from feems.components_model.component_electric import ElectricComponent, ElectricMachine, Genset
from feems.components_model.component_mechanical import Engine
from feems.components_model.utility import IntegrationMethod
from feems.system_model import ElectricPowerSystem
from feems.types_for_feems import TypeComponent, TypePower

N = 5
BSFC = np.array([[0.25, 220.0], [0.5, 200.0], [0.75, 190.0], [1.0, 195.0]])
EFF = np.array([[0.25, 0.93], [0.5, 0.95], [0.75, 0.96], [1.0, 0.958]])


def calculate(interval, load=None, status=None):
    engine = Engine(type_=TypeComponent.AUXILIARY_ENGINE, name="aux", rated_power=1100.0,
                    rated_speed=900, bsfc_curve=BSFC)
    generator = ElectricMachine(type_=TypeComponent.GENERATOR, name="gen", rated_power=1000.0,
                                rated_speed=900, power_type=TypePower.POWER_SOURCE,
                                switchboard_id=1, eff_curve=EFF)
    genset = Genset("genset 1", engine, generator)
    hotel = ElectricComponent(type_=TypeComponent.OTHER_LOAD, name="hotel", rated_power=1000.0,
                              eff_curve=np.array([1.0]), power_type=TypePower.POWER_CONSUMER,
                              switchboard_id=1)
    thruster = ElectricComponent(type_=TypeComponent.PROPULSION_DRIVE, name="thruster",
                                 rated_power=1000.0, eff_curve=np.array([1.0]),
                                 power_type=TypePower.POWER_CONSUMER, switchboard_id=1)
    system = ElectricPowerSystem("electric", [genset, hotel, thruster], [])
    hotel.set_power_input_from_output(np.full(N, 300.0) if load is None else load)
    thruster.set_power_input_from_output(np.linspace(100.0, 500.0, N))
    genset.status = np.ones(N, dtype=bool) if status is None else status
    system.set_time_interval(interval, IntegrationMethod.sum_with_time)
    system.do_power_balance_calculation()
    result = system.get_fuel_energy_consumption_running_time()
    return float(result.multi_fuel_consumption_total_kg.total_fuel_consumption), result.duration_s


reference = calculate(np.full(N, 60.0))
print("interval written out 5 x 60 s: accepted, fuel %.4f kg, duration %s s" % reference)
print("hotel load as the single value [300.]: accepted, fuel %.4f kg"
      % calculate(np.full(N, 60.0), load=np.array([300.0]))[0])
print("genset status as the single value [True]: accepted, fuel %.4f kg"
      % calculate(np.full(N, 60.0), status=np.ones(1, dtype=bool))[0])

violated = False
for label, interval in (("60.0", 60.0), ("[60.0]", [60.0]), ("np.array([60.0])", np.array([60.0]))):
    try:
        fuel, duration = calculate(interval)
    except Exception as error:  # noqa
        violated = True
        print(f"interval as the single value {label}: REFUSED ({type(error).__name__}: "
              f"{str(error)[:90]})")
        continue
    same = np.isclose(fuel, reference[0]) and np.isclose(duration, reference[1])
    print(f"interval as the single value {label}: accepted, fuel {fuel:.4f} kg, duration "
          f"{duration} s ({'same' if same else 'DIFFERENT'})")
    violated |= not same

if violated:
    print("PROPERTY VIOLATED: a consistent input set (a single interval value standing for a "
          "constant) is not accepted")
    sys.exit(1)
print("property holds")
sys.exit(0)
