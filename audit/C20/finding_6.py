"""C20 finding 5 - a shaft load with the power type of another role is accepted and dropped.

MechanicalPropulsionSystem files every component that is neither a main engine nor a PTI/PTO nor
of power type POWER_SOURCE under 'mechanical_loads', whatever its power type. The shaft line,
however, balances and reports the components of power type POWER_CONSUMER only. A propeller
constructed with TypePower.ENERGY_STORAGE or TypePower.NONE (a component of the wrong kind for
the role of a shaft load) is therefore accepted, its power series takes part in the length
check - and its 1000 kW never reach the main engine or the result. The property demands that a
component of the wrong kind for its role is rejected with an error and never yields a result
(ElectricPowerSystem does reject these power types with a TypeError, and the mechanical side
rejects POWER_SOURCE).
Exit status 1 = property violated.
"""
import logging
import sys

import numpy as np

logging.disable(logging.CRITICAL)

from feems.components_model.component_mechanical import (
    Engine,
    MainEngineForMechanicalPropulsion,
    MechanicalPropulsionComponent,
)
from feems.components_model.utility import IntegrationMethod
from feems.system_model import MechanicalPropulsionSystem
from feems.types_for_feems import TypeComponent, TypePower

N = 5
BSFC = np.array([[0.25, 220.0], [0.5, 200.0], [0.75, 190.0], [1.0, 195.0]])


def run(power_type_second_propeller):
    engine = Engine(
        type_=TypeComponent.MAIN_ENGINE, name="engine", rated_power=3000.0, rated_speed=500.0,
        bsfc_curve=BSFC,
    )
    main_engine = MainEngineForMechanicalPropulsion("ME1", engine, shaft_line_id=1)
    propellers = [
        MechanicalPropulsionComponent(
            TypeComponent.PROPELLER_LOAD, power_type, name, 1500.0, np.array([0.99]),
            shaft_line_id=1,
        )
        for name, power_type in [
            ("propeller 1", TypePower.POWER_CONSUMER),
            ("propeller 2", power_type_second_propeller),
        ]
    ]
    system = MechanicalPropulsionSystem("mech", [main_engine] + propellers)
    system.set_time_interval(60.0, IntegrationMethod.simpson)
    for propeller in propellers:
        propeller.set_power_input_from_output(np.full(N, 1000.0))
    main_engine.status = np.ones(N, dtype=bool)
    system.do_power_balance()
    result = system.get_fuel_energy_consumption_running_time()
    return (
        float(main_engine.power_output[0]),
        float(result.energy_consumption_propulsion_total_mj),
        float(np.sum(result.fuel_consumption_total_kg)),
    )


reference = run(TypePower.POWER_CONSUMER)
print(
    "base plant, two propellers of 1000 kW each (POWER_CONSUMER): engine delivers "
    f"{reference[0]:.1f} kW, propulsion energy {reference[1]:.1f} MJ, fuel {reference[2]:.3f} kg"
)

violations = 0
for power_type in (
    TypePower.ENERGY_STORAGE,
    TypePower.NONE,
    TypePower.POWER_SOURCE,
    TypePower.PTI_PTO,
):
    try:
        values = run(power_type)
    except Exception as error:
        print(f"second propeller as {power_type.name}: refused with {type(error).__name__}")
        continue
    violations += 1
    print(
        f"second propeller as {power_type.name}: ACCEPTED; engine delivers {values[0]:.1f} kW, "
        f"propulsion energy {values[1]:.1f} MJ, fuel {values[2]:.3f} kg - the second propeller "
        "is dropped"
    )

if violations:
    print("Property C20 violated: a component of the wrong kind for its role yields a result.")
    sys.exit(1)
print("Property holds.")
sys.exit(0)
