"""C20 finding 4 - electric side: within one switchboard a single value is not taken for a
constant (between switchboards it is).

(a) Two consumers on one switchboard: the thruster has a load series, the hotel load is idle and
    keeps its default power [0] (or is a constant given as one value) -> InputError in
    Switchboard.get_sum_power_input_by_power_type. On two different switchboards the very same
    inputs are accepted.
(b) A plant with one genset whose status is the single value [True] -> IndexError in
    ElectricPowerSystem.do_power_balance_calculation (sum_power_avail has one element, the load
    has N); with a second switchboard next to it the same single value is accepted.
(c) Two gensets on one switchboard, one with a status series, one with the single value [True]
    -> InputError in Switchboard.get_power_avail_component_by_power_type.
The property excepts a single value standing for a constant and demands that consistent inputs
are accepted. Exit status 1 = property violated.
"""
import logging
import sys

import numpy as np

logging.disable(logging.CRITICAL)

from feems.components_model.component_electric import ElectricComponent, ElectricMachine, Genset
from feems.components_model.component_mechanical import Engine
from feems.components_model.utility import IntegrationMethod
from feems.system_model import ElectricPowerSystem
from feems.types_for_feems import TypeComponent, TypePower

N = 6
BSFC = np.array([[0.25, 220.0], [0.5, 200.0], [0.75, 190.0], [1.0, 195.0]])
EFF = np.array([[0.25, 0.92], [0.5, 0.95], [0.75, 0.96], [1.0, 0.955]])
THRUSTER_KW = np.linspace(100.0, 500.0, N)


def make_genset(name, switchboard_id):
    aux_engine = Engine(
        type_=TypeComponent.AUXILIARY_ENGINE, name=name + " engine", rated_power=1100.0,
        rated_speed=900.0, bsfc_curve=BSFC,
    )
    generator = ElectricMachine(
        type_=TypeComponent.GENERATOR, name=name + " generator", rated_power=1000.0,
        rated_speed=900.0, power_type=TypePower.POWER_SOURCE, switchboard_id=switchboard_id,
        eff_curve=EFF,
    )
    return Genset(name, aux_engine, generator)


def make_load(name, type_, switchboard_id):
    return ElectricComponent(
        type_, name, 800.0, np.array([0.98]), TypePower.POWER_CONSUMER,
        switchboard_id=switchboard_id,
    )


def run(components, bus_ties):
    system = ElectricPowerSystem("electric", components, bus_ties)
    system.set_time_interval(60.0, IntegrationMethod.simpson)
    system.do_power_balance_calculation()
    result = system.get_fuel_energy_consumption_running_time()
    fuel = float(np.sum(result.fuel_consumption_total_kg))
    assert np.isfinite(fuel)
    return fuel


def attempt(label, build):
    try:
        fuel = run(*build())
    except Exception as error:
        print(f"REFUSED  {label}: {type(error).__name__}: {str(error)[:110]}")
        return None
    print(f"accepted {label}: fuel {fuel:.4f} kg")
    return fuel


def consumers(hotel_power, hotel_switchboard):
    def build():
        gensets = [make_genset("genset 1", 1)]
        bus_ties = []
        if hotel_switchboard == 2:
            gensets.append(make_genset("genset 2", 2))
            bus_ties = [(1, 2)]
        thruster = make_load("thruster", TypeComponent.PROPULSION_DRIVE, 1)
        hotel = make_load("hotel", TypeComponent.OTHER_LOAD, hotel_switchboard)
        thruster.set_power_input_from_output(THRUSTER_KW)
        if hotel_power is not None:
            hotel.set_power_input_from_output(hotel_power)
        for genset in gensets:
            genset.status = np.ones(N, dtype=bool)
        return gensets + [thruster, hotel], bus_ties

    return build


def sources(status_1, status_2, switchboard_2):
    def build():
        gensets = [make_genset("genset 1", 1)]
        gensets[0].status = status_1
        bus_ties = []
        if status_2 is not None:
            gensets.append(make_genset("genset 2", switchboard_2))
            gensets[1].status = status_2
            if switchboard_2 != 1:
                bus_ties = [(1, switchboard_2)]
        thruster = make_load("thruster", TypeComponent.PROPULSION_DRIVE, 1)
        thruster.set_power_input_from_output(THRUSTER_KW)
        return gensets + [thruster], bus_ties

    return build


ON_SERIES = np.ones(N, dtype=bool)
ON_SINGLE = np.ones(1, dtype=bool)
violations = 0

print("(a) idle / constant consumer next to a consumer with a series")
for label, single, series in [
    ("idle hotel load, default [0]", None, np.zeros(N)),
    ("constant hotel load [50.]", np.array([50.0]), np.full(N, 50.0)),
]:
    reference = attempt(f"{label} written out, same switchboard", consumers(series, 1))
    attempt(f"{label} as one value, other switchboard", consumers(single, 2))
    fuel = attempt(f"{label} as one value, same switchboard", consumers(single, 1))
    if fuel is None or not np.isclose(fuel, reference, rtol=1e-9):
        violations += 1
        print("  -> VIOLATION")

print("(b) one genset, status given as the single value [True]")
reference = attempt("status written out", sources(ON_SERIES, None, None))
fuel = attempt("status [True]", sources(ON_SINGLE, None, None))
if fuel is None or not np.isclose(fuel, reference, rtol=1e-9):
    violations += 1
    print("  -> VIOLATION")

print("(c) two gensets, one status series, one single value [True]")
reference = attempt("both written out, same switchboard", sources(ON_SERIES, ON_SERIES, 1))
attempt("series + [True], two switchboards", sources(ON_SERIES, ON_SINGLE, 2))
fuel = attempt("series + [True], same switchboard", sources(ON_SERIES, ON_SINGLE, 1))
if fuel is None or not np.isclose(fuel, reference, rtol=1e-9):
    violations += 1
    print("  -> VIOLATION")

if violations:
    print("Property C20 violated: consistent inputs with single values are refused.")
    sys.exit(1)
print("Property holds.")
sys.exit(0)
