"""C20 finding 2 - in the conventional class MechanicalPropulsionSystemWithElectricPowerSystem the
load series of the two sides may disagree in length (5 and 3 samples) when the electric side is
fed by energy storage only: the balance is accepted and a result is returned whose two halves
cover 300 s and 180 s. With a genset on the electric side the same inputs are refused
(InputError), as the property demands.

Clause: 'load, status ... series whose lengths disagree (a single value standing for a constant
excepted) - is rejected with an error and never yields a result'.
Exit status 1 = property violated (current code), 0 = property holds.
"""
import logging
import sys

import numpy as np

logging.disable(logging.CRITICAL)

from feems.components_model.component_electric import (
    Battery,
    ElectricComponent,
    ElectricMachine,
    Genset,
)
from feems.components_model.component_mechanical import (
    Engine,
    MainEngineForMechanicalPropulsion,
    MechanicalPropulsionComponent,
)
from feems.components_model.utility import IntegrationMethod
from feems.system_model import (
    ElectricPowerSystem,
    MechanicalPropulsionSystem,
    MechanicalPropulsionSystemWithElectricPowerSystem,
)
from feems.types_for_feems import TypeComponent, TypePower

BSFC = np.array([[0.25, 0.5, 0.75, 1.0], [210.0, 195.0, 190.0, 193.0]]).T
EFF_MACHINE = np.array([[1.00, 0.75, 0.50, 0.25], [0.9585, 0.9596, 0.9534, 0.9299]]).T


def electric_side(source: str, number_points: int) -> ElectricPowerSystem:
    load = ElectricComponent(
        type_=TypeComponent.OTHER_LOAD,
        name="hotel load",
        rated_power=800.0,
        eff_curve=np.array([1.0]),
        power_type=TypePower.POWER_CONSUMER,
        switchboard_id=1,
    )
    if source == "battery":
        unit = Battery("battery", 1000.0, 1.0, 1.0, switchboard_id=1)
    else:
        unit = Genset(
            "genset",
            Engine(
                type_=TypeComponent.AUXILIARY_ENGINE,
                name="aux engine",
                rated_power=1100.0,
                rated_speed=900.0,
                bsfc_curve=BSFC,
            ),
            ElectricMachine(
                type_=TypeComponent.GENERATOR,
                name="generator",
                rated_power=1000.0,
                rated_speed=900.0,
                power_type=TypePower.POWER_SOURCE,
                switchboard_id=1,
                eff_curve=EFF_MACHINE,
            ),
        )
    system = ElectricPowerSystem("electric", [unit, load], [])
    unit.status = np.ones(number_points, dtype=bool)
    load.set_power_input_from_output(np.linspace(100.0, 700.0, number_points))
    return system


def mechanical_side(number_points: int) -> MechanicalPropulsionSystem:
    main_engine = MainEngineForMechanicalPropulsion(
        "main engine",
        Engine(
            type_=TypeComponent.MAIN_ENGINE,
            name="main engine",
            rated_power=3000.0,
            rated_speed=500.0,
            bsfc_curve=BSFC,
        ),
        shaft_line_id=1,
    )
    propeller = MechanicalPropulsionComponent(
        TypeComponent.PROPELLER_LOAD,
        TypePower.POWER_CONSUMER,
        "propeller",
        3000.0,
        np.array([1.0]),
        100.0,
        1,
    )
    system = MechanicalPropulsionSystem("mechanical", [main_engine, propeller])
    main_engine.status = np.ones(number_points, dtype=bool)
    propeller.set_power_input_from_output(np.linspace(500.0, 2500.0, number_points))
    return system


def calculate(source: str, points_electric: int, points_mechanical: int):
    system = MechanicalPropulsionSystemWithElectricPowerSystem(
        "ship", electric_side(source, points_electric), mechanical_side(points_mechanical)
    )
    system.set_time_interval(60.0, IntegrationMethod.simpson)
    system.do_power_balance_calculation()
    return system.get_fuel_energy_consumption_running_time(60.0)


def outcome(source: str, points_electric: int, points_mechanical: int) -> bool:
    """True when a result is returned"""
    label = f"{source:7s} electric side, {points_electric} / {points_mechanical} samples"
    try:
        result = calculate(source, points_electric, points_mechanical)
    except Exception as error:
        print(f"{label}: rejected with {type(error).__name__}: {str(error)[:90]}")
        return False
    print(
        f"{label}: ACCEPTED, duration electric {result.electric_system.duration_s} s, "
        f"mechanical {result.mechanical_system.duration_s} s, "
        f"main engine fuel {float(result.mechanical_system.fuel_consumption_total_kg):.2f} kg"
    )
    return True


# valid base configurations: equally long series on both sides
assert outcome("genset", 5, 5)
assert outcome("battery", 5, 5)
# the single invalidating change: the series of the mechanical side are shorter
refused_with_genset = not outcome("genset", 5, 3)
accepted_with_battery = outcome("battery", 5, 3)

if accepted_with_battery:
    print(
        "PROPERTY VIOLATED: load series whose lengths disagree (5 and 3 samples) are accepted "
        "and yield a result"
        + (" (the same inputs are refused when a genset feeds the bus)" if refused_with_genset else "")
    )
    sys.exit(1)
print("property holds")
sys.exit(0)
