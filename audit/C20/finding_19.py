"""C20 finding 2: a COGES accepts a 'generator' of any kind (an ordinary consumer, a PTI/PTO
machine, a storage-type component) - the sibling Genset refuses a generator that is not a power
source - and the plant gives a result."""
import logging, sys
import numpy as np
logging.disable(logging.CRITICAL)
from feems.components_model.component_electric import (
    COGES, ElectricComponent, ElectricMachine, Genset)
from feems.components_model.component_mechanical import COGAS, Engine
from feems.components_model.utility import IntegrationMethod
from feems.system_model import ElectricPowerSystem
from feems.types_for_feems import TypeComponent, TypePower
from feems.fuel import TypeFuel

BSFC = np.array([[0.25, 220.0], [0.5, 200.0], [0.75, 190.0], [1.0, 195.0]])
EFF = np.array([[0.25, 0.93], [0.5, 0.95], [0.75, 0.96], [1.0, 0.965]])


def cogas():
    return COGAS(name="cogas", rated_power=1000.0, rated_speed=900, eff_curve=EFF,
                 gas_turbine_power_curve=np.array([[0.25, 200.0], [1.0, 700.0]]),
                 steam_turbine_power_curve=np.array([[0.25, 50.0], [1.0, 300.0]]),
                 fuel_type=TypeFuel.NATURAL_GAS)


def wrong_generators():
    yield "ElectricMachine declared POWER_CONSUMER", ElectricMachine(
        type_=TypeComponent.GENERATOR, name="gen", rated_power=950.0, rated_speed=900,
        power_type=TypePower.POWER_CONSUMER, switchboard_id=1, eff_curve=EFF)
    yield "ElectricMachine declared PTI_PTO", ElectricMachine(
        type_=TypeComponent.SYNCHRONOUS_MACHINE, name="gen", rated_power=950.0, rated_speed=900,
        power_type=TypePower.PTI_PTO, switchboard_id=1, eff_curve=EFF)
    yield "plain ElectricComponent labelled OTHER_LOAD (a consumer)", ElectricComponent(
        type_=TypeComponent.OTHER_LOAD, name="gen", rated_power=950.0,
        power_type=TypePower.POWER_CONSUMER, switchboard_id=1, eff_curve=EFF)


def plant_result(source):
    load = ElectricComponent(type_=TypeComponent.OTHER_LOAD, name="load", rated_power=500.0,
                             eff_curve=np.array([100.0]), power_type=TypePower.POWER_CONSUMER,
                             switchboard_id=1)
    system = ElectricPowerSystem("plant", [source, load], [])
    load.power_input = np.full(4, 300.0)
    source.status = np.ones(4, dtype=bool)
    source.load_sharing_mode = np.zeros(4)
    system.set_time_interval(60.0, IntegrationMethod.trapezoid)
    system.do_power_balance_calculation()
    res = system.get_fuel_energy_consumption_running_time()
    return res.multi_fuel_consumption_total_kg.total_fuel_consumption


violated = False
for label, generator in wrong_generators():
    # the sibling class refuses the same member
    try:
        Genset("genset", Engine(type_=TypeComponent.AUXILIARY_ENGINE, name="engine",
                                rated_power=1000.0, rated_speed=900, bsfc_curve=BSFC), generator)
        genset_says = "accepted"
    except Exception as e:
        genset_says = f"refused ({type(e).__name__})"
    try:
        fuel = plant_result(COGES("coges", cogas(), generator))
        print(f"{label}: Genset {genset_says}; COGES ACCEPTED, plant result fuel = {fuel:.4f} kg")
        violated = True
    except Exception as e:
        print(f"{label}: Genset {genset_says}; COGES refused ({type(e).__name__}: {str(e)[:60]})")
if violated:
    print("VIOLATION: a component of the wrong kind in the generator role of a COGES is accepted")
    sys.exit(1)
print("property holds")
sys.exit(0)
