"""C20 finding 1: several switchboards that no bus-tie breaker connects are accepted as soon as
the breaker list is not empty (a breaker from a switchboard to itself; a breaker list that leaves
a switchboard out)."""
import logging, sys
import numpy as np
logging.disable(logging.CRITICAL)
from feems.components_model.component_electric import ElectricComponent, ElectricMachine, Genset
from feems.components_model.component_mechanical import Engine
from feems.components_model.utility import IntegrationMethod
from feems.exceptions import ConfigurationError
from feems.system_model import ElectricPowerSystem
from feems.types_for_feems import TypeComponent, TypePower, NOxCalculationMethod

BSFC = np.array([[0.25, 220.0], [0.5, 200.0], [0.75, 190.0], [1.0, 195.0]])
EFF = np.array([[0.25, 0.93], [0.5, 0.95], [0.75, 0.96], [1.0, 0.965]])


def genset(name, swb):
    eng = Engine(type_=TypeComponent.AUXILIARY_ENGINE, name=name + " engine", rated_power=1050.0,
                 rated_speed=900, bsfc_curve=BSFC, nox_calculation_method=NOxCalculationMethod.TIER_2)
    gen = ElectricMachine(type_=TypeComponent.GENERATOR, name=name + " generator", rated_power=1000.0,
                          rated_speed=900, power_type=TypePower.POWER_SOURCE, switchboard_id=swb,
                          eff_curve=EFF)
    return Genset(name, eng, gen)


def load(name, swb):
    return ElectricComponent(type_=TypeComponent.OTHER_LOAD, name=name, rated_power=500.0,
                             eff_curve=np.array([100.0]), power_type=TypePower.POWER_CONSUMER,
                             switchboard_id=swb)


def attempt(label, swbs, breakers):
    gensets = [genset(f"genset {i}", i) for i in swbs]
    loads = [load(f"load {i}", i) for i in swbs]
    try:
        system = ElectricPowerSystem("plant", gensets + loads, breakers)
        for k, ld in enumerate(loads):
            ld.power_input = np.full(4, 100.0 * (k + 1))
        for g in gensets:
            g.status = np.ones(4, dtype=bool)
            g.load_sharing_mode = np.zeros(4)
        system.set_time_interval(60.0, IntegrationMethod.trapezoid)
        system.do_power_balance_calculation()
        res = system.get_fuel_energy_consumption_running_time()
    except Exception as e:  # refused
        print(f"{label}: refused with {type(e).__name__}: {str(e)[:70]}")
        return False
    print(f"{label}: ACCEPTED, fuel {res.multi_fuel_consumption_total_kg.total_fuel_consumption:.3f} kg,"
          f" genset powers {[float(g.power_output[0]) for g in gensets]}")
    return True


# reference: the same plant with an empty breaker list is refused (by design)
ref = attempt("switchboards 1,2 / no breaker            ", [1, 2], [])
violated = False
# single invalidating change: the only 'breaker' joins switchboard 1 with itself, so there is still
# no breaker between the two switchboards
violated |= attempt("switchboards 1,2 / breaker (1,1)         ", [1, 2], [(1, 1)])
# a breaker between 1 and 2, nothing at all on switchboard 3
# [not counted when the script was promoted: a switchboard that no breaker touches is an island of its own, which is what an open breaker
#  gives as well; what is counted is the breaker that joins a switchboard to itself]
attempt("switchboards 1,2,3 / breaker (1,2) only  ", [1, 2, 3], [(1, 2)])
if ref:
    print("(the reference case was accepted too)")
if violated:
    print("VIOLATION: switchboards without a breaker between them were accepted and gave a result")
    sys.exit(1)
print("property holds")
sys.exit(0)
