"""C20 finding 4 - a user-specified fuel whose list of tank-to-wake factors is EMPTY (the factors
are missing) is accepted: Fuel(...) is constructed, and an engine asked for its run point with
such a specification returns a run point with a fuel flow. Only a later request for the CO2
emissions fails, with a bare StopIteration. A list with two contradicting records for the same
consumer class (a superfluous factor) is accepted as well; the second record is silently ignored.

Clause: 'a fuel specification with missing or superfluous factors ... is rejected with an error
and never yields a result'.
Exit status 1 = property violated (current code), 0 = property holds.
"""
import logging
import sys

import numpy as np

logging.disable(logging.CRITICAL)

from feems.components_model.component_mechanical import Engine
from feems.fuel import Fuel, FuelOrigin, FuelSpecifiedBy, GhgEmissionFactorTankToWake, TypeFuel
from feems.types_for_feems import TypeComponent

BSFC = np.array([[0.25, 0.5, 0.75, 1.0], [210.0, 195.0, 190.0, 193.0]]).T
LHV_MJ_PER_G = 0.0427
WELL_TO_TANK = 14.4
FACTOR = GhgEmissionFactorTankToWake(
    co2_factor_gco2_per_gfuel=3.206,
    ch4_factor_gch4_per_gfuel=0.0,
    n2o_factor_gn2o_per_gfuel=0.0,
    c_slip_percent=0.0,
)
OTHER_FACTOR_SAME_CLASS = GhgEmissionFactorTankToWake(
    co2_factor_gco2_per_gfuel=9.999,
    ch4_factor_gch4_per_gfuel=0.0,
    n2o_factor_gn2o_per_gfuel=0.0,
    c_slip_percent=0.0,
)


def run_point(tank_to_wake):
    engine = Engine(
        type_=TypeComponent.MAIN_ENGINE,
        name="engine",
        rated_power=1000.0,
        rated_speed=900.0,
        bsfc_curve=BSFC,
    )
    return engine.get_engine_run_point_from_power_out_kw(
        power_kw=np.array([250.0, 500.0, 750.0]),
        fuel_specified_by=FuelSpecifiedBy.USER,
        lhv_mj_per_g=LHV_MJ_PER_G,
        ghg_emission_factor_well_to_tank_gco2eq_per_mj=WELL_TO_TANK,
        ghg_emission_factor_tank_to_wake=tank_to_wake,
    )


# Valid base: all three factors given, one tank-to-wake record
base = run_point([FACTOR])
co2_base = base.fuel_flow_rate_kg_per_s.get_total_co2_emissions().tank_to_wake_kg_or_gco2eq_per_gfuel
print("base: accepted, fuel flow", base.fuel_flow_rate_kg_per_s.total_fuel_consumption, "kg/s")
print("      tank-to-wake CO2   ", co2_base, "kg/s")

# Sanity: the other two factors, when missing, are refused
for label, kwargs in (
    ("lower heating value missing", dict(lhv_mj_per_g=None)),
    ("well-to-tank factor missing", dict(ghg_emission_factor_well_to_tank_gco2eq_per_mj=None)),
    ("tank-to-wake factors None", dict(ghg_emission_factor_tank_to_wake=None)),
):
    arguments = dict(
        fuel_type=TypeFuel.DIESEL,
        origin=FuelOrigin.FOSSIL,
        fuel_specified_by=FuelSpecifiedBy.USER,
        lhv_mj_per_g=LHV_MJ_PER_G,
        ghg_emission_factor_well_to_tank_gco2eq_per_mj=WELL_TO_TANK,
        ghg_emission_factor_tank_to_wake=[FACTOR],
    )
    arguments.update(kwargs)
    try:
        Fuel(**arguments)
        print(f"{label}: accepted")
    except Exception as error:
        print(f"{label}: rejected with {type(error).__name__}")

violated = False

# Invalidating change 1: the tank-to-wake factors are missing (an empty list)
try:
    Fuel(
        fuel_type=TypeFuel.DIESEL,
        origin=FuelOrigin.FOSSIL,
        fuel_specified_by=FuelSpecifiedBy.USER,
        lhv_mj_per_g=LHV_MJ_PER_G,
        ghg_emission_factor_well_to_tank_gco2eq_per_mj=WELL_TO_TANK,
        ghg_emission_factor_tank_to_wake=[],
    )
    point = run_point([])
except Exception as error:  # the property demands this
    print(f"tank-to-wake factors missing (empty list): rejected with {type(error).__name__}")
else:
    violated = True
    print(
        "tank-to-wake factors missing (empty list): ACCEPTED, the run point is returned with "
        f"fuel flow {point.fuel_flow_rate_kg_per_s.total_fuel_consumption} kg/s"
    )
    try:
        point.fuel_flow_rate_kg_per_s.get_total_co2_emissions()
        print("   and the CO2 emissions are returned as well")
    except BaseException as error:
        print(f"   (asking that run point for its CO2 emissions then fails with {type(error).__name__!s})")

# Invalidating change 2: a superfluous, contradicting record for the same consumer class
try:
    point = run_point([FACTOR, OTHER_FACTOR_SAME_CLASS])
    co2 = point.fuel_flow_rate_kg_per_s.get_total_co2_emissions().tank_to_wake_kg_or_gco2eq_per_gfuel
except Exception as error:  # the property demands this
    print(f"two records for one consumer class: rejected with {type(error).__name__}")
else:
    violated = True
    print(
        "two records for one consumer class (3.206 and 9.999 gCO2/gFuel): ACCEPTED, "
        f"tank-to-wake CO2 {co2} kg/s (the second record is ignored)"
    )

if violated:
    print("PROPERTY VIOLATED: a fuel specification with missing / superfluous factors is accepted and yields a result")
    sys.exit(1)
print("property holds")
sys.exit(0)
