"""C20 finding 1 - a component of the wrong kind for its role is accepted by ElectricPowerSystem
when its type label is PROPULSION_DRIVE.

Base configuration (valid): two gensets and one load on switchboard 1.
Invalidating change (family "a component of the wrong kind for its role"): add a plain
ElectricComponent whose role is PTI/PTO (power_type=TypePower.PTI_PTO).  Only a PTIPTO instance
may have that role; the constructor says so for every other type label ("... specified to be
PTI/PTO but is not a PTIPTO instance" / "does have a proper type").  With the label
PROPULSION_DRIVE the object is accepted, the switchboard treats it as a PTO that shares the load,
and the fuel consumption of the plant is almost halved: power from nowhere.

Exit status 1 = property violated (the invalid configuration yields a result).
"""
import logging
import sys

import numpy as np

logging.disable(logging.CRITICAL)

from feems.components_model.component_electric import ElectricComponent, ElectricMachine, Genset
from feems.components_model.component_mechanical import Engine
from feems.components_model.utility import IntegrationMethod
from feems.system_model import ElectricPowerSystem
from feems.types_for_feems import TypeComponent, TypePower

BSFC = np.array([[0.25, 220.0], [0.5, 200.0], [0.75, 190.0], [1.0, 195.0]])
EFF = np.array([[0.25, 0.93], [0.5, 0.95], [0.75, 0.96], [1.0, 0.96]])
N = 5


def genset(name):
    engine = Engine(
        type_=TypeComponent.AUXILIARY_ENGINE,
        name=name + " engine",
        rated_power=1050.0,
        rated_speed=1500.0,
        bsfc_curve=BSFC,
    )
    generator = ElectricMachine(
        type_=TypeComponent.GENERATOR,
        name=name + " generator",
        rated_power=1000.0,
        rated_speed=1500.0,
        power_type=TypePower.POWER_SOURCE,
        switchboard_id=1,
        eff_curve=EFF,
    )
    return Genset(name, engine, generator)


def load():
    return ElectricComponent(
        type_=TypeComponent.OTHER_LOAD,
        name="hotel",
        rated_power=800.0,
        eff_curve=np.array([1.0]),
        power_type=TypePower.POWER_CONSUMER,
        switchboard_id=1,
    )


def run(extra):
    """Build the plant, balance it and return the fuel consumption in kg."""
    system = ElectricPowerSystem("plant", [genset("g1"), genset("g2"), load()] + extra, [])
    swb = system.switchboards[1]
    system.set_power_input_from_power_output_by_switchboard_id_type_name(
        np.linspace(100.0, 700.0, N), 1, TypePower.POWER_CONSUMER, "hotel"
    )
    for power_type in (TypePower.POWER_SOURCE, TypePower.PTI_PTO):
        k = len(swb.component_by_power_type[power_type.value])
        if k:
            system.set_status_by_switchboard_id_power_type(
                1, power_type, np.ones((N, k), dtype=bool)
            )
            system.set_load_sharing_mode_power_sources_by_switchboard_id_power_type(
                1, power_type, np.zeros((N, k))
            )
    system.set_time_interval(60.0, IntegrationMethod.simpson)
    system.do_power_balance_calculation()
    result = system.get_fuel_energy_consumption_running_time()
    return float(result.fuel_consumption_total_kg), system


def wrong_kind(type_label):
    return ElectricComponent(
        type_=type_label,
        name="not a PTIPTO",
        rated_power=2000.0,
        eff_curve=EFF,
        power_type=TypePower.PTI_PTO,
        switchboard_id=1,
    )


fuel_base, _ = run([])
print(f"valid base plant: accepted, fuel = {fuel_base:.3f} kg")

# Control: the same object with any other type label is refused.
for label in (TypeComponent.PTI_PTO_SYSTEM, TypeComponent.OTHER_LOAD):
    try:
        run([wrong_kind(label)])
        print(f"control with label {label.name}: accepted (unexpected)")
    except Exception as e:  # noqa
        print(f"control with label {label.name}: rejected with {type(e).__name__}: {e}")

violated = False
try:
    fuel, system = run([wrong_kind(TypeComponent.PROPULSION_DRIVE)])
    violated = True
    print(
        "plain ElectricComponent in the PTI/PTO role, label PROPULSION_DRIVE: ACCEPTED, "
        f"fuel = {fuel:.3f} kg ({fuel / fuel_base:.0%} of the base plant)"
    )
    print(
        f"  system.pti_pto = {[c.name for c in system.pti_pto]}, "
        f"system.propulsion_drives = {[c.name for c in system.propulsion_drives]}, "
        "switchboard PTI/PTO category = "
        f"{system.switchboards[1].name_component_by_power_type[TypePower.PTI_PTO.value]}"
    )
except Exception as e:  # noqa
    print(f"label PROPULSION_DRIVE: rejected with {type(e).__name__}: {e}")

# Second variant: an ElectricMachine labelled as a consumer type in the power-source role.
try:
    machine = ElectricMachine(
        type_=TypeComponent.PROPULSION_DRIVE,
        name="drive as source",
        rated_power=2000.0,
        rated_speed=1000.0,
        power_type=TypePower.POWER_SOURCE,
        switchboard_id=1,
        eff_curve=EFF,
    )
    fuel, system = run([machine])
    violated = True
    print(
        "ElectricMachine labelled PROPULSION_DRIVE in the power-source role: ACCEPTED, "
        f"fuel = {fuel:.3f} kg, power sources = {[c.name for c in system.power_sources]}"
    )
except Exception as e:  # noqa
    print(f"ElectricMachine labelled PROPULSION_DRIVE as source: rejected with {type(e).__name__}")

if violated:
    print("PROPERTY VIOLATED: a component of the wrong kind for its role yields a result")
    sys.exit(1)
print("property holds")
sys.exit(0)
