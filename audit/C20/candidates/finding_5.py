"""C20 finding 5 - a single value standing for a constant is NOT accepted for the status and
load-sharing-mode series (the statement explicitly excepts it from the length rule), and because
of that the library's own entry point run_simulation() with
EqualEngineSizeAllClosedSimulationInterface refuses every valid plant with a series longer than
one sample.

Every power source is constructed with load_sharing_mode = np.zeros(1) ("share equally", one value).
(a) Leaving that default next to a 5-sample load and a 5-sample status:        IndexError
(b) A one-row status table (all sources on) next to a 5-sample load:          ValueError
(c) feems.runsimulation.run_simulation(system, EqualEngineSizeAllClosedSimulationInterface(...)):
    the interface sets the status and breaker tables but leaves the sources' one-value sharing
    mode as it is -> IndexError for every N > 1 (N = 1 is accepted).
(d) mechanical side: a one-value main-engine status next to a 5-sample load:  ConfigurationError

Exit status 1 = property violated (consistent inputs of a valid plant are refused).
"""
import logging
import sys

import numpy as np

logging.disable(logging.CRITICAL)

from feems.components_model.component_electric import ElectricComponent, ElectricMachine, Genset
from feems.components_model.component_mechanical import (
    Engine,
    MainEngineForMechanicalPropulsion,
    MechanicalPropulsionComponent,
)
from feems.components_model.utility import IntegrationMethod
from feems.runsimulation import EqualEngineSizeAllClosedSimulationInterface, run_simulation
from feems.system_model import ElectricPowerSystem, MechanicalPropulsionSystem
from feems.types_for_feems import TypeComponent, TypePower

BSFC = np.array([[0.25, 220.0], [0.5, 200.0], [0.75, 190.0], [1.0, 195.0]])
EFF = np.array([[0.25, 0.93], [0.5, 0.95], [0.75, 0.96], [1.0, 0.96]])


def genset(name):
    engine = Engine(
        type_=TypeComponent.AUXILIARY_ENGINE,
        name=name + " engine",
        rated_power=1050.0,
        rated_speed=1500.0,
        bsfc_curve=BSFC,
    )
    generator = ElectricMachine(
        type_=TypeComponent.GENERATOR,
        name=name + " generator",
        rated_power=1000.0,
        rated_speed=1500.0,
        power_type=TypePower.POWER_SOURCE,
        switchboard_id=1,
        eff_curve=EFF,
    )
    return Genset(name, engine, generator)


def plant(n):
    hotel = ElectricComponent(
        type_=TypeComponent.OTHER_LOAD,
        name="hotel",
        rated_power=1600.0,
        eff_curve=np.array([1.0]),
        power_type=TypePower.POWER_CONSUMER,
        switchboard_id=1,
    )
    system = ElectricPowerSystem("plant", [genset("g1"), genset("g2"), hotel], [])
    system.set_power_input_from_power_output_by_switchboard_id_type_name(
        np.linspace(100.0, 1400.0, n), 1, TypePower.POWER_CONSUMER, "hotel"
    )
    system.set_time_interval(60.0, IntegrationMethod.simpson)
    return system


def finish(system):
    system.do_power_balance_calculation()
    return float(system.get_fuel_energy_consumption_running_time().fuel_consumption_total_kg)


def case_control(n=5):
    s = plant(n)
    s.set_status_by_switchboard_id_power_type(1, TypePower.POWER_SOURCE, np.ones((n, 2), dtype=bool))
    s.set_load_sharing_mode_power_sources_by_switchboard_id_power_type(
        1, TypePower.POWER_SOURCE, np.zeros((n, 2))
    )
    return finish(s)


def case_a(n=5):
    s = plant(n)
    s.set_status_by_switchboard_id_power_type(1, TypePower.POWER_SOURCE, np.ones((n, 2), dtype=bool))
    return finish(s)  # sharing mode left at its constructor value np.zeros(1)


def case_b(n=5):
    s = plant(n)
    s.set_status_by_switchboard_id_power_type(1, TypePower.POWER_SOURCE, np.ones((1, 2), dtype=bool))
    s.set_load_sharing_mode_power_sources_by_switchboard_id_power_type(
        1, TypePower.POWER_SOURCE, np.zeros((n, 2))
    )
    return finish(s)


def case_c(n=5):
    s = plant(n)
    interface = EqualEngineSizeAllClosedSimulationInterface(
        swb2n_gensets={1: 2},
        rated_power_gensets=1000.0,
        n_bus_ties=0,
        maximum_allowable_genset_load_percentage=0.8,
    )
    run_simulation(s, interface)
    return float(s.get_fuel_energy_consumption_running_time().fuel_consumption_total_kg)


def case_d(n=5, n_status=1):
    engine = Engine(
        type_=TypeComponent.MAIN_ENGINE, name="e", rated_power=3000.0, rated_speed=750.0, bsfc_curve=BSFC
    )
    propeller = MechanicalPropulsionComponent(
        TypeComponent.PROPELLER_LOAD, TypePower.POWER_CONSUMER, "propeller", 3000.0, np.array([1.0]), 150.0, shaft_line_id=1
    )
    m = MechanicalPropulsionSystem("mech", [MainEngineForMechanicalPropulsion("me", engine, 1), propeller])
    m.set_power_consumer_load_by_power_output_for_given_name_shaft_line_id(
        "propeller", 1, np.linspace(500.0, 2500.0, n)
    )
    m.set_status_main_engine_for_name_shaft_line_id("me", 1, np.ones(n_status, dtype=bool))
    m.set_time_interval(60.0, IntegrationMethod.simpson)
    m.do_power_balance()
    return float(m.get_fuel_energy_consumption_running_time().fuel_consumption_total_kg)


cases = [
    ("control: full-length status and sharing mode", case_control, False),
    ("(a) sharing mode left at its one-value default", case_a, True),
    ("(b) one-row status table", case_b, True),
    ("(c) run_simulation + EqualEngineSizeAllClosedSimulationInterface, N=5", case_c, True),
    ("(c) control: the same with N=1", lambda: case_c(1), False),
    ("(d) mechanical: one-value main engine status", case_d, True),
    ("(d) control: full-length main engine status", lambda: case_d(5, 5), False),
]
refused = 0
for label, fn, is_probe in cases:
    try:
        print(f"{label}: accepted, fuel = {fn():.3f} kg")
    except Exception as e:  # noqa
        print(f"{label}: REFUSED with {type(e).__name__}: {str(e)[:100]}")
        if is_probe:
            refused += 1
        else:
            print("   (a control was refused - unexpected)")

if refused:
    print(f"PROPERTY VIOLATED: {refused} consistent inputs (one value standing for a constant) are refused")
    sys.exit(1)
print("property holds")
sys.exit(0)
