"""C20 finding 4 - interval inputs of the declared types, consistent with the load series, are
refused.

types_for_feems.TimeIntervalList = Union[np.ndarray, List[float], float, int], and the initial
value of ElectricPowerSystem.time_interval_s is the list [].

(a) An interval series given as a list of floats with exactly one interval per load sample
    (integration method sum_with_time) is refused with IntegrationError, although the identical
    numbers as an ndarray are accepted (utility.data_is_valid_for_variable_time_interval only
    knows ndarray).
(b) A constant interval given as a numpy integer / numpy float32 scalar (what one gets from
    `index[1] - index[0]` of an integer time index, or from np.diff(...)[0]) is refused with
    InputError by set_time_interval, although 60, 60.0 and np.float64(60) are accepted
    (isinstance(x, (float, int)) is False for np.int64 / np.float32).

Exit status 1 = property violated (consistent inputs of a supported configuration are refused).
"""
import logging
import sys

import numpy as np

logging.disable(logging.CRITICAL)

from feems.components_model.component_electric import ElectricComponent, ElectricMachine, Genset
from feems.components_model.component_mechanical import Engine
from feems.components_model.utility import IntegrationMethod
from feems.system_model import ElectricPowerSystem
from feems.types_for_feems import TypeComponent, TypePower

BSFC = np.array([[0.25, 220.0], [0.5, 200.0], [0.75, 190.0], [1.0, 195.0]])
EFF = np.array([[0.25, 0.93], [0.5, 0.95], [0.75, 0.96], [1.0, 0.96]])
N = 5


def plant():
    engine = Engine(
        type_=TypeComponent.AUXILIARY_ENGINE,
        name="engine",
        rated_power=1050.0,
        rated_speed=1500.0,
        bsfc_curve=BSFC,
    )
    generator = ElectricMachine(
        type_=TypeComponent.GENERATOR,
        name="generator",
        rated_power=1000.0,
        rated_speed=1500.0,
        power_type=TypePower.POWER_SOURCE,
        switchboard_id=1,
        eff_curve=EFF,
    )
    hotel = ElectricComponent(
        type_=TypeComponent.OTHER_LOAD,
        name="hotel",
        rated_power=800.0,
        eff_curve=np.array([1.0]),
        power_type=TypePower.POWER_CONSUMER,
        switchboard_id=1,
    )
    system = ElectricPowerSystem("plant", [Genset("genset", engine, generator), hotel], [])
    system.set_power_input_from_power_output_by_switchboard_id_type_name(
        np.linspace(100.0, 700.0, N), 1, TypePower.POWER_CONSUMER, "hotel"
    )
    system.set_status_by_switchboard_id_power_type(
        1, TypePower.POWER_SOURCE, np.ones((N, 1), dtype=bool)
    )
    system.set_load_sharing_mode_power_sources_by_switchboard_id_power_type(
        1, TypePower.POWER_SOURCE, np.zeros((N, 1))
    )
    return system


def run(interval, method):
    system = plant()
    system.set_time_interval(interval, method)
    system.do_power_balance_calculation()
    result = system.get_fuel_energy_consumption_running_time()
    return float(result.fuel_consumption_total_kg), float(result.duration_s)


cases = [
    ("(a) control ndarray of 5 intervals, sum_with_time", np.full(N, 60.0), IntegrationMethod.sum_with_time, False),
    ("(a) list of 5 floats, sum_with_time", [60.0] * N, IntegrationMethod.sum_with_time, True),
    ("(b) control python int 60, simpson", 60, IntegrationMethod.simpson, False),
    ("(b) control np.float64(60), simpson", np.float64(60), IntegrationMethod.simpson, False),
    ("(b) np.int64(60), simpson", np.int64(60), IntegrationMethod.simpson, True),
    ("(b) np.float32(60), trapezoid", np.float32(60), IntegrationMethod.trapezoid, True),
]
refused = 0
for label, interval, method, is_probe in cases:
    try:
        fuel, duration = run(interval, method)
        print(f"{label}: accepted, fuel = {fuel:.3f} kg, duration = {duration:.0f} s")
    except Exception as e:  # noqa
        print(f"{label}: REFUSED with {type(e).__name__}: {str(e)[:90]}")
        if is_probe:
            refused += 1
        else:
            print("   (a control was refused - unexpected)")

if refused:
    print(f"PROPERTY VIOLATED: {refused} consistent interval inputs of the declared types are refused")
    sys.exit(1)
print("property holds")
sys.exit(0)
