"""C20 finding 2 - MechanicalPropulsionSystem / ShaftLine never check the kind of a component
against its role: a plain MechanicalPropulsionComponent declared as a POWER_SOURCE is taken for a
main engine by the shaft-line balance.

Base configuration (valid): one main engine and one propeller on shaft line 1.
Invalidating change (family "a component of the wrong kind for its role"): add a
MechanicalPropulsionComponent (a load class: gearbox, propeller, pump ...) whose power_type is
TypePower.POWER_SOURCE.  Only MainEngineForMechanicalPropulsion /
MainEngineWithGearBoxForMechanicalPropulsion can be a power source of a shaft line (the electric
system raises TypeError in the analogous case).  Here the object is accepted, carries half of the
propeller load in the balance, burns no fuel, and a finite result comes out.

Exit status 1 = property violated.
"""
import logging
import sys

import numpy as np

logging.disable(logging.CRITICAL)

from feems.components_model.component_mechanical import (
    Engine,
    MainEngineForMechanicalPropulsion,
    MechanicalPropulsionComponent,
)
from feems.components_model.utility import IntegrationMethod
from feems.system_model import MechanicalPropulsionSystem
from feems.types_for_feems import TypeComponent, TypePower

BSFC = np.array([[0.25, 220.0], [0.5, 200.0], [0.75, 190.0], [1.0, 195.0]])


def build(extra, n):
    engine = Engine(
        type_=TypeComponent.MAIN_ENGINE,
        name="engine",
        rated_power=3000.0,
        rated_speed=750.0,
        bsfc_curve=BSFC,
    )
    main_engine = MainEngineForMechanicalPropulsion("main engine", engine, shaft_line_id=1)
    propeller = MechanicalPropulsionComponent(
        TypeComponent.PROPELLER_LOAD,
        TypePower.POWER_CONSUMER,
        "propeller",
        3000.0,
        np.array([1.0]),
        150.0,
        shaft_line_id=1,
    )
    system = MechanicalPropulsionSystem("mech", [main_engine, propeller] + extra)
    system.set_power_consumer_load_by_power_output_for_given_name_shaft_line_id(
        "propeller", 1, np.linspace(500.0, 2500.0, n)
    )
    system.set_status_main_engine_for_name_shaft_line_id(
        "main engine", 1, np.ones(n, dtype=bool)
    )
    return system


def run(system):
    system.set_time_interval(60.0, IntegrationMethod.simpson)
    system.do_power_balance()
    result = system.get_fuel_energy_consumption_running_time()
    return float(result.fuel_consumption_total_kg)


def wrong_kind(n):
    component = MechanicalPropulsionComponent(
        TypeComponent.OTHER_MECHANICAL_LOAD,  # PROPELLER_LOAD behaves the same way
        TypePower.POWER_SOURCE,  # <- a role only a main engine can have
        "pump declared as source",
        3000.0,
        np.array([1.0]),
        150.0,
        shaft_line_id=1,
    )
    # its own (zero) load series with the same length as the others: consistent inputs
    component.set_power_output_from_input(np.zeros(n))
    return component


violated = False
for n in (5, 1):
    fuel_base = run(build([], n))
    print(f"n={n}: valid base system accepted, fuel = {fuel_base:.3f} kg")
    try:
        system = build([wrong_kind(n)], n)
        fuel = run(system)
        violated = True
        shaft_line = system.shaft_line[0]
        print(
            f"n={n}: load-class component in the power-source role: ACCEPTED, fuel = {fuel:.3f} kg "
            f"({fuel / fuel_base:.0%} of the base system)"
        )
        print(
            "   shaft line power sources:",
            shaft_line.name_component_by_power_type[TypePower.POWER_SOURCE],
            "| system.main_engines:",
            [c.name for c in system.main_engines],
            "| system.mechanical_loads:",
            [c.name for c in system.mechanical_loads],
        )
        print("   main engine power:", np.round(system.main_engines[0].power_output, 1))
        print("   propeller power  :", np.round(system.mechanical_loads[0].power_input, 1))
    except Exception as e:  # noqa
        print(f"n={n}: rejected with {type(e).__name__}: {e}")

if violated:
    print("PROPERTY VIOLATED: a component of the wrong kind for its role yields a result")
    sys.exit(1)
print("property holds")
sys.exit(0)
