"""C20 finding 3 - a valid hybrid plant (and a valid mechanical plant with a separate electric
system) is refused by its own public interface.

HybridPropulsionSystem / MechanicalPropulsionSystemWithElectricPowerSystem take the time interval
as an ARGUMENT of get_fuel_energy_consumption_running_time(time_interval_s, ...), i.e. after the
balance.  But do_power_balance_calculation() calls the electric system's
validate_inputs_before_power_balance_calculation(), which raises InputError("Time interval should
be set. It is [].") as long as electric_system.time_interval_s is the initial [].  The balance
does not use the interval at all.  The wrappers inherit MachinerySystem.set_time_interval, but
that only sets an attribute of the wrapper, so calling it does not help either.

Exit status 1 = property violated (a configuration built only from supported components with
consistent inputs is refused).
"""
import logging
import sys

import numpy as np

logging.disable(logging.CRITICAL)

from feems.components_model.component_electric import (
    ElectricComponent,
    ElectricMachine,
    Genset,
    PTIPTO,
)
from feems.components_model.component_mechanical import (
    Engine,
    MainEngineForMechanicalPropulsion,
    MechanicalPropulsionComponent,
)
from feems.components_model.utility import IntegrationMethod
from feems.system_model import (
    ElectricPowerSystem,
    HybridPropulsionSystem,
    MechanicalPropulsionSystem,
    MechanicalPropulsionSystemWithElectricPowerSystem,
)
from feems.types_for_feems import TypeComponent, TypePower

BSFC = np.array([[0.25, 220.0], [0.5, 200.0], [0.75, 190.0], [1.0, 195.0]])
EFF = np.array([[0.25, 0.93], [0.5, 0.95], [0.75, 0.96], [1.0, 0.96]])
N = 5


def genset(name):
    engine = Engine(
        type_=TypeComponent.AUXILIARY_ENGINE,
        name=name + " engine",
        rated_power=1050.0,
        rated_speed=1500.0,
        bsfc_curve=BSFC,
    )
    generator = ElectricMachine(
        type_=TypeComponent.GENERATOR,
        name=name + " generator",
        rated_power=1000.0,
        rated_speed=1500.0,
        power_type=TypePower.POWER_SOURCE,
        switchboard_id=1,
        eff_curve=EFF,
    )
    return Genset(name, engine, generator)


def pti_pto():
    machine = ElectricMachine(
        type_=TypeComponent.SYNCHRONOUS_MACHINE,
        name="shaft machine",
        rated_power=500.0,
        rated_speed=1000.0,
        power_type=TypePower.PTI_PTO,
        switchboard_id=1,
        eff_curve=EFF,
    )
    converter = ElectricComponent(
        type_=TypeComponent.POWER_CONVERTER,
        name="converter",
        rated_power=500.0,
        eff_curve=EFF,
        power_type=TypePower.PTI_PTO,
        switchboard_id=1,
    )
    return PTIPTO("pti/pto", [converter, machine], 1, 500.0, 1000.0, shaft_line_id=1)


def build(hybrid: bool):
    shaft_machine = pti_pto()
    hotel = ElectricComponent(
        type_=TypeComponent.OTHER_LOAD,
        name="hotel",
        rated_power=800.0,
        eff_curve=np.array([1.0]),
        power_type=TypePower.POWER_CONSUMER,
        switchboard_id=1,
    )
    electric_components = [genset("g1"), genset("g2"), hotel]
    engine = Engine(
        type_=TypeComponent.MAIN_ENGINE,
        name="engine",
        rated_power=3000.0,
        rated_speed=750.0,
        bsfc_curve=BSFC,
    )
    propeller = MechanicalPropulsionComponent(
        TypeComponent.PROPELLER_LOAD,
        TypePower.POWER_CONSUMER,
        "propeller",
        3000.0,
        np.array([1.0]),
        150.0,
        shaft_line_id=1,
    )
    mechanical_components = [
        MainEngineForMechanicalPropulsion("main engine", engine, shaft_line_id=1),
        propeller,
    ]
    if hybrid:
        electric_components.append(shaft_machine)
        mechanical_components.append(shaft_machine)
    electric = ElectricPowerSystem("electric", electric_components, [])
    mechanical = MechanicalPropulsionSystem("mechanical", mechanical_components)
    electric.set_power_input_from_power_output_by_switchboard_id_type_name(
        np.linspace(100.0, 700.0, N), 1, TypePower.POWER_CONSUMER, "hotel"
    )
    electric.set_status_by_switchboard_id_power_type(
        1, TypePower.POWER_SOURCE, np.ones((N, 2), dtype=bool)
    )
    electric.set_load_sharing_mode_power_sources_by_switchboard_id_power_type(
        1, TypePower.POWER_SOURCE, np.zeros((N, 2))
    )
    mechanical.set_power_consumer_load_by_power_output_for_given_name_shaft_line_id(
        "propeller", 1, np.linspace(500.0, 2500.0, N)
    )
    mechanical.set_status_main_engine_for_name_shaft_line_id(
        "main engine", 1, np.ones(N, dtype=bool)
    )
    if hybrid:
        electric.set_status_by_switchboard_id_power_type(
            1, TypePower.PTI_PTO, np.ones((N, 1), dtype=bool)
        )
        electric.set_load_sharing_mode_power_sources_by_switchboard_id_power_type(
            1, TypePower.PTI_PTO, np.ones((N, 1))
        )
        mechanical.set_power_input_pti_pto_by_value_for_name_shaft_line_id(
            "pti/pto", 1, np.full(N, -200.0)
        )
        mechanical.set_full_pti_mode_for_name_shaft_line_id(
            "pti/pto", 1, np.zeros(N, dtype=bool)
        )
        return HybridPropulsionSystem("hybrid", electric, mechanical)
    return MechanicalPropulsionSystemWithElectricPowerSystem("conventional", electric, mechanical)


def fuel(result):
    return (
        float(result.electric_system.fuel_consumption_total_kg),
        float(result.mechanical_system.fuel_consumption_total_kg),
    )


refused = 0
for hybrid in (True, False):
    kind = "HybridPropulsionSystem" if hybrid else "MechanicalPropulsionSystemWithElectricPowerSystem"
    # (a) the interface of the class as documented
    system = build(hybrid)
    try:
        system.do_power_balance_calculation()
        print(kind, "(a) own interface: accepted,", fuel(system.get_fuel_energy_consumption_running_time(60.0)))
    except Exception as e:  # noqa
        refused += 1
        print(kind, f"(a) own interface: REFUSED with {type(e).__name__}: {e}")
    # (b) after the wrapper's own set_time_interval
    system = build(hybrid)
    try:
        system.set_time_interval(60.0, IntegrationMethod.simpson)
        system.do_power_balance_calculation()
        print(kind, "(b) after system.set_time_interval: accepted,", fuel(system.get_fuel_energy_consumption_running_time(60.0)))
    except Exception as e:  # noqa
        refused += 1
        print(kind, f"(b) after system.set_time_interval(60.0): REFUSED with {type(e).__name__}: {e}")
    # (c) control: reaching into the electric sub-system makes the same inputs acceptable
    system = build(hybrid)
    system.electric_system.set_time_interval(60.0, IntegrationMethod.simpson)
    system.do_power_balance_calculation()
    print(kind, "(c) control, electric_system.set_time_interval first: accepted, fuel (el, mech) =", fuel(system.get_fuel_energy_consumption_running_time(60.0)))

if refused:
    print("PROPERTY VIOLATED: a valid configuration with consistent inputs is refused")
    sys.exit(1)
print("property holds")
sys.exit(0)
