"""C20 finding 1 - a genset whose generator is an electric machine of the CONSUMER kind (a motor)
is accepted, and the plant yields a finite result in which the engine delivers LESS shaft power
than the genset delivers electric power (fuel about 9 % too low).

Clause: 'a component of the wrong kind for its role ... is rejected with an error and never
yields a result'.
Exit status 1 = property violated (current code), 0 = property holds.
"""
import logging
import sys

import numpy as np

logging.disable(logging.CRITICAL)

from feems.components_model.component_electric import ElectricComponent, ElectricMachine, Genset
from feems.components_model.component_mechanical import Engine
from feems.components_model.utility import IntegrationMethod
from feems.system_model import ElectricPowerSystem
from feems.types_for_feems import TypeComponent, TypePower

EFF_MACHINE = np.array([[1.00, 0.75, 0.50, 0.25], [0.9585, 0.9596, 0.9534, 0.9299]]).T
BSFC = np.array([[0.25, 0.5, 0.75, 1.0], [210.0, 195.0, 190.0, 193.0]]).T
LOAD_KW = np.array([100.0, 300.0, 500.0, 700.0])


def plant(power_type_of_generator: TypePower):
    engine = Engine(
        type_=TypeComponent.AUXILIARY_ENGINE,
        name="aux engine",
        rated_power=1100.0,
        rated_speed=900.0,
        bsfc_curve=BSFC,
    )
    generator = ElectricMachine(
        type_=TypeComponent.GENERATOR,
        name="generator",
        rated_power=1000.0,
        rated_speed=900.0,
        power_type=power_type_of_generator,
        switchboard_id=1,
        eff_curve=EFF_MACHINE,
    )
    genset = Genset("genset 1", engine, generator)
    load = ElectricComponent(
        type_=TypeComponent.OTHER_LOAD,
        name="hotel load",
        rated_power=800.0,
        eff_curve=np.array([1.0]),
        power_type=TypePower.POWER_CONSUMER,
        switchboard_id=1,
    )
    system = ElectricPowerSystem("plant", [genset, load], [])
    genset.status = np.ones(LOAD_KW.size, dtype=bool)
    load.set_power_input_from_output(LOAD_KW)
    system.set_time_interval(60.0, IntegrationMethod.simpson)
    system.do_power_balance_calculation()
    result = system.get_fuel_energy_consumption_running_time()
    return genset, engine, result


# The valid base configuration: the generator is a power source
genset, engine, result = plant(TypePower.POWER_SOURCE)
fuel_base = float(result.fuel_consumption_total_kg)
print("base (generator is a POWER_SOURCE): accepted")
print("   electric power of the genset :", genset.power_output)
print("   shaft power of the engine    :", np.round(engine.power_output, 2))
print("   fuel [kg]                    :", round(fuel_base, 4))
assert np.all(engine.power_output > genset.power_output)

# The single invalidating change: the generator is an electric machine of the consumer kind
violated = False
for wrong_kind in (TypePower.POWER_CONSUMER, TypePower.PTI_PTO):
    try:
        genset, engine, result = plant(wrong_kind)
    except Exception as error:  # the property demands this
        print(f"generator of kind {wrong_kind.name}: rejected with {type(error).__name__}")
        continue
    violated = True
    fuel = float(result.fuel_consumption_total_kg)
    print(f"generator of kind {wrong_kind.name}: ACCEPTED, a result is returned")
    print("   electric power of the genset :", genset.power_output)
    print("   shaft power of the engine    :", np.round(engine.power_output, 2))
    print(
        "   fuel [kg]                    :",
        round(fuel, 4),
        f"({100 * (fuel / fuel_base - 1):+.1f} % against the base)",
    )
    if np.all(engine.power_output < genset.power_output):
        print("   -> the engine delivers less shaft power than the genset delivers electric power")

if violated:
    print("PROPERTY VIOLATED: a component of the wrong kind for its role is accepted and yields a result")
    sys.exit(1)
print("property holds")
sys.exit(0)
