"""C20 finding 3 - an electric machine whose component type says it is a LOAD (OTHER_LOAD,
OTHER_MECHANICAL_LOAD, PROPELLER_LOAD), a SHORE_POWER connection or a PTI_PTO_SYSTEM is accepted
in the role of a power source of a switchboard (only its python class is looked at), the bus is
balanced on it and a finite result is returned: the plant then runs without burning any fuel and
without any energy input being booked.

Clause: 'a component of the wrong kind for its role ... is rejected with an error and never
yields a result'.
Exit status 1 = property violated (current code), 0 = property holds.
"""
import logging
import sys

import numpy as np

logging.disable(logging.CRITICAL)

from feems.components_model.component_electric import ElectricComponent, ElectricMachine
from feems.components_model.utility import IntegrationMethod
from feems.system_model import ElectricPowerSystem
from feems.types_for_feems import TypeComponent, TypePower

EFF_MACHINE = np.array([[1.00, 0.75, 0.50, 0.25], [0.9585, 0.9596, 0.9534, 0.9299]]).T
LOAD_KW = np.array([100.0, 300.0, 500.0, 700.0])


def plant(type_of_source: TypeComponent):
    source = ElectricMachine(
        type_=type_of_source,
        name="source",
        rated_power=1000.0,
        rated_speed=900.0,
        power_type=TypePower.POWER_SOURCE,
        switchboard_id=1,
        eff_curve=EFF_MACHINE,
    )
    load = ElectricComponent(
        type_=TypeComponent.OTHER_LOAD,
        name="hotel load",
        rated_power=800.0,
        eff_curve=np.array([1.0]),
        power_type=TypePower.POWER_CONSUMER,
        switchboard_id=1,
    )
    system = ElectricPowerSystem("plant", [source, load], [])
    source.status = np.ones(LOAD_KW.size, dtype=bool)
    load.set_power_input_from_output(LOAD_KW)
    system.set_time_interval(60.0, IntegrationMethod.simpson)
    system.do_power_balance_calculation()
    power_delivered = np.array(source.power_output, dtype=float)
    result = system.get_fuel_energy_consumption_running_time()
    return power_delivered, result


# The valid base configuration: a shaft generator (component type GENERATOR) feeds the bus; its
# mechanical energy input is booked
power, result = plant(TypeComponent.GENERATOR)
print(
    f"base, source of type GENERATOR: accepted, delivers {power} kW, "
    f"mechanical energy input {result.energy_input_mechanical_total_mj:.1f} MJ"
)
assert result.energy_input_mechanical_total_mj > 0

violations = []
for wrong_type in (
    TypeComponent.OTHER_LOAD,
    TypeComponent.OTHER_MECHANICAL_LOAD,
    TypeComponent.PROPELLER_LOAD,
    TypeComponent.SHORE_POWER,
    TypeComponent.PTI_PTO_SYSTEM,
):
    try:
        power, result = plant(wrong_type)
    except Exception as error:  # the property demands this
        print(f"source of type {wrong_type.name}: rejected with {type(error).__name__}")
        continue
    violations.append(wrong_type.name)
    print(
        f"source of type {wrong_type.name}: ACCEPTED, delivers {power} kW; result: fuel "
        f"{float(result.fuel_consumption_total_kg):.3f} kg, mechanical energy input "
        f"{result.energy_input_mechanical_total_mj:.1f} MJ, electric energy input "
        f"{result.energy_input_electric_total_mj:.1f} MJ, consumers "
        f"{result.energy_consumption_auxiliary_total_mj:.1f} MJ"
    )

if violations:
    print(
        "PROPERTY VIOLATED: components of the wrong kind for the role of a power source are "
        f"accepted and yield a result: {violations}"
    )
    sys.exit(1)
print("property holds")
sys.exit(0)
