"""C20 finding 1 - mechanical side: a single value is never taken for a constant.

A MechanicalPropulsionSystem whose main engine keeps the status it is constructed with
(np.ones(1): 'on'), or that has a second shaft load that is idle / constant (one value), is
refused as soon as the propeller load is a series. The same plant with the single values
written out N times is accepted. The property excepts 'a single value standing for a constant'
from the length rule and demands that consistent inputs are accepted.
Exit status 1 = property violated.
"""
import logging
import sys

import numpy as np

logging.disable(logging.CRITICAL)

from feems.components_model.component_electric import ElectricMachine, PTIPTO
from feems.components_model.component_mechanical import (
    Engine,
    MainEngineForMechanicalPropulsion,
    MechanicalPropulsionComponent,
)
from feems.components_model.utility import IntegrationMethod
from feems.system_model import MechanicalPropulsionSystem
from feems.types_for_feems import TypeComponent, TypePower

N = 5
BSFC = np.array([[0.25, 220.0], [0.5, 200.0], [0.75, 190.0], [1.0, 195.0]])
EFF = np.array([[0.25, 0.92], [0.5, 0.95], [0.75, 0.96], [1.0, 0.955]])
PROPELLER_KW = np.linspace(500.0, 2000.0, N)


def plant(with_aux=False, with_pti_pto=False):
    engine = Engine(
        type_=TypeComponent.MAIN_ENGINE, name="engine", rated_power=3000.0, rated_speed=500.0,
        bsfc_curve=BSFC,
    )
    main_engine = MainEngineForMechanicalPropulsion("ME1", engine, shaft_line_id=1)
    propeller = MechanicalPropulsionComponent(
        TypeComponent.PROPELLER_LOAD, TypePower.POWER_CONSUMER, "propeller", 3000.0,
        np.array([0.99]), shaft_line_id=1,
    )
    components = {"ME1": main_engine, "propeller": propeller}
    if with_aux:
        components["pump"] = MechanicalPropulsionComponent(
            TypeComponent.OTHER_MECHANICAL_LOAD, TypePower.POWER_CONSUMER, "pump", 200.0,
            np.array([0.95]), shaft_line_id=1,
        )
    if with_pti_pto:
        machine = ElectricMachine(
            type_=TypeComponent.SYNCHRONOUS_MACHINE, name="machine", rated_power=500.0,
            rated_speed=900.0, power_type=TypePower.PTI_PTO, switchboard_id=1, eff_curve=EFF,
        )
        components["pto"] = PTIPTO("pto", [machine], 1, 500.0, 900.0, shaft_line_id=1)
    system = MechanicalPropulsionSystem("mech", list(components.values()))
    system.set_time_interval(60.0, IntegrationMethod.simpson)
    propeller.set_power_input_from_output(PROPELLER_KW)
    return system, components


def run(system):
    system.do_power_balance()
    result = system.get_fuel_energy_consumption_running_time()
    fuel = float(np.sum(result.fuel_consumption_total_kg))
    assert np.isfinite(fuel)
    return fuel


def case(label, kwargs, single, series):
    """single / series prepare the same inputs, as one value and written out N times"""
    system, components = plant(**kwargs)
    series(components)
    reference = run(system)
    system, components = plant(**kwargs)
    single(components)
    try:
        fuel = run(system)
    except Exception as error:
        first_line = str(error).replace("\n", " ")[:160]
        print(f"VIOLATION {label}: refused with {type(error).__name__}: {first_line}")
        print(f"          (the same inputs written out {N} times are accepted: {reference:.4f} kg)")
        return True
    ok = np.isclose(fuel, reference, rtol=1e-9)
    print(f"{'ok       ' if ok else 'VIOLATION'} {label}: {fuel:.4f} kg, written out: {reference:.4f} kg")
    return not ok


violations = []

# (a) the main engine keeps the status it was constructed with: np.ones(1), 'on'
violations.append(
    case(
        "main engine keeps its default status [True]",
        {},
        single=lambda c: None,
        series=lambda c: setattr(c["ME1"], "status", np.ones(N, dtype=bool)),
    )
)

# (b) a second load on the shaft is idle and keeps its default power [0]
def status_series(c):
    c["ME1"].status = np.ones(N, dtype=bool)


def aux_series(value):
    def prepare(c):
        status_series(c)
        c["pump"].set_power_input_from_output(np.full(N, value))

    return prepare


def aux_single(value):
    def prepare(c):
        status_series(c)
        if value is not None:
            c["pump"].set_power_input_from_output(np.array([value]))

    return prepare


violations.append(
    case(
        "idle shaft pump keeps its default power [0]",
        {"with_aux": True},
        aux_single(None),
        aux_series(0.0),
    )
)
violations.append(
    case(
        "shaft pump with a constant load given as [100.0]",
        {"with_aux": True},
        aux_single(100.0),
        aux_series(100.0),
    )
)

# (c) an idle PTI/PTO keeps its default full_pti_mode [False] and status [True]
def pto_series(c):
    status_series(c)
    c["pto"].set_power_input_from_output(np.zeros(N))
    c["pto"].status = np.ones(N, dtype=bool)
    c["pto"].full_pti_mode = np.zeros(N, dtype=bool)


def pto_single(c):
    status_series(c)
    c["pto"].set_power_input_from_output(np.zeros(N))


violations.append(
    case(
        "PTI/PTO keeps its default status and full_pti_mode",
        {"with_pti_pto": True},
        pto_single,
        pto_series,
    )
)

if any(violations):
    print("Property C20 violated: consistent inputs with single values are refused.")
    sys.exit(1)
print("Property holds.")
sys.exit(0)
