"""C20 finding 2 - a combined plant whose electric and mechanical load series have different
lengths is accepted.

MechanicalPropulsionSystemWithElectricPowerSystem has one time interval for both halves, but
nothing compares the two halves: with 10 samples of electric load and 7 samples of propeller
load (scalar time step) the balance runs and get_fuel_energy_consumption_running_time returns a
result whose two halves cover 600 s and 420 s. The property demands that load series whose
lengths disagree are rejected with an error and never yield a result. (A HybridPropulsionSystem
with the same two halves is refused - there the shared PTI/PTO is compared with both sides.)
Exit status 1 = property violated.
"""
import logging
import sys

import numpy as np

logging.disable(logging.CRITICAL)

from feems.components_model.component_electric import ElectricComponent, ElectricMachine, Genset
from feems.components_model.component_mechanical import (
    Engine,
    MainEngineForMechanicalPropulsion,
    MechanicalPropulsionComponent,
)
from feems.components_model.utility import IntegrationMethod
from feems.system_model import (
    ElectricPowerSystem,
    MechanicalPropulsionSystem,
    MechanicalPropulsionSystemWithElectricPowerSystem,
)
from feems.types_for_feems import TypeComponent, TypePower

BSFC = np.array([[0.25, 220.0], [0.5, 200.0], [0.75, 190.0], [1.0, 195.0]])
EFF = np.array([[0.25, 0.92], [0.5, 0.95], [0.75, 0.96], [1.0, 0.955]])


def plant(n_electric, n_mechanical):
    aux_engine = Engine(
        type_=TypeComponent.AUXILIARY_ENGINE, name="aux engine", rated_power=1100.0,
        rated_speed=900.0, bsfc_curve=BSFC,
    )
    generator = ElectricMachine(
        type_=TypeComponent.GENERATOR, name="generator", rated_power=1000.0, rated_speed=900.0,
        power_type=TypePower.POWER_SOURCE, switchboard_id=1, eff_curve=EFF,
    )
    genset = Genset("genset", aux_engine, generator)
    hotel = ElectricComponent(
        TypeComponent.OTHER_LOAD, "hotel", 800.0, np.array([0.98]), TypePower.POWER_CONSUMER,
        switchboard_id=1,
    )
    electric = ElectricPowerSystem("electric", [genset, hotel], [])
    engine = Engine(
        type_=TypeComponent.MAIN_ENGINE, name="engine", rated_power=3000.0, rated_speed=500.0,
        bsfc_curve=BSFC,
    )
    main_engine = MainEngineForMechanicalPropulsion("ME1", engine, shaft_line_id=1)
    propeller = MechanicalPropulsionComponent(
        TypeComponent.PROPELLER_LOAD, TypePower.POWER_CONSUMER, "propeller", 3000.0,
        np.array([0.99]), shaft_line_id=1,
    )
    mechanical = MechanicalPropulsionSystem("mechanical", [main_engine, propeller])
    system = MechanicalPropulsionSystemWithElectricPowerSystem("vessel", electric, mechanical)
    system.set_time_interval(60.0, IntegrationMethod.simpson)
    # electric half: n_electric samples
    hotel.set_power_input_from_output(np.linspace(100.0, 500.0, n_electric))
    genset.status = np.ones(n_electric, dtype=bool)
    # mechanical half: n_mechanical samples
    propeller.set_power_input_from_output(np.linspace(500.0, 2000.0, n_mechanical))
    main_engine.status = np.ones(n_mechanical, dtype=bool)
    return system


def run(n_electric, n_mechanical):
    system = plant(n_electric, n_mechanical)
    system.do_power_balance_calculation()
    return system.get_fuel_energy_consumption_running_time(60.0)


result = run(10, 10)
print(
    "base plant, 10 samples on both sides: accepted, durations",
    result.electric_system.duration_s, "s and", result.mechanical_system.duration_s, "s",
)

try:
    result = run(10, 7)
except Exception as error:
    print(f"10 electric / 7 mechanical samples: refused with {type(error).__name__}: {error}")
    print("Property holds.")
    sys.exit(0)

print(
    "10 electric / 7 mechanical samples with one time step of 60 s: ACCEPTED; the result "
    f"covers {result.electric_system.duration_s} s on the electric side "
    f"({float(np.sum(result.electric_system.fuel_consumption_total_kg)):.3f} kg fuel) and "
    f"{result.mechanical_system.duration_s} s on the mechanical side "
    f"({float(np.sum(result.mechanical_system.fuel_consumption_total_kg)):.3f} kg fuel)"
)
print("Property C20 violated: load series whose lengths disagree yield a result.")
sys.exit(1)
