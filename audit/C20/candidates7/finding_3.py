"""C20 finding 3 - electric side: an energy storage (or PTI/PTO) that keeps its single-value
load sharing mode or status is refused over a series.

A Battery is constructed with load_sharing_mode = np.zeros(1) ('shares the bus load like the
gensets'). With a load series of N > 1 samples the balance refuses it
(validate_inputs_before_power_balance_calculation wants exactly N values), and a status given
as the single value [True] is refused in Switchboard.set_power_out_power_sources. For the
gensets the same single values are accepted (they are broadcast). The property excepts a single
value standing for a constant and demands that consistent inputs are accepted.
Exit status 1 = property violated.
"""
import logging
import sys

import numpy as np

logging.disable(logging.CRITICAL)

from feems.components_model.component_electric import (
    Battery,
    ElectricComponent,
    ElectricMachine,
    Genset,
    SuperCapacitor,
)
from feems.components_model.component_mechanical import Engine
from feems.components_model.utility import IntegrationMethod
from feems.system_model import ElectricPowerSystem
from feems.types_for_feems import TypeComponent, TypePower

N = 6
BSFC = np.array([[0.25, 220.0], [0.5, 200.0], [0.75, 190.0], [1.0, 195.0]])
EFF = np.array([[0.25, 0.92], [0.5, 0.95], [0.75, 0.96], [1.0, 0.955]])


def plant(storage_class):
    aux_engine = Engine(
        type_=TypeComponent.AUXILIARY_ENGINE, name="aux engine", rated_power=1100.0,
        rated_speed=900.0, bsfc_curve=BSFC,
    )
    generator = ElectricMachine(
        type_=TypeComponent.GENERATOR, name="generator", rated_power=1000.0, rated_speed=900.0,
        power_type=TypePower.POWER_SOURCE, switchboard_id=1, eff_curve=EFF,
    )
    genset = Genset("genset", aux_engine, generator)
    hotel = ElectricComponent(
        TypeComponent.OTHER_LOAD, "hotel", 800.0, np.array([0.98]), TypePower.POWER_CONSUMER,
        switchboard_id=1,
    )
    if storage_class is Battery:
        storage = Battery("storage", 500.0, 1.0, 1.0, switchboard_id=1)
    else:
        storage = SuperCapacitor("storage", 2000.0, 500.0, switchboard_id=1)
    system = ElectricPowerSystem("electric", [genset, hotel, storage], [])
    system.set_time_interval(60.0, IntegrationMethod.simpson)
    hotel.set_power_input_from_output(np.linspace(100.0, 500.0, N))
    # single values for the genset: these are accepted
    genset.status = np.ones(N, dtype=bool)
    return system, storage


def run(system):
    system.do_power_balance_calculation()
    result = system.get_fuel_energy_consumption_running_time()
    values = [
        float(np.sum(result.fuel_consumption_total_kg)),
        float(result.energy_stored_total_mj),
    ]
    assert np.all(np.isfinite(values))
    return values


violations = []
for storage_class in (Battery, SuperCapacitor):
    system, storage = plant(storage_class)
    storage.status = np.ones(N, dtype=bool)
    storage.load_sharing_mode = np.zeros(N)
    reference = run(system)
    print(f"{storage_class.__name__}: status and sharing mode written out {N} times: accepted, "
          f"fuel {reference[0]:.4f} kg, stored {reference[1]:.4f} MJ")
    cases = {
        "keeps its default load_sharing_mode [0.], status series": (None, np.ones(N, dtype=bool)),
        "load_sharing_mode series, status [True]": (np.zeros(N), np.ones(1, dtype=bool)),
        "keeps its default load_sharing_mode [0.], status [True]": (None, np.ones(1, dtype=bool)),
    }
    for label, (sharing_mode, status) in cases.items():
        system, storage = plant(storage_class)
        storage.status = status
        if sharing_mode is not None:
            storage.load_sharing_mode = sharing_mode
        try:
            values = run(system)
        except Exception as error:
            print(f"VIOLATION {storage_class.__name__} {label}: refused with "
                  f"{type(error).__name__}: {str(error)[:120]}")
            violations.append(label)
            continue
        ok = np.allclose(values, reference, rtol=1e-9)
        print(f"{'ok       ' if ok else 'VIOLATION'} {storage_class.__name__} {label}: {values}")
        if not ok:
            violations.append(label)

if violations:
    print("Property C20 violated: consistent inputs with single values are refused.")
    sys.exit(1)
print("Property holds.")
sys.exit(0)
