"""C06 finding 1: strict power balance, delivered power exactly at rated power: the round trip
delivered -> supplied -> delivered lands on a spurious root (delivered = supplied, 'efficiency 1')
that lies far outside +-rated, instead of the starting value."""
import sys, logging, warnings
import numpy as np
warnings.filterwarnings("ignore"); logging.disable(logging.CRITICAL)
from feems.components_model.component_base import BasicComponent
from feems.types_for_feems import TypeComponent, TypePower

rated = 1000.0
curve = np.array([[0.0, 0.66], [0.33, 0.90], [0.97, 0.9565], [1.0, 0.589]])
comp = BasicComponent(type_=TypeComponent.GEARBOX, power_type=TypePower.POWER_TRANSMISSION,
                      name="gearbox", rated_power=rated, eff_curve=curve)  # accepted by the constructor
bad = False
for delivered in (rated, np.array([rated]), np.array([500.0, rated])):
    supplied, _ = comp.get_power_input_from_bidirectional_output(delivered, strict_power_balance=True)
    back, _ = comp.get_power_output_from_bidirectional_input(supplied, strict_power_balance=True)
    err = np.max(np.abs(np.asarray(back, dtype=float) - np.asarray(delivered, dtype=float))) / rated
    print(f"delivered {delivered} -> supplied {supplied} -> delivered again {back}; error {err:.3e} of rated (allowed 1e-6)")
    if not err <= 1e-6:
        bad = True
    if np.any(np.abs(back) > np.abs(supplied) * (1 - 1e-12)):
        print("   delivered power is not smaller than the supplied power although the efficiency at 100 % load is",
              comp.get_efficiency_from_load_percentage(1.0))
print("eff(1.0) =", comp.get_efficiency_from_load_percentage(1.0), " check: 1000/eff =", 1000 / comp.get_efficiency_from_load_percentage(1.0))
print("PROPERTY VIOLATED" if bad else "property holds")
sys.exit(1 if bad else 0)
