"""C06 finding 2: strict power balance of a SINGLE value is refused (RuntimeError from the secant
iteration) for loads next to a short steep drop of the efficiency curve, although the equation
has exactly one root there and the SERIES conversion of the very same value finds it.

Property clauses: "Converting a delivered power to the supplied power and back returns the
starting value (... within 1e-6 of rated power with strict balance)" and "Evaluating a time series
gives the same numbers as evaluating its elements one by one."
"""
import logging
import sys
import warnings

import numpy as np

logging.disable(logging.CRITICAL)
warnings.filterwarnings("ignore")

from feems.components_model.component_electric import ElectricComponent
from feems.types_for_feems import TypeComponent, TypePower

rated = 1000.0
# four points, efficiencies 0.90 .. 0.95, accepted by the constructor; the efficiency FALLS with
# the load, so supplied power = delivered / efficiency rises strictly: one root for every input
curve = np.array([[0.0, 0.95], [0.6, 0.95], [0.605, 0.90], [1.0, 0.90]])
conv = ElectricComponent(
    type_=TypeComponent.POWER_CONVERTER,
    name="converter",
    rated_power=rated,
    eff_curve=curve,
    power_type=TypePower.POWER_TRANSMISSION,
)
fine = np.linspace(0, 1, 200001)
supplied_fine = fine / conv.get_efficiency_from_load_percentage(fine)
print("supplied power strictly rising with delivered power (1e-5 steps):",
      bool((np.diff(supplied_fine) > 0).all()))

delivered = np.linspace(0.59, 0.62, 301) * rated
supplied, _ = conv.get_power_input_from_bidirectional_output(delivered, strict_power_balance=True)

# the series, strict
back_series, _ = conv.get_power_output_from_bidirectional_input(supplied, strict_power_balance=True)
err_series = np.abs(back_series - delivered).max() / rated
print(f"series  : worst round-trip error {err_series:.2e} of rated power")

# the same values one by one, strict
n_refused, worst_scalar, example = 0, 0.0, None
for p_out, p_in in zip(delivered, supplied):
    try:
        back, _ = conv.get_power_output_from_bidirectional_input(
            float(p_in), strict_power_balance=True
        )
        worst_scalar = max(worst_scalar, abs(float(back) - p_out) / rated)
    except RuntimeError as exc:
        n_refused += 1
        if example is None:
            example = (p_out, p_in, str(exc))
print(f"elements: worst round-trip error {worst_scalar:.2e} of rated power, "
      f"{n_refused} of {len(delivered)} values refused")
if example:
    print(f"  e.g. delivered {example[0]:.3f} kW (load {example[0] / rated:.4f}), "
          f"supplied {example[1]:.6f} kW -> {example[2]}")
    # the same value as a one-element series
    one, _ = conv.get_power_output_from_bidirectional_input(
        np.array([example[1]]), strict_power_balance=True
    )
    print(f"  as a one-element series: {one[0]:.9f} kW (error {abs(one[0] - example[0]):.2e} kW)")

violated = n_refused > 0 or worst_scalar > 1e-6 or err_series > 1e-6
print("PROPERTY VIOLATED" if violated else "property holds")
sys.exit(1 if violated else 0)
