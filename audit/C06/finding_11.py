"""C06 finding 1: the gearbox of MainEngineWithGearBoxForMechanicalPropulsion creates energy when
the power flows through it in the reverse direction (shaft -> engine side).

Property clause: "for every component with an efficiency characteristic and any power flowing
through it in either direction, the power on the supply side is never less than the power on the
delivery side" (component kind: gearboxes; powers within +-rated).
"""
import logging
import sys

import numpy as np

logging.disable(logging.CRITICAL)

from feems.components_model.component_base import BasicComponent
from feems.components_model.component_electric import PTIPTO, ElectricComponent, ElectricMachine
from feems.components_model.component_mechanical import (
    Engine,
    MainEngineWithGearBoxForMechanicalPropulsion,
    MechanicalPropulsionComponent,
)
from feems.components_model.node import ShaftLine
from feems.types_for_feems import TypeComponent, TypePower

violated = False

engine = Engine(
    type_=TypeComponent.MAIN_ENGINE,
    name="main engine",
    rated_power=2000,
    rated_speed=750,
    bsfc_curve=np.array([[0.25, 220.0], [0.5, 200.0], [0.75, 190.0], [1.0, 195.0]]),
)
gearbox = BasicComponent(
    type_=TypeComponent.GEARBOX,
    power_type=TypePower.POWER_TRANSMISSION,
    name="gearbox",
    rated_power=2000,
    eff_curve=np.array([[0.0, 0.90], [0.25, 0.95], [0.5, 0.97], [1.0, 0.98]]),
)
geared = MainEngineWithGearBoxForMechanicalPropulsion("geared engine", engine, gearbox)

# --- 1. component level: forward and reverse flow through the same gearbox -------------------
print("shaft-side power -> engine-side power computed by the geared engine")
for p_shaft in (1000.0, 200.0, 0.0, -200.0, -1000.0):
    geared.get_engine_run_point_from_power_out_kw(power=np.array([p_shaft]))
    p_engine = float(engine.power_output[0])
    if p_shaft >= 0:  # engine side supplies, shaft side is delivered
        supply, delivery = abs(p_engine), abs(p_shaft)
    else:  # the shaft supplies, the engine side is delivered
        supply, delivery = abs(p_shaft), abs(p_engine)
    ok = supply >= delivery - 1e-9
    # what the gearbox itself says for this flow (its own bidirectional conversion)
    ref = float(np.asarray(gearbox.get_power_input_from_bidirectional_output(p_shaft)[0]))
    print(
        f"  shaft {p_shaft:8.1f} kW  engine side {p_engine:10.3f} kW  "
        f"(gearbox's own conversion {ref:10.3f})  supply {supply:9.3f} delivery {delivery:9.3f}"
        f"  {'ok' if ok else 'ENERGY CREATED'}"
    )
    if not ok:
        violated = True

# --- 2. the same through a shaft line balance: PTI power above the propeller load ------------
machine = ElectricMachine(
    type_=TypeComponent.SYNCHRONOUS_MACHINE,
    name="shaft machine",
    rated_power=1000,
    rated_speed=750,
    power_type=TypePower.PTI_PTO,
    eff_curve=np.array([0.96]),
)
pti_pto = PTIPTO("pti/pto", [machine], switchboard_id=1, rated_power=1000, shaft_line_id=1)
propeller = MechanicalPropulsionComponent(
    type_=TypeComponent.PROPELLER_LOAD,
    power_type=TypePower.POWER_CONSUMER,
    name="propeller",
    rated_power=3000,
    eff_curve=np.array([1.0]),
)
shaft_line = ShaftLine("shaft line", 1, [geared, pti_pto, propeller])
propeller.set_power_input_from_output(np.array([300.0, 1500.0]))
geared.status = np.array([True, True])
pti_pto.full_pti_mode = np.array([False, False])
shaft_line.set_power_output_pti_pto(np.array([500.0, 500.0]))  # PTI: 500 kW onto the shaft
shaft_line.do_power_balance()
geared.get_engine_run_point_from_power_out_kw()
print("shaft line: propeller 300 / 1500 kW, PTI 500 kW, geared engine running")
print("  geared engine, shaft side :", geared.power_output)
print("  geared engine, engine side:", engine.power_output)
first_shaft, first_engine = float(geared.power_output[0]), float(engine.power_output[0])
if first_shaft < 0 and abs(first_engine) > abs(first_shaft) + 1e-9:
    print(
        f"  step 0: the shaft hands {abs(first_shaft):.3f} kW to the gearbox, "
        f"{abs(first_engine):.3f} kW arrive at the engine side: ENERGY CREATED"
    )
    violated = True

print("PROPERTY VIOLATED" if violated else "property holds")
sys.exit(1 if violated else 0)
