"""C06 finding 3: a serial drive train evaluates every stage at the load of the train's DELIVERED
power, not at the stage's own load - the losses of the stages in between are left out of the
stage loads, although a single component is looked up at the load of the power it delivers itself.

Clause: "their ratio is the component's efficiency at that load ... - for a serial drive train the
product of its stages' efficiencies, each stage at its own load".  The stage nearest the supply
side delivers  P / (efficiencies of the stages behind it), which is what each stage's own
get_power_input_from_bidirectional_output uses when the stages are walked one after the other.
SerialSystem.__init__ uses  load_i = P / rated_i  for every stage.  The delivered powers below sit
exactly on the eleven sample loads of the train (0.1, 0.2, ...), so the known "sampled at eleven
loads and interpolated in between" approximation plays no part; all stages have the same rating,
every stage load is inside its curve.

Exit status 1 = property violated under this reading (expected on the current code), 0 = holds.
"""
import logging
import sys

import numpy as np

logging.disable(logging.CRITICAL)

from feems.components_model.component_base import BasicComponent  # noqa: E402
from feems.components_model.component_electric import (  # noqa: E402
    ElectricComponent,
    ElectricMachine,
    SerialSystemElectric,
)
from feems.types_for_feems import TypeComponent, TypePower  # noqa: E402

RATED = 1000.0
TOL = 0.005  # of rated power

converter = ElectricComponent(
    type_=TypeComponent.POWER_CONVERTER,
    name="converter",
    rated_power=RATED,
    eff_curve=np.array([[0.0, 0.60], [0.1, 0.85], [0.25, 0.94], [0.5, 0.97], [1.0, 0.98]]),
    power_type=TypePower.POWER_TRANSMISSION,
)
motor = ElectricMachine(
    type_=TypeComponent.ELECTRIC_MOTOR,
    name="motor",
    rated_power=RATED,
    rated_speed=900.0,
    power_type=TypePower.POWER_CONSUMER,
    eff_curve=np.array([[0.0, 0.50], [0.1, 0.75], [0.25, 0.88], [0.5, 0.93], [1.0, 0.95]]),
)
gearbox = BasicComponent(
    type_=TypeComponent.GEARBOX,
    power_type=TypePower.POWER_TRANSMISSION,
    name="gearbox",
    rated_power=RATED,
    rated_speed=900.0,
    eff_curve=np.array([0.97]),
)
stages = [converter, motor, gearbox]  # from the switchboard to the propeller
drive = SerialSystemElectric(
    TypeComponent.PROPULSION_DRIVE, "drive", TypePower.POWER_CONSUMER, stages, 1, RATED, 900.0
)

violated = False
for delivered in (100.0, 200.0, 300.0, 500.0):
    supplied = float(drive.get_power_input_from_bidirectional_output(delivered)[0])
    x = delivered
    own_loads = []
    effs = []
    for s in reversed(stages):
        y, load = s.get_power_input_from_bidirectional_output(x)
        own_loads.append(float(load))
        effs.append(float(x / y))
        x = float(y)
    dev = abs(supplied - x) / RATED
    bad = dev > TOL
    violated |= bad
    print(
        f"delivered {delivered:5.0f} kW: train supplies {supplied:8.3f} kW "
        f"(ratio {delivered / supplied:.4f}); stage by stage {x:8.3f} kW "
        f"(ratio {delivered / x:.4f} = product of "
        f"{[round(e, 4) for e in reversed(effs)]} at own loads "
        f"{[round(l, 4) for l in reversed(own_loads)]}); "
        f"difference {100 * dev:.2f} % of rated{'  <-- VIOLATION' if bad else ''}"
    )

# reverse flow (a braking propeller / a PTO): what arrives at the switchboard
for supplied_shaft in (-100.0, -200.0):
    arrived = float(drive.get_power_input_from_bidirectional_output(supplied_shaft, True)[0])
    x = supplied_shaft
    for s in reversed(stages):
        x = float(s.get_power_input_from_bidirectional_output(x, True)[0])
    dev = abs(arrived - x) / RATED
    bad = dev > TOL
    violated |= bad
    print(
        f"shaft supplies {-supplied_shaft:5.0f} kW: train delivers {-arrived:8.3f} kW, stage by "
        f"stage {-x:8.3f} kW; difference {100 * dev:.2f} % of rated"
        f"{'  <-- VIOLATION' if bad else ''}"
    )

if violated:
    print(
        "\nPROPERTY VIOLATED (reading: a stage's own load is the power that stage delivers over "
        "its rating): the train's ratio is not the product of the stage efficiencies."
    )
    sys.exit(1)
print("\nproperty holds")
sys.exit(0)
