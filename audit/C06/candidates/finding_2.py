"""C06 finding 2: the constructor accepts an efficiency curve whose output->input power mapping is
not monotonic between its 1 % check points; the round trip then misses by up to about 1 % of rated
power at 96-98 % load - with the default interpolated inverse AND with strict_power_balance.

Clause: "Converting a delivered power to the supplied power and back returns the starting value
(within 0.5 % of rated power with the default interpolated inverse, within 1e-6 of rated power
with strict balance)".  Quantifier: admissible curve = 2-6 points, efficiencies 0.5-1, accepted
by the constructor; powers within +-rated.  The curve below has 3 points on loads 0 / 0.9 / 1.0
(so no extrapolation), efficiencies 0.80-0.865, is accepted, and the powers used are below
99 % load (the known loss of accuracy above 99 % load is not what is shown here).

Exit status 1 = property violated (expected on the current code), 0 = holds.
"""
import logging
import sys

import numpy as np

logging.disable(logging.CRITICAL)

from feems.components_model.component_electric import ElectricComponent, ElectricMachine  # noqa: E402
from feems.types_for_feems import TypeComponent, TypePower  # noqa: E402

RATED = 1000.0
CURVE = np.array([[0.0, 0.80], [0.9, 0.80], [1.0, 0.865]])

converter = ElectricComponent(
    type_=TypeComponent.POWER_CONVERTER,
    name="converter",
    rated_power=RATED,
    eff_curve=CURVE,
    power_type=TypePower.POWER_TRANSMISSION,
)  # accepted: no InputError
motor = ElectricMachine(
    type_=TypeComponent.ELECTRIC_MOTOR,
    name="motor",
    rated_power=RATED,
    rated_speed=1000.0,
    power_type=TypePower.POWER_CONSUMER,
    eff_curve=CURVE,
)

# Why: supplied power as a function of delivered power on a fine grid
fine = np.linspace(0.0, RATED, 100001)
supplied_fine = fine / converter.get_efficiency_from_load_percentage(fine / RATED)
falling = np.flatnonzero(np.diff(supplied_fine) < 0)
print(
    f"supplied(delivered) falls between {fine[falling[0]]:.1f} and {fine[falling[-1] + 1]:.1f} kW "
    f"(the constructor checks only every 10 kW: "
    f"{np.round(supplied_fine[[96000, 97000, 98000]], 4).tolist()} at 960/970/980 kW)"
)

violated = False
delivered = np.array([940.0, 965.0, 975.0, 976.0, 985.0])  # all below 99 % load
supplied, _ = converter.get_power_input_from_bidirectional_output(delivered)
back_default, _ = converter.get_power_output_from_bidirectional_input(supplied)
back_strict, _ = converter.get_power_output_from_bidirectional_input(
    supplied, strict_power_balance=True
)
# the electric machine in the consumer role takes the same route
shaft_default, _ = motor.get_shaft_power_load_from_electric_power(supplied)
shaft_strict, _ = motor.get_shaft_power_load_from_electric_power(supplied, True)
assert np.allclose(shaft_default, back_default) and np.allclose(shaft_strict, back_strict)

for p, s, bd, bs in zip(delivered, supplied, back_default, back_strict):
    err_d = abs(bd - p) / RATED
    err_s = abs(bs - p) / RATED
    bad_d = err_d > 0.005
    bad_s = err_s > 1e-6
    violated |= bad_d or bad_s
    print(
        f"delivered {p:6.1f} kW -> supplied {s:9.4f} kW -> back: default {bd:8.3f} kW "
        f"(off {100 * err_d:.3f} % of rated{' VIOLATION' if bad_d else ''}), "
        f"strict {bs:8.3f} kW (off {100 * err_s:.5f} % of rated{' VIOLATION' if bad_s else ''})"
    )

# series against element by element, strict (reported for completeness; on this curve both
# solvers settle on the same - wrong - root of the balance equation)
one_by_one = np.array(
    [
        float(converter.get_power_input_from_bidirectional_output(float(-s), True)[0])
        for s in supplied
    ]
)
as_series, _ = converter.get_power_input_from_bidirectional_output(-supplied, True)
diff = np.max(np.abs(one_by_one - as_series)) / RATED
print(
    f"reverse direction, strict: series {np.round(as_series, 3).tolist()} against one by one "
    f"{np.round(one_by_one, 3).tolist()} (largest difference {100 * diff:.3f} % of rated)"
)
if diff > 1e-6:
    violated = True

if violated:
    print("\nPROPERTY VIOLATED: accepted curve, powers below 99 % load, round trip misses.")
    sys.exit(1)
print("\nproperty holds")
sys.exit(0)
