"""C06 finding 1: a serial drive train whose own rated power differs from the rating of its
first stage evaluates every stage at a wrong load.

Clause: "their ratio is ... for a serial drive train the product of its stages' efficiencies,
each stage at its own load" (quantifier: "serial trains whose stages have equal or different
ratings").

PTIPTO and SerialSystemElectric REQUIRE a rated_power argument; nothing ties it to the rating of
components[0].  SerialSystem.__init__ builds the train's efficiency table on a load axis that
belongs to the FIRST stage (load_i = load * rated_0 / rated_i), the BasicComponent base class then
reads that table with load = power / rated_power of the TRAIN.  With rated_power != rated_0 all
stages are looked up at loads that are off by the factor rated_0 / rated_power.

Exit status 1 = property violated (expected on the current code), 0 = holds.
"""
import logging
import sys

import numpy as np

logging.disable(logging.CRITICAL)

from feems.components_model.component_electric import (  # noqa: E402
    ElectricComponent,
    ElectricMachine,
    PTIPTO,
    SerialSystemElectric,
)
from feems.types_for_feems import TypeComponent, TypePower  # noqa: E402

TOL = 0.005  # of rated power (the loosest tolerance the property grants anywhere)

TRAFO_CURVE = np.array([[0.0, 0.90], [0.25, 0.97], [0.5, 0.985], [1.0, 0.99]])
MOTOR_CURVE = np.array([[0.0, 0.70], [0.25, 0.90], [0.5, 0.94], [0.75, 0.955], [1.0, 0.96]])


def build(kind: str, rated_power):
    power_type = TypePower.PTI_PTO if kind == "PTIPTO" else TypePower.POWER_CONSUMER
    # listed from the switchboard to the shaft: a 2000 kVA transformer feeding a 1000 kW machine
    transformer = ElectricComponent(
        type_=TypeComponent.TRANSFORMER,
        name="transformer",
        rated_power=2000.0,
        eff_curve=TRAFO_CURVE,
        power_type=TypePower.POWER_TRANSMISSION,
    )
    machine = ElectricMachine(
        type_=TypeComponent.SYNCHRONOUS_MACHINE,
        name="machine",
        rated_power=1000.0,
        rated_speed=1000.0,
        power_type=power_type,
        eff_curve=MOTOR_CURVE,
    )
    stages = [transformer, machine]
    if kind == "PTIPTO":
        train = PTIPTO("pti/pto", stages, 1, rated_power, 1000.0)
    else:
        train = SerialSystemElectric(
            TypeComponent.PROPULSION_DRIVE,
            "drive",
            power_type,
            stages,
            1,
            rated_power,
            1000.0,
        )
    return train, stages


def expected_supply(stages, delivered: float):
    """Supply-side power for a delivered (shaft) power, two readings of 'own load'."""
    # (a) every stage at  delivered power of the train / its own rating
    eff_a = 1.0
    for s in stages:
        eff_a *= float(s.get_efficiency_from_load_percentage(delivered / s.rated_power))
    # (b) every stage at  its own delivered power / its own rating  (walk the chain)
    x = delivered
    for s in reversed(stages):
        x, _ = s.get_power_input_from_bidirectional_output(x)
    return delivered / eff_a, float(x)


violated = False
for kind in ("PTIPTO", "SerialSystemElectric"):
    for rated_power in (2000.0, 1000.0):  # rating of the first stage / rating of the machine
        train, stages = build(kind, rated_power)
        print(f"{kind}, rated_power={rated_power:.0f} kW (stages 2000 kW, 1000 kW)")
        # delivered powers that fall on the sample points of the train's table in both cases,
        # within +-rated of every stage and of the train, every stage load inside its curve
        for delivered in (200.0, 400.0):
            supplied, load = train.get_power_input_from_bidirectional_output(delivered)
            supplied = float(supplied)
            exp_a, exp_b = expected_supply(stages, delivered)
            dev = min(abs(supplied - exp_a), abs(supplied - exp_b)) / train.rated_power
            bad = dev > TOL
            if bad and rated_power != stages[0].rated_power:
                violated = True
            print(
                f"  delivered {delivered:6.1f} kW -> supplied {supplied:8.3f} kW "
                f"(ratio {delivered / supplied:.4f}); product of stage efficiencies gives "
                f"{exp_a:8.3f} kW (stage load = P/rated_i) or {exp_b:8.3f} kW (chained); "
                f"deviation {100 * dev:.2f} % of rated {'<-- VIOLATION' if bad else 'ok'}"
            )
        # the same on a series and in reverse (PTO) direction: what arrives at the switchboard
        series = np.array([-400.0, -200.0, 0.0, 200.0, 400.0])
        out, _ = train.get_power_input_from_bidirectional_output(series)
        print("  series", series.tolist(), "->", np.round(out, 3).tolist())

if violated:
    print(
        "\nPROPERTY VIOLATED: with rated_power different from the first stage's rating the "
        "train's supply/delivery ratio is not the product of the stage efficiencies at the "
        "stages' own loads (the control with rated_power = first stage's rating is fine)."
    )
    sys.exit(1)
print("\nproperty holds")
sys.exit(0)
