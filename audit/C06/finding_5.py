"""C06 finding 1: strict_power_balance is silently dropped for a single (scalar) power in
get_power_output_from_bidirectional_input (forward flow, supply -> delivery), so
 - the round trip delivery -> supply -> delivery misses the 1e-6-of-rated bound promised for strict balance,
 - the element-by-element evaluation differs from the evaluation of the series.
Exit 1 = property violated (current code), 0 = property holds."""
import logging
import sys

import numpy as np

logging.disable(logging.CRITICAL)
from feems.components_model.component_electric import ElectricComponent, ElectricMachine
from feems.types_for_feems import TypeComponent, TypePower

RATED = 3000.0
CURVE = np.array(
    [[0.0, 0.5], [0.1, 0.85], [0.25, 0.92], [0.5, 0.95], [0.75, 0.96], [1.0, 0.955]]
)  # 6 points, efficiencies 0.5 .. 0.96, covers load 0 .. 1, accepted by the constructor

motor = ElectricMachine(
    type_=TypeComponent.ELECTRIC_MOTOR,
    name="motor",
    rated_power=RATED,
    rated_speed=1000,
    power_type=TypePower.POWER_CONSUMER,
    eff_curve=CURVE,
)
converter = ElectricComponent(
    type_=TypeComponent.POWER_CONVERTER,
    name="converter",
    rated_power=RATED,
    eff_curve=CURVE,
    power_type=TypePower.POWER_TRANSMISSION,
)

violated = False
delivered = np.linspace(0.0237, 0.9763, 49) * RATED  # 2.4 % .. 97.6 % load, inside the curve, off the 1 % grid
eff = motor.get_efficiency_from_load_percentage(delivered / RATED)
supplied = delivered / eff  # exact forward conversion

# (a) series, strict: fine
shaft_series, _ = motor.get_shaft_power_load_from_electric_power(supplied, strict_power_balance=True)
err_series = np.max(np.abs(shaft_series - delivered)) / RATED
# (b) the same elements one by one, strict: strict is ignored
shaft_single = np.array(
    [
        float(motor.get_shaft_power_load_from_electric_power(float(s), strict_power_balance=True)[0])
        for s in supplied
    ]
)
err_single = np.max(np.abs(shaft_single - delivered)) / RATED
# (c) one by one, NOT strict: identical to (b) -> the flag has no effect
shaft_single_default = np.array(
    [float(motor.get_shaft_power_load_from_electric_power(float(s))[0]) for s in supplied]
)
print(f"electric machine (consumer role), rated {RATED} kW")
print(f"  round-trip error, series, strict        : {err_series:.3e} of rated (bound 1e-6)")
print(f"  round-trip error, one by one, strict    : {err_single:.3e} of rated (bound 1e-6)")
print(
    "  one by one strict == one by one default :",
    bool(np.array_equal(shaft_single, shaft_single_default)),
)
print(
    f"  series vs one by one (strict)           : {np.max(np.abs(shaft_series - shaft_single)) / RATED:.3e} of rated"
)
if err_single > 1e-6 or np.max(np.abs(shaft_series - shaft_single)) / RATED > 1e-6:
    violated = True

# the same through the base-class entry point of a converter
i = int(np.argmax(np.abs(shaft_single - delivered)))
out_scalar, _ = converter.get_power_output_from_bidirectional_input(float(supplied[i]), True)
out_array, _ = converter.get_power_output_from_bidirectional_input(supplied[i : i + 1], True)
print(
    f"converter: delivered {delivered[i]:.6f} kW -> supplied {supplied[i]:.6f} kW -> back (strict): "
    f"scalar {float(out_scalar):.6f} kW, one-element series {out_array[0]:.6f} kW"
)
if abs(float(out_scalar) - delivered[i]) / RATED > 1e-6:
    violated = True

print("PROPERTY VIOLATED" if violated else "property holds")
sys.exit(1 if violated else 0)
