"""C06 finding 4: INSIDE the load range the default (interpolated) inverse gives a delivered power
whose ratio to the supplied power is not the efficiency at that load - by 2.5 % of rated power
(13 efficiency points) - when the curve falls steeply between two points that lie up to ~2 % load
apart.  Not at the ends of the range: the powers below are 30 % .. 70 % load, inside the curve's
own points.

The inverse is a PCHIP through 200 samples (every 1 % of rated power) of
supplied = delivered / eff(delivered / rated).  Where the efficiency falls quickly, `supplied`
jumps by several per cent of rated power between two neighbouring samples, and the interpolant
through those two samples is not the real (kinked) relation.  The delivered power is then only
slightly off (< 0.5 % of rated), but because the efficiency changes so fast there, the
efficiency AT THE RETURNED LOAD is far from delivered / supplied, and converting the result back
with the explicit formula does not return the supplied power one started from.
strict_power_balance=True gives the right numbers, so it is the table, not the curve.

exit 1: property violated, exit 0: property holds.
"""
import logging
import sys
import warnings

import numpy as np

logging.disable(logging.CRITICAL)
warnings.simplefilter("ignore")

from feems.components_model.component_electric import ElectricComponent  # noqa: E402
from feems.types_for_feems import TypeComponent, TypePower  # noqa: E402

P = 1000.0
TOL = 5e-3  # of rated power, default inverse
violations = 0

for title, curve in {
    "points 1 % load apart, 20 efficiency points down": [[0, 0.90], [0.503, 0.95], [0.513, 0.75], [1, 0.75]],
    "points 2 % load apart, 20 efficiency points down": [[0, 0.90], [0.503, 0.95], [0.523, 0.75], [1, 0.75]],
    "points 1 % load apart, 10 efficiency points down": [[0, 0.90], [0.503, 0.95], [0.513, 0.85], [1, 0.85]],
    "points 5 % load apart, 20 efficiency points down (for comparison)": [[0, 0.90], [0.503, 0.95], [0.553, 0.75], [1, 0.75]],
}.items():
    comp = ElectricComponent(
        type_=TypeComponent.POWER_CONVERTER,
        name="converter",
        rated_power=P,
        eff_curve=np.array(curve),
        power_type=TypePower.POWER_CONSUMER,
    )  # accepted by the constructor
    x = np.linspace(0, 1, 100001)  # ... and monotonic on a fine grid as well
    assert (np.diff(x / comp.get_efficiency_from_load_percentage(x)) > 0).all()

    supplied = np.linspace(0.30, 0.70, 8001) * P / 0.75  # forward flow, given on the supply side
    supplied = supplied[supplied < 0.95 * P]
    delivered, load = comp.get_power_output_from_bidirectional_input(supplied)  # default inverse
    delivered_strict, _ = comp.get_power_output_from_bidirectional_input(supplied, True)
    eff_at_load = comp.get_efficiency_from_load_percentage(np.abs(delivered) / P)
    ratio = delivered / supplied
    resid = np.abs(delivered - supplied * eff_at_load) / P
    i = int(np.argmax(resid))
    back, _ = comp.get_power_input_from_bidirectional_output(delivered)  # explicit formula
    rt = np.abs(back - supplied) / P
    resid_strict = np.max(
        np.abs(
            delivered_strict
            - supplied * comp.get_efficiency_from_load_percentage(delivered_strict / P)
        )
        / P
    )
    # the same component in the reverse direction (power fed in at the output side)
    rev_delivered, _ = comp.get_power_input_from_bidirectional_output(-supplied)
    rev_resid = np.max(
        np.abs(
            rev_delivered
            + supplied * comp.get_efficiency_from_load_percentage(np.abs(rev_delivered) / P)
        )
        / P
    )
    bad = resid[i] > TOL or rt.max() > TOL
    violations += bad
    print(title)
    print(
        f"  worst sample: supplied {supplied[i]:.1f} kW -> delivered {delivered[i]:.1f} kW "
        f"(strict: {delivered_strict[i]:.1f} kW), load {load[i]:.4f}: ratio {ratio[i]:.4f}, "
        f"efficiency at that load {eff_at_load[i]:.4f}"
    )
    print(
        f"  max |delivered - supplied * eff(load)| / rated = {resid[i]:.4f} (reverse flow "
        f"{rev_resid:.4f}; strict {resid_strict:.1e}); supplied -> delivered -> supplied: "
        f"{rt.max():.4f} of rated; min supplied - delivered = {np.min(supplied - delivered):.1f} kW"
        f"   {'<-- VIOLATION (> 0.005)' if bad else 'ok'}"
    )

if violations:
    print(f"\nVIOLATION: {violations} admissible curves, loads 30..70 %: ratio is not the efficiency at that load")
    sys.exit(1)
print("\nproperty holds")
sys.exit(0)
