"""C06 finding 1: a serial drive train / PTI-PTO whose stages are all valid components is refused.

Every stage below is accepted by its own constructor (its delivered -> supplied power map is
strictly increasing, also on a fine grid).  The physical train is the composition of these maps,
hence strictly increasing too, and its efficiency (product of the stage efficiencies, each at
its own load) is well defined.  SerialSystem however multiplies the stage efficiencies all taken
at the SAME (delivered) power, feeds the 11 products to BasicComponent.__init__ and its
monotonicity test then rejects the train with InputError.

exit 1: the property statement fails (the train cannot be built / converted), exit 0: it holds.
"""
import logging
import sys

import numpy as np

logging.disable(logging.CRITICAL)

from feems.components_model.component_electric import (  # noqa: E402
    ElectricComponent,
    ElectricMachine,
    PTIPTO,
    SerialSystemElectric,
)
from feems.types_for_feems import TypeComponent, TypePower  # noqa: E402

P = 1000.0
violations = []


def stage(kind, name, curve, power_type):
    if kind == "machine":
        return ElectricMachine(
            type_=TypeComponent.SYNCHRONOUS_MACHINE,
            name=name,
            rated_power=P,
            rated_speed=1000,
            power_type=power_type,
            eff_curve=np.array(curve),
        )
    return ElectricComponent(
        type_=kind, name=name, rated_power=P, eff_curve=np.array(curve), power_type=power_type
    )


def exact_train_supply(stages, delivered):
    """Supplied power of the physical train: each stage at its own load, last stage first."""
    power = np.asarray(delivered, dtype=float)
    for s in reversed(stages):
        power = power / s.get_efficiency_from_load_percentage(np.abs(power) / s.rated_power)
    return power


cases = {
    "3-stage drive, stages 50 % at no load, 90 % at 25 %, 95 % at full load": (
        [[0, 0.5], [0.25, 0.9], [1, 0.95]],
        3,
    ),
    "4-stage PTI/PTO, stages 50 % at no load, 90 % at 30 %, 95 % at full load": (
        [[0, 0.5], [0.3, 0.9], [1, 0.95]],
        4,
    ),
    "3-stage drive, stages 50 % at no load rising linearly to 100 %": ([[0, 0.5], [1, 1.0]], 3),
}
kinds = [
    TypeComponent.TRANSFORMER,
    TypeComponent.POWER_CONVERTER,
    TypeComponent.INVERTER,
    "machine",
]

for title, (curve, n) in cases.items():
    print(title)
    for cls_name in ("SerialSystemElectric", "PTIPTO"):
        power_type = TypePower.POWER_CONSUMER if cls_name == "SerialSystemElectric" else TypePower.PTI_PTO
        stages = [stage(kinds[-n:][i], f"stage {i}", curve, power_type) for i in range(n)]
        # the stages and the physical train are legitimate
        # (delivered powers for which no stage is loaded above its own rating)
        delivered = np.linspace(0, 1, 10001) * P
        supply = exact_train_supply(stages, delivered)
        inside = supply <= P
        ok_physics = bool((np.diff(supply[inside]) > 0).all())
        print(
            f"  every stage accepted by its constructor; physical train for delivered power "
            f"0..{delivered[inside][-1]:.0f} kW (supply 0..{supply[inside][-1]:.0f} kW): "
            f"supply strictly increasing = {ok_physics}"
        )
        assert ok_physics
        try:
            if cls_name == "PTIPTO":
                train = PTIPTO("train", stages, 1, P)
            else:
                train = SerialSystemElectric(
                    TypeComponent.PROPULSION_DRIVE, "train", power_type, stages, 1, P
                )
        except Exception as e:  # noqa: BLE001
            print(f"  {cls_name}: REFUSED -> {type(e).__name__}: {str(e)[:90]}...")
            violations.append((title, cls_name))
            continue
        # if it can be built, it must not create energy and must convert back and forth
        p = np.linspace(-0.9, 0.9, 181) * P
        p_in, _ = train.get_power_input_from_bidirectional_output(p)
        back, _ = train.get_power_output_from_bidirectional_input(np.asarray(p_in))
        if np.any(p_in < p - 1e-9 * P) or np.max(np.abs(back - p)) > 5e-3 * P:
            print(f"  {cls_name}: built, but creates energy or does not round trip")
            violations.append((title, cls_name))
        else:
            print(f"  {cls_name}: built, conversion bounded and self-consistent")

if violations:
    print(f"\nVIOLATION: {len(violations)} trains of valid stages are refused by the constructor")
    sys.exit(1)
print("\nproperty holds")
sys.exit(0)
