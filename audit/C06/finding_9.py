"""C06 finding 2: strict balance on a SERIES misses the 1e-6-of-rated bound (and disagrees with
the element-by-element evaluation) for components of small rating.

strict_power_balance=True solves  x = p_in * eff(|x| / rated)  for the delivered power x.
A single value is solved with scipy newton (fine).  A series is solved in batches of 50 with
scipy root and the remaining (< 50) samples - i.e. every series shorter than 50 samples
completely - with scipy least_squares and its default tolerances.  These are absolute
(gtol = 1e-8 on J^T f, ftol on the squared residual in kW^2), so the accuracy in kW does not
scale with the component: where the efficiency curve is steep (residual slope J small) the
solver stops a few 1e-6 .. 1e-5 kW away from the root.  For a component rated 1 kW (the DEFAULT
rated_power of ElectricComponent) up to about 100 kW that is more than 1e-6 of rated power
(a one-sample series is enough).

All powers are inside 1 % .. 99 % load, inside the curve's points, the curve is accepted by the
constructor and the delivered -> supplied map is monotonic on a fine grid as well.

exit 1: property violated, exit 0: property holds.
"""
import logging
import sys
import warnings

import numpy as np

logging.disable(logging.CRITICAL)
warnings.simplefilter("ignore")

from feems.components_model.component_electric import (  # noqa: E402
    ElectricComponent,
    ElectricMachine,
)
from feems.types_for_feems import TypeComponent, TypePower  # noqa: E402

CURVE = np.array([[0.0, 0.80], [0.5, 0.86], [0.55, 0.92], [1.0, 0.95]])
TOL = 1e-6  # of rated power, strict balance
violations = 0


def check(component, rated, n_samples, label):
    global violations
    # fine-grid check that the curve is a legitimate one
    x = np.linspace(0, 1, 20001)
    assert (np.diff(x / component.get_efficiency_from_load_percentage(x)) > 0).all()
    delivered = (np.linspace(0.50, 0.55, n_samples) if n_samples > 1 else np.array([0.525])) * rated
    # delivered -> supplied: explicit formula, exact
    supplied, _ = component.get_power_input_from_bidirectional_output(delivered, True)
    # ... and back, strict: as a series and one element at a time
    back_series, _ = component.get_power_output_from_bidirectional_input(supplied, True)
    back_single = np.array(
        [float(component.get_power_output_from_bidirectional_input(float(s), True)[0]) for s in supplied]
    )
    err_series = np.max(np.abs(back_series - delivered)) / rated
    err_single = np.max(np.abs(back_single - delivered)) / rated
    diff = np.max(np.abs(back_series - back_single)) / rated
    # the ratio supplied / delivered that the series result stands for
    eff_series = back_series / supplied
    eff_curve = component.get_efficiency_from_load_percentage(np.abs(back_series) / rated)
    bad = err_series > TOL or diff > TOL
    violations += bad
    print(
        f"{label:44s} rated {rated:6.1f} kW, {n_samples:2d} samples: round trip error / rated: "
        f"series {err_series:.2e}, one by one {err_single:.2e}; series vs one by one "
        f"{diff:.2e}; max |ratio - eff(load)| {np.max(np.abs(eff_series - eff_curve)):.1e}"
        f"  {'<-- VIOLATION' if bad else 'ok'}"
    )


for rated, n in ((1.0, 25), (1.0, 5), (5.0, 5), (20.0, 5), (100.0, 1), (1000.0, 25)):
    conv = ElectricComponent(
        type_=TypeComponent.POWER_CONVERTER,
        name="converter",
        rated_power=rated,
        eff_curve=CURVE,
        power_type=TypePower.POWER_CONSUMER,
    )
    check(conv, rated, n, "converter (ElectricComponent)")

for rated, n in ((1.0, 25), (20.0, 5)):
    machine = ElectricMachine(
        type_=TypeComponent.SYNCHRONOUS_MACHINE,
        name="shaft machine",
        rated_power=rated,
        rated_speed=1000,
        power_type=TypePower.PTI_PTO,
        eff_curve=CURVE,
    )
    # same thing through the electric machine's own entry points (PTI/PTO role, motoring)
    shaft = np.linspace(0.50, 0.55, n) * rated
    electric, _ = machine.get_electric_power_load_from_shaft_power(shaft, True)
    shaft_series, _ = machine.get_shaft_power_load_from_electric_power(electric, True)
    shaft_single = np.array(
        [float(machine.get_shaft_power_load_from_electric_power(float(e), True)[0]) for e in electric]
    )
    e1 = np.max(np.abs(shaft_series - shaft)) / rated
    e2 = np.max(np.abs(shaft_single - shaft)) / rated
    bad = e1 > TOL
    violations += bad
    print(
        f"{'electric machine, PTI/PTO role, shaft power':44s} rated {rated:6.1f} kW, {n:2d} samples: "
        f"round trip error / rated: series {e1:.2e}, one by one {e2:.2e}"
        f"  {'<-- VIOLATION' if bad else 'ok'}"
    )

if violations:
    print(f"\nVIOLATION: {violations} cases beyond 1e-6 of rated power with strict balance")
    sys.exit(1)
print("\nproperty holds")
sys.exit(0)
