"""C06 finding 4 (borderline: shore power is not among the kinds the property enumerates, but it is a
'component with an efficiency characteristic' and the class sits in component_electric.py):
ShorePowerConnectionSystem takes a converter, but no conversion ever uses it. Supply == delivery
whatever the converter's efficiency is, while the sibling classes (BatterySystem,
SuperCapacitorSystem, FuelCellSystem) do apply their converter.
Exit 1 = property violated (current code), 0 = property holds."""
import logging
import sys

import numpy as np

logging.disable(logging.CRITICAL)
from feems.components_model.component_electric import (
    ElectricComponent,
    ShorePowerConnection,
    ShorePowerConnectionSystem,
    Battery,
    BatterySystem,
)
from feems.types_for_feems import TypeComponent, TypePower

converter = ElectricComponent(
    type_=TypeComponent.POWER_CONVERTER,
    name="shore converter",
    rated_power=1000.0,
    eff_curve=np.array([[0.0, 0.90], [0.5, 0.95], [1.0, 0.96]]),
    power_type=TypePower.POWER_TRANSMISSION,
)
shore = ShorePowerConnection(name="shore", rated_power=1000.0, switchboard_id=1)
system = ShorePowerConnectionSystem(
    name="shore with converter", shore_power_connection=shore, converter=converter, switchboard_id=1
)

delivered = np.array([0.0, 250.0, 500.0, 900.0])  # kW to the switchboard
supplied, load = system.set_power_input_from_output(delivered)
expected = delivered / converter.get_efficiency_from_load_percentage(delivered / converter.rated_power)
print("delivered to the switchboard        :", delivered)
print("drawn from shore (code)             :", np.asarray(supplied))
print("drawn from shore (converter applied):", expected)

# for comparison: a loss-free battery behind the same converter does apply it
battery = Battery("b", 1000.0, 1.0, 1.0, eff_charging=1.0, eff_discharging=1.0)
battery_system = BatterySystem("bs", battery, converter, 1)
print("same converter in a BatterySystem   :", battery_system.get_power_input_from_bidirectional_output(delivered)[0])

error = np.max(np.abs(np.asarray(supplied) - expected)) / system.rated_power
print(f"converter loss ignored: {error:.3%} of rated power")
violated = error > 5e-3
print("PROPERTY VIOLATED" if violated else "property holds")
sys.exit(1 if violated else 0)
