"""C06 finding 2: for a single (scalar) power the interpolated inverse conversion returns a 0-d
numpy array, and the conversion methods themselves refuse a 0-d array (TypeError: len() of unsized
object). A scalar can therefore not be taken supply -> delivery -> supply again, nor handed from one
component to the next (motor -> gearbox), although the same values work as a series.
Exit 1 = property violated (current code), 0 = property holds."""
import logging
import sys

import numpy as np

logging.disable(logging.CRITICAL)
from feems.components_model.component_base import BasicComponent
from feems.components_model.component_electric import ElectricComponent, ElectricMachine
from feems.types_for_feems import TypeComponent, TypePower

CURVE = np.array([[0.0, 0.8], [0.25, 0.90], [0.5, 0.94], [0.75, 0.96], [1.0, 0.95]])
converter = ElectricComponent(
    type_=TypeComponent.POWER_CONVERTER,
    name="converter",
    rated_power=1000.0,
    eff_curve=CURVE,
    power_type=TypePower.POWER_TRANSMISSION,
)
motor = ElectricMachine(
    type_=TypeComponent.ELECTRIC_MOTOR,
    name="PTI/PTO machine",
    rated_power=1000.0,
    rated_speed=1000,
    power_type=TypePower.PTI_PTO,
    eff_curve=CURVE,
)
gearbox = BasicComponent(
    type_=TypeComponent.GEARBOX,
    power_type=TypePower.POWER_TRANSMISSION,
    name="gearbox",
    rated_power=1000.0,
    eff_curve=np.array([0.98]),
)

violated = False


def check(label, scalar_call, series_call):
    global violated
    expected = series_call()
    try:
        got = scalar_call()
    except Exception as exc:  # noqa
        print(f"{label}: series gives {expected:.6f} kW, single value raises {type(exc).__name__}: {exc}")
        violated = True
        return
    ok = abs(float(got) - expected) <= 1e-9 * 1000.0
    print(f"{label}: series {expected:.6f} kW, single value {float(got):.6f} kW -> {'ok' if ok else 'DIFFERENT'}")
    if not ok:
        violated = True


# 1. supply -> delivery -> supply on one converter, forward flow (500 kW supplied)
def rt_scalar():
    delivered, _ = converter.get_power_output_from_bidirectional_input(500.0)
    print("   type returned for a python float:", type(delivered).__name__, "ndim", np.ndim(delivered))
    supplied, _ = converter.get_power_input_from_bidirectional_output(delivered)
    return supplied


def rt_series():
    delivered, _ = converter.get_power_output_from_bidirectional_input(np.array([500.0]))
    supplied, _ = converter.get_power_input_from_bidirectional_output(delivered)
    return supplied[0]


check("converter, 500 kW in -> out -> in", rt_scalar, rt_series)


# 2. the same with reverse flow (500 kW fed in at the delivery side)
def rt_rev_scalar():
    at_supply_side, _ = converter.get_power_input_from_bidirectional_output(-500.0)
    back, _ = converter.get_power_output_from_bidirectional_input(at_supply_side)
    return back


def rt_rev_series():
    at_supply_side, _ = converter.get_power_input_from_bidirectional_output(np.array([-500.0]))
    back, _ = converter.get_power_output_from_bidirectional_input(at_supply_side)
    return back[0]


check("converter, -500 kW out -> in -> out", rt_rev_scalar, rt_rev_series)


# 3. electric machine in the PTI/PTO role, motoring with 600 kW electric; its shaft power is passed on to a gearbox
def chain_scalar():
    shaft, _ = motor.get_shaft_power_load_from_electric_power(600.0)
    after_gear, _ = gearbox.get_power_output_from_bidirectional_input(shaft)
    return after_gear


def chain_series():
    shaft, _ = motor.get_shaft_power_load_from_electric_power(np.array([600.0]))
    after_gear, _ = gearbox.get_power_output_from_bidirectional_input(shaft)
    return after_gear[0]


check("PTI/PTO machine 600 kW electric -> shaft -> gearbox", chain_scalar, chain_series)


# 4. ... and its electric power asked back from the shaft power it has just returned
def back_scalar():
    shaft, _ = motor.get_shaft_power_load_from_electric_power(600.0)
    electric, _ = motor.get_electric_power_load_from_shaft_power(shaft)
    return electric


def back_series():
    shaft, _ = motor.get_shaft_power_load_from_electric_power(np.array([600.0]))
    electric, _ = motor.get_electric_power_load_from_shaft_power(shaft)
    return electric[0]


check("PTI/PTO machine 600 kW electric -> shaft -> electric", back_scalar, back_series)

print("PROPERTY VIOLATED" if violated else "property holds")
sys.exit(1 if violated else 0)
