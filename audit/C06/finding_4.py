"""C06 finding 4 (minor, a valid input wrongly refused): a BatterySystem WITHOUT converter cannot be
built, although both of its conversion methods have a branch for `self.converter is None` and the
sibling SuperCapacitorSystem accepts converter=None and converts correctly.

Quantifier: "batteries and supercapacitors with and without converter".  The property's clauses
(supply >= delivery, zero -> zero, round trip, series = element by element) are checked on both
storage systems built without converter; the battery system never gets that far.

Exit status 1 = property violated / input refused (expected on the current code), 0 = holds.
"""
import logging
import sys

import numpy as np

logging.disable(logging.CRITICAL)

from feems.components_model.component_electric import (  # noqa: E402
    Battery,
    BatterySystem,
    SuperCapacitor,
    SuperCapacitorSystem,
)


def check(storage) -> bool:
    """True when the C06 clauses hold for the storage unit on a small series."""
    rated = storage.rated_power
    cell_power = np.array([-1.0, -0.5, -0.01, 0.0, 0.01, 0.5, 1.0]) * rated  # + = charging
    terminal, _ = storage.get_power_input_from_bidirectional_output(cell_power)
    back, _ = storage.get_power_output_from_bidirectional_input(terminal)
    one_by_one = np.array(
        [float(storage.get_power_input_from_bidirectional_output(float(p))[0]) for p in cell_power]
    )
    charging = cell_power > 0
    ok = (
        np.all(terminal[charging] >= cell_power[charging])  # supply side is the terminal
        and np.all(np.abs(terminal[~charging]) <= np.abs(cell_power[~charging]))
        and terminal[3] == 0.0
        and np.max(np.abs(back - cell_power)) <= 1e-6 * rated
        and np.max(np.abs(one_by_one - terminal)) <= 1e-9 * rated
    )
    print(f"  cells {cell_power.tolist()} -> terminal {np.round(terminal, 3).tolist()}: ok={ok}")
    return bool(ok)


violated = False

supercapacitor = SuperCapacitor("cap", 5000.0, 1000.0, eff_charging=0.99, eff_discharging=0.98)
print("SuperCapacitorSystem(converter=None):")
cap_system = SuperCapacitorSystem("cap system", supercapacitor, None, 1)
violated |= not check(cap_system)

battery = Battery("bat", 1000.0, 1.0, 1.0, eff_charging=0.97, eff_discharging=0.95)
print("BatterySystem(converter=None):")
try:
    battery_system = BatterySystem("battery system", battery, None, 1)
except Exception as exc:  # AttributeError: 'NoneType' object has no attribute 'rated_power'
    print(f"  refused by the constructor: {type(exc).__name__}: {exc}")
    violated = True
else:
    violated |= not check(battery_system)

if violated:
    print("\nPROPERTY VIOLATED: a battery system without converter is refused.")
    sys.exit(1)
print("\nproperty holds")
sys.exit(0)
