"""C06 finding 3: Switchboard.set_power_load_component_from_power_input_by_type_and_name ("set the
power input and output from the given value of power input") converts in the wrong direction: it
hands the given SUPPLIED power to set_power_input_from_output, i.e. treats it as the DELIVERED power.
delivery -> supply (..._from_power_output_...) -> back (..._from_power_input_...) does not return the
starting value (off by 1/efficiency, several % of rated power), and the entry point disagrees with the
component's own set_power_output_from_input for the same number.
Exit 1 = property violated (current code), 0 = property holds."""
import logging
import sys

import numpy as np

logging.disable(logging.CRITICAL)
from feems.components_model.component_electric import ElectricComponent, ElectricMachine
from feems.components_model.node import Switchboard
from feems.types_for_feems import TypeComponent, TypePower

RATED = 1000.0
CURVE = np.array([[0.0, 0.70], [0.25, 0.90], [0.5, 0.94], [0.75, 0.955], [1.0, 0.95]])


def make_load():
    return ElectricComponent(
        type_=TypeComponent.OTHER_LOAD,
        name="pump drive",
        rated_power=RATED,
        eff_curve=CURVE,
        power_type=TypePower.POWER_CONSUMER,
        switchboard_id=1,
    )


load = make_load()
generator = ElectricMachine(
    type_=TypeComponent.GENERATOR,
    name="generator",
    rated_power=2000.0,
    rated_speed=1000,
    power_type=TypePower.POWER_SOURCE,
    switchboard_id=1,
    eff_curve=CURVE,
)
switchboard = Switchboard("switchboard 1", 1, [load, generator])

delivered = np.array([0.0, 250.0, 500.0, 900.0])  # kW at the consumer side, within rated
switchboard.set_power_load_component_from_power_output_by_type_and_name(
    name="pump drive", power_type=TypePower.POWER_CONSUMER, power_output=delivered
)
supplied = np.array(load.power_input, dtype=float)
print("delivered (given)            :", delivered)
print("supplied  (computed)         :", supplied)

# and back: the supplied power is now the given quantity
switchboard.set_power_load_component_from_power_input_by_type_and_name(
    name="pump drive", power_type=TypePower.POWER_CONSUMER, power_input=supplied
)
print("back through the switchboard : power_input", np.asarray(load.power_input), "power_output", np.asarray(load.power_output))

reference = make_load()
reference.set_power_output_from_input(supplied)
print("component's own method       : power_input", np.asarray(reference.power_input), "power_output", np.asarray(reference.power_output))

err_round_trip = np.max(np.abs(np.asarray(load.power_output) - delivered)) / RATED
err_input_kept = np.max(np.abs(np.asarray(load.power_input) - supplied)) / RATED
print(f"round trip error of the delivered power : {err_round_trip:.3%} of rated (bound 0.5 %)")
print(f"given supplied power changed by         : {err_input_kept:.3%} of rated")
violated = err_round_trip > 5e-3 or err_input_kept > 5e-3
print("PROPERTY VIOLATED" if violated else "property holds")
sys.exit(1 if violated else 0)
