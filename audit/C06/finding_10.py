"""C06 finding 3 (peripheral class): ShorePowerConnectionSystem carries a converter whose
efficiency is never applied - supplied power == delivered power whatever the converter's curve.

BatterySystem, SuperCapacitorSystem and FuelCellSystem, built the same way (unit + converter),
route their conversions through the converter.  ShorePowerConnectionSystem stores the converter
but inherits BasicComponent's conversions with the default efficiency 1, so the ratio of the two
sides is 1 and not the efficiency of the (only) lossy stage of the train.

exit 1: property violated, exit 0: property holds.
"""
import logging
import sys

import numpy as np

logging.disable(logging.CRITICAL)

from feems.components_model.component_electric import (  # noqa: E402
    ElectricComponent,
    ShorePowerConnection,
    ShorePowerConnectionSystem,
)
from feems.types_for_feems import TypeComponent, TypePower  # noqa: E402

P = 1000.0
curve = np.array([[0.0, 0.90], [0.5, 0.96], [1.0, 0.97]])
converter = ElectricComponent(
    type_=TypeComponent.POWER_CONVERTER,
    name="shore converter",
    rated_power=P,
    eff_curve=curve,
    power_type=TypePower.POWER_TRANSMISSION,
    switchboard_id=1,
)
system = ShorePowerConnectionSystem(
    name="shore power with converter",
    shore_power_connection=ShorePowerConnection("shore connection", P, 1),
    converter=converter,
    switchboard_id=1,
)

delivered = np.array([0.0, 100.0, 500.0, 900.0])  # to the switchboard
supplied, load = system.set_power_input_from_output(delivered)  # from shore
expected = delivered / converter.get_efficiency_from_load_percentage(delivered / P)
print("delivered to the switchboard [kW]:", delivered)
print("supplied from shore, code    [kW]:", np.asarray(supplied))
print("supplied from shore, demanded[kW]:", expected, "(delivered / converter efficiency at its load)")
nz = delivered > 0
ratio = delivered[nz] / np.asarray(supplied)[nz]
print("ratio delivered / supplied:", ratio, " converter efficiency:", delivered[nz] / expected[nz])
back, _ = system.get_power_output_from_bidirectional_input(np.asarray(supplied))
print("and back:", back)

if np.max(np.abs(np.asarray(supplied) - expected)) > 5e-3 * P:
    print("\nVIOLATION: the converter of a ShorePowerConnectionSystem is lossless in the conversions")
    sys.exit(1)
print("\nproperty holds")
sys.exit(0)
