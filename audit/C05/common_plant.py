"""Shared plant builders for the finding scripts (public FEEMS API only)."""
import logging
import numpy as np

logging.disable(logging.CRITICAL)
from feems.components_model.component_electric import (
    ElectricComponent, ElectricMachine, Genset, PTIPTO,
)
from feems.components_model.component_mechanical import (
    Engine, MainEngineForMechanicalPropulsion, MechanicalPropulsionComponent,
)
from feems.components_model.utility import IntegrationMethod
from feems.system_model import (
    ElectricPowerSystem, MechanicalPropulsionSystem, HybridPropulsionSystem,
)
from feems.types_for_feems import TypeComponent, TypePower

EFF = np.array([[0.0, 0.25, 0.5, 0.75, 1.0], [0.88, 0.93, 0.95, 0.96, 0.955]]).T
BSFC = np.array([[0.25, 0.5, 0.75, 1.0], [220, 200, 190, 195]]).T


def genset(name, swb, p=2000):
    eng = Engine(type_=TypeComponent.AUXILIARY_ENGINE, name=name + " eng",
                 rated_power=p * 1.05, rated_speed=900, bsfc_curve=BSFC)
    gen = ElectricMachine(type_=TypeComponent.GENERATOR, name=name + " gen", rated_power=p,
                          rated_speed=900, power_type=TypePower.POWER_SOURCE,
                          switchboard_id=swb, eff_curve=EFF)
    return Genset(name, eng, gen)


def ptipto(name, swb, sl, p=1000):
    m = ElectricMachine(type_=TypeComponent.SYNCHRONOUS_MACHINE, power_type=TypePower.PTI_PTO,
                        name=name + " machine", rated_power=p, rated_speed=900, eff_curve=EFF)
    c = ElectricComponent(type_=TypeComponent.INVERTER, power_type=TypePower.POWER_TRANSMISSION,
                          name=name + " converter", rated_power=p, eff_curve=np.array([98.0]))
    return PTIPTO(name=name, components=[c, m], switchboard_id=swb, rated_power=p,
                  rated_speed=900, shaft_line_id=sl)


def load_el(name, swb, p=1500):
    return ElectricComponent(type_=TypeComponent.OTHER_LOAD, name=name,
                             power_type=TypePower.POWER_CONSUMER, rated_power=p,
                             eff_curve=np.array([100.0]), switchboard_id=swb)


def main_engine(name, sl, p=4000):
    eng = Engine(type_=TypeComponent.MAIN_ENGINE, name=name, rated_power=p, rated_speed=150,
                 bsfc_curve=BSFC)
    return MainEngineForMechanicalPropulsion(name=name, engine=eng, shaft_line_id=sl)


def prop(name, sl, p=5000):
    return MechanicalPropulsionComponent(
        type_=TypeComponent.PROPELLER_LOAD, power_type=TypePower.POWER_CONSUMER, name=name,
        rated_power=p, rated_speed=150, eff_curve=np.array([1.0]), shaft_line_id=sl)


def worst_residual(hy):
    """Largest residual of the three clauses, as a fraction of the PTI/PTO rating."""
    es, ms = hy.electric_system, hy.mechanical_system
    n = max(np.size(c.power_input) for c in es.pti_pto)
    bc = lambda x: np.broadcast_to(np.asarray(x, dtype=float), (n,))
    rating = min(p.rated_power for p in es.pti_pto)
    res = bc(sum(bc(g.power_output) for g in es.power_sources)
             - sum(bc(c.power_input) for c in es.other_load + es.pti_pto))
    worst = np.max(np.abs(res))
    for sl in ms.shaft_line:
        me = sum((bc(m.power_output) for m in sl.component_by_power_type[TypePower.POWER_SOURCE]), np.zeros(n))
        ld = sum((bc(m.power_input) for m in sl.component_by_power_type[TypePower.POWER_CONSUMER]), np.zeros(n))
        pp = sl.component_by_power_type[TypePower.PTI_PTO]
        po = bc(pp[0].power_output) if pp else np.zeros(n)
        worst = max(worst, np.max(np.abs(me + po - ld)))
        if pp:
            pin, _ = pp[0].get_power_input_from_bidirectional_output(np.array(po), strict_power_balance=True)
            worst = max(worst, np.max(np.abs(bc(pp[0].power_input) - pin)))
            f = bc(pp[0].full_pti_mode).astype(bool)
            if f.any():
                worst = max(worst, np.max(np.abs((po - ld)[f])))
    return worst / rating
