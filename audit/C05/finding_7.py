"""C05 finding 3: a PTI/PTO whose given power is a single value (a constant) and whose load sharing
mode is a series (given power at some steps, sharing the bus load at the others) is refused with a
numpy broadcasting error; the same input with the constant written out as a series is balanced.

exit 1 = property violated (current code), exit 0 = property holds
"""
import logging
import sys

import numpy as np

from feems.components_model.component_electric import (
    ElectricComponent,
    ElectricMachine,
    Genset,
    PTIPTO,
)
from feems.components_model.component_mechanical import (
    Engine,
    MainEngineForMechanicalPropulsion,
    MechanicalPropulsionComponent,
)
from feems.components_model.utility import IntegrationMethod
from feems.system_model import (
    ElectricPowerSystem,
    HybridPropulsionSystem,
    MechanicalPropulsionSystem,
)
from feems.types_for_feems import Power_kW, Speed_rpm, SwbId, TypeComponent, TypePower

logging.disable(logging.CRITICAL)

BSFC = np.array([[0.25, 230.0], [0.5, 210.0], [0.75, 200.0], [1.0, 205.0]])
EFF = np.array([[0.0, 0.88], [0.25, 0.93], [0.5, 0.95], [0.75, 0.96], [1.0, 0.955]])
N = 6
RATED_PTI_PTO = 2500.0
FULL_PTI = np.array([0, 0, 1, 1, 0, 1], dtype=bool)
PROPELLER = np.array([1000.0, 1500.0, 500.0, 600.0, 2000.0, 700.0])


def genset(name, swb):
    eng = Engine(
        type_=TypeComponent.AUXILIARY_ENGINE,
        name=name + " engine",
        rated_power=Power_kW(1050),
        rated_speed=Speed_rpm(900),
        bsfc_curve=BSFC,
    )
    gen = ElectricMachine(
        type_=TypeComponent.GENERATOR,
        name=name + " generator",
        rated_power=Power_kW(1000),
        rated_speed=Speed_rpm(900),
        power_type=TypePower.POWER_SOURCE,
        switchboard_id=SwbId(swb),
        eff_curve=EFF,
    )
    return Genset(name, eng, gen)


def build():
    g1, g2 = genset("genset 1", 1), genset("genset 2", 2)
    loads = [
        ElectricComponent(
            type_=TypeComponent.OTHER_LOAD,
            name=f"hotel {swb}",
            rated_power=Power_kW(1000),
            eff_curve=np.array([1.0]),
            power_type=TypePower.POWER_CONSUMER,
            switchboard_id=SwbId(swb),
        )
        for swb in (1, 2)
    ]
    machine = ElectricMachine(
        type_=TypeComponent.SYNCHRONOUS_MACHINE,
        name="shaft machine",
        rated_power=Power_kW(RATED_PTI_PTO),
        rated_speed=Speed_rpm(900),
        power_type=TypePower.PTI_PTO,
        switchboard_id=SwbId(1),
        eff_curve=EFF,
    )
    pti_pto = PTIPTO(
        "pti pto", [machine], SwbId(1), Power_kW(RATED_PTI_PTO), Speed_rpm(900), shaft_line_id=1
    )
    electric = ElectricPowerSystem("electric", [g1, g2, *loads, pti_pto], [(1, 2)])
    engine = MainEngineForMechanicalPropulsion(
        "main engine",
        Engine(
            type_=TypeComponent.MAIN_ENGINE,
            name="me",
            rated_power=Power_kW(3000),
            rated_speed=Speed_rpm(500),
            bsfc_curve=BSFC,
        ),
        shaft_line_id=1,
    )
    propeller = MechanicalPropulsionComponent(
        TypeComponent.PROPELLER_LOAD,
        TypePower.POWER_CONSUMER,
        "propeller",
        Power_kW(3500),
        np.array([1.0]),
        Speed_rpm(150),
        shaft_line_id=1,
    )
    mechanical = MechanicalPropulsionSystem("mechanical", [engine, propeller, pti_pto])
    hybrid = HybridPropulsionSystem("hybrid", electric, mechanical)
    hybrid.set_time_interval(60.0, IntegrationMethod.trapezoid)
    loads[0].power_input = np.full(N, 300.0)
    loads[1].power_input = np.full(N, 200.0)
    g1.status = np.ones(N, dtype=bool)
    g2.status = np.ones(N, dtype=bool)
    engine.status = np.ones(N, dtype=bool)
    propeller.power_input = PROPELLER.copy()
    pti_pto.status = np.ones(N, dtype=bool)
    pti_pto.full_pti_mode = FULL_PTI.copy()
    return hybrid, pti_pto, engine, (g1, g2)




def check_property(hybrid, pti_pto, engine, gensets, propeller_kw=PROPELLER):
    """The clauses of C05 on the state the objects are left in; returns the list of violations"""
    tolerance = 0.005 * RATED_PTI_PTO
    violations = []
    electric = hybrid.electric_system
    p_in = np.broadcast_to(np.asarray(pti_pto.power_input, dtype=float), (N,))
    p_out = np.broadcast_to(np.asarray(pti_pto.power_output, dtype=float), (N,))
    # electrical balance (the bus-tie breaker is closed: one bus)
    consumers = sum(np.broadcast_to(c.power_input, (N,)) for c in electric.other_load)
    sources = sum(np.broadcast_to(g.power_output, (N,)) for g in gensets)
    bus = sources - consumers - p_in
    if np.abs(bus).max() > tolerance:
        violations.append(f"electrical balance: residual {np.round(bus, 1)} kW")
    # shaft balance
    shaft = np.broadcast_to(engine.power_output, (N,)) + p_out - propeller_kw
    if np.abs(shaft).max() > tolerance:
        violations.append(f"shaft balance: residual {np.round(shaft, 1)} kW")
    # full PTI: the machine carries the whole shaft load
    full = np.asarray(pti_pto.full_pti_mode, dtype=bool)
    if full.any() and np.abs(p_out[full] - propeller_kw[full]).max() > tolerance:
        violations.append(
            f"full PTI: shaft power of the PTI/PTO {np.round(p_out[full], 1)} kW, "
            f"shaft load {propeller_kw[full]} kW"
        )
    # the two sides differ by the conversion loss
    eff_out = pti_pto.get_efficiency_from_load_percentage(np.abs(p_out) / pti_pto.rated_power)
    eff_in = pti_pto.get_efficiency_from_load_percentage(np.abs(p_in) / pti_pto.rated_power)
    expected_in = np.where(p_out > 0, p_out / eff_out, p_out * eff_in)
    if np.abs(p_in - expected_in).max() > tolerance:
        violations.append(
            f"conversion loss: electric {np.round(p_in, 1)} kW, shaft {np.round(p_out, 1)} kW"
        )
    return violations


FULL_PTI[:] = False  # no full PTI needed: PTO with given power at steps 0, 1, 4, sharing at 2, 3, 5
MODE = np.array([1.0, 1.0, 0.0, 0.0, 1.0, 0.0])
GIVEN_PTO_KW = -250.0
print("load sharing mode of the PTI/PTO:", MODE, " given power:", GIVEN_PTO_KW, "kW")

hybrid, pti_pto, engine, gensets = build()
pti_pto.load_sharing_mode = MODE.copy()
pti_pto.power_input = np.full(N, GIVEN_PTO_KW)
hybrid.do_power_balance_calculation()
reference = check_property(hybrid, pti_pto, engine, gensets)
print("constant written out as a series: PTI/PTO electric", np.round(pti_pto.power_input, 1), "violations:", reference)

hybrid, pti_pto, engine, gensets = build()
pti_pto.load_sharing_mode = MODE.copy()
pti_pto.power_input = np.array([GIVEN_PTO_KW])
try:
    hybrid.do_power_balance_calculation()
except Exception as error:  # noqa
    print(f"constant as a single value: refused with {type(error).__name__}: {error}")
    print("VIOLATED: a valid hybrid input (single value standing for a constant) cannot be balanced")
    sys.exit(1)
single = check_property(hybrid, pti_pto, engine, gensets)
print("constant as a single value: PTI/PTO electric", np.round(pti_pto.power_input, 1), "violations:", single)
given = np.abs(np.asarray(pti_pto.power_input)[MODE == 1] - GIVEN_PTO_KW).max() > 0.005 * RATED_PTI_PTO
sys.exit(1 if (single or reference or given) else 0)
