"""C05 finding 5 (result side): the shaft-line result of a PTI/PTO is computed from its ELECTRICAL power.

After a correct combined balance the PTI/PTO holds its electrical power (power_input) and its
shaft power (power_output).  The result of the mechanical system, however, books the machine with
the integral of power_input - the electrical power - and with the labels of the electric side:
get_fuel_emission_energy_balance_for_component has a branch for the shaft side
(isSystemMechanical=True) but ShaftLine.get_fuel_calculation_running_hours never asks for it.
So the shaft line reports, for a PTI that delivers 800 kW to the shaft, a mechanical energy
*consumption* of 859 kW x t (electrical power incl. the loss) and no mechanical energy input:
seen from the shaft the machine is not the one the shaft balance was made with.

Exit status 1 = violated (current code), 0 = holds.
"""
import logging
import sys

import numpy as np

logging.disable(logging.CRITICAL)

from feems.components_model.component_electric import (
    ElectricComponent,
    ElectricMachine,
    Genset,
    PTIPTO,
)
from feems.components_model.component_mechanical import (
    Engine,
    MainEngineForMechanicalPropulsion,
    MechanicalPropulsionComponent,
)
from feems.components_model.utility import IntegrationMethod
from feems.system_model import (
    ElectricPowerSystem,
    HybridPropulsionSystem,
    MechanicalPropulsionSystem,
)
from feems.types_for_feems import NOxCalculationMethod, TypeComponent, TypePower

BSFC = np.array([[0.25, 0.5, 0.75, 1.0], [220.0, 200.0, 190.0, 195.0]]).T
N = 4
DT = np.full(N, 900.0)  # four quarters of an hour

genset = Genset(
    "genset",
    Engine(
        type_=TypeComponent.AUXILIARY_ENGINE,
        name="aux engine",
        rated_power=2100.0,
        rated_speed=900,
        bsfc_curve=BSFC,
        nox_calculation_method=NOxCalculationMethod.TIER_2,
    ),
    ElectricMachine(
        type_=TypeComponent.GENERATOR,
        name="generator",
        rated_power=2000.0,
        rated_speed=900,
        power_type=TypePower.POWER_SOURCE,
        switchboard_id=1,
        eff_curve=np.array([0.95]),
    ),
)
load = ElectricComponent(
    type_=TypeComponent.OTHER_LOAD,
    name="hotel",
    rated_power=1000.0,
    power_type=TypePower.POWER_CONSUMER,
    switchboard_id=1,
    eff_curve=np.array([1.0]),
)
pti_pto = PTIPTO(
    name="PTI/PTO",
    components=[
        ElectricComponent(
            type_=TypeComponent.POWER_CONVERTER,
            power_type=TypePower.POWER_TRANSMISSION,
            name="converter",
            rated_power=1000.0,
            eff_curve=np.array([0.98]),
        ),
        ElectricMachine(
            type_=TypeComponent.SYNCHRONOUS_MACHINE,
            power_type=TypePower.PTI_PTO,
            name="shaft machine",
            rated_power=1000.0,
            rated_speed=900,
            eff_curve=np.array([0.95]),
        ),
    ],
    switchboard_id=1,
    rated_power=1000.0,
    rated_speed=900,
    shaft_line_id=1,
)
electric = ElectricPowerSystem("electric", [genset, load, pti_pto], [])
main_engine = MainEngineForMechanicalPropulsion(
    "main engine",
    Engine(
        type_=TypeComponent.MAIN_ENGINE,
        name="main engine",
        rated_power=3000.0,
        rated_speed=600,
        bsfc_curve=BSFC,
        nox_calculation_method=NOxCalculationMethod.TIER_2,
    ),
    shaft_line_id=1,
)
propeller = MechanicalPropulsionComponent(
    type_=TypeComponent.PROPELLER_LOAD,
    power_type=TypePower.POWER_CONSUMER,
    name="propeller",
    rated_power=3000.0,
    eff_curve=np.array([1.0]),
    shaft_line_id=1,
)
mechanical = MechanicalPropulsionSystem("mechanical", [main_engine, pti_pto, propeller])
plant = HybridPropulsionSystem("plant", electric, mechanical)

load.set_power_input_from_output(np.full(N, 500.0))
propeller.set_power_input_from_output(np.full(N, 800.0))
genset.status = np.ones(N, dtype=bool)
genset.load_sharing_mode = np.zeros(N)
pti_pto.status = np.ones(N, dtype=bool)
pti_pto.load_sharing_mode = np.ones(N)
pti_pto.full_pti_mode = np.ones(N, dtype=bool)  # full PTI throughout
main_engine.status = np.ones(N, dtype=bool)
plant.set_time_interval(DT, IntegrationMethod.sum_with_time)
plant.do_power_balance_calculation()
result = plant.get_fuel_energy_consumption_running_time(DT, IntegrationMethod.sum_with_time)

elec_kw = np.asarray(pti_pto.power_input, dtype=float)
shaft_kw = np.asarray(pti_pto.power_output, dtype=float)
e_elec = float(np.dot(elec_kw, DT)) / 1000
e_shaft = float(np.dot(shaft_kw, DT)) / 1000
print("after the combined balance: PTI electrical power", elec_kw[0], "kW, shaft power", shaft_kw[0], "kW")
print(f"energy taken from the switchboard : {e_elec:9.2f} MJ")
print(f"energy delivered to the shaft     : {e_shaft:9.2f} MJ")
row_elec = result.electric_system.detail_result.loc["PTI/PTO"]
row_mech = result.mechanical_system.detail_result.loc["PTI/PTO"]
print("electric system result, PTI/PTO row  'mechanical energy consumption [MJ]':",
      round(float(row_elec["mechanical energy consumption [MJ]"]), 2))
print("mechanical system result, PTI/PTO row 'mechanical energy consumption [MJ]':",
      round(float(row_mech["mechanical energy consumption [MJ]"]), 2))
print("mechanical system totals: energy_input_mechanical_total_mj =",
      result.mechanical_system.energy_input_mechanical_total_mj,
      " energy_consumption_mechanical_total_mj =",
      round(result.mechanical_system.energy_consumption_mechanical_total_mj, 2),
      " energy_consumption_propulsion_total_mj =",
      round(result.mechanical_system.energy_consumption_propulsion_total_mj, 2))

tol = 0.005 * pti_pto.rated_power * DT.sum() / 1000  # 0.5 % of rating over the period, MJ
# Seen from the shaft the PTI is a source of e_shaft; nothing on the shaft side should carry
# the electrical energy (which contains the conversion loss).
shaft_side_energy_of_machine = (
    result.mechanical_system.energy_input_mechanical_total_mj
    + result.mechanical_system.energy_consumption_mechanical_total_mj
)
violated = abs(shaft_side_energy_of_machine - e_shaft) > tol
if violated:
    print(
        f"-> the shaft side books {shaft_side_energy_of_machine:.2f} MJ for the machine: the "
        f"electrical energy, not the {e_shaft:.2f} MJ of the shaft balance "
        f"(difference {shaft_side_energy_of_machine - e_shaft:.2f} MJ, allowed {tol:.2f})"
    )
print("PROPERTY VIOLATED" if violated else "property holds")
sys.exit(1 if violated else 0)
