"""C05 finding 3: a hybrid plant with a gearbox listed on the shaft line cannot be balanced over a series.

A gearbox that is a component of a shaft line on its own (type GEARBOX, power type
POWER_TRANSMISSION; this is what the library's protobuf converter creates from the `gear` of a
propeller subsystem) is filed under MechanicalPropulsionSystem.mechanical_loads.  The input check
of the shaft balance demands that every member of that list carries a power series of the same
length as the propeller.  The gearbox takes no power of its own and there is no public setter
that reaches it (the by-name setters look among the consumers only), so it keeps its single
value and every series longer than one step is refused - with or without full-PTI steps.
The same plant is balanced for a one-step series, and for any series once the attribute of the
gearbox is overwritten by hand.

Exit status 1 = property violated / valid plant refused (current code), 0 = holds.
"""
import logging
import sys

import numpy as np

logging.disable(logging.CRITICAL)

from feems.components_model.component_electric import (
    ElectricComponent,
    ElectricMachine,
    Genset,
    PTIPTO,
)
from feems.components_model.component_mechanical import (
    Engine,
    MainEngineForMechanicalPropulsion,
    MechanicalPropulsionComponent,
)
from feems.components_model.utility import IntegrationMethod
from feems.system_model import (
    ElectricPowerSystem,
    HybridPropulsionSystem,
    MechanicalPropulsionSystem,
)
from feems.types_for_feems import NOxCalculationMethod, TypeComponent, TypePower

BSFC = np.array([[0.25, 0.5, 0.75, 1.0], [220.0, 200.0, 190.0, 195.0]]).T


def build_and_balance(n, patch_gearbox=False):
    genset = Genset(
        "genset",
        Engine(
            type_=TypeComponent.AUXILIARY_ENGINE,
            name="aux engine",
            rated_power=2100.0,
            rated_speed=900,
            bsfc_curve=BSFC,
            nox_calculation_method=NOxCalculationMethod.TIER_2,
        ),
        ElectricMachine(
            type_=TypeComponent.GENERATOR,
            name="generator",
            rated_power=2000.0,
            rated_speed=900,
            power_type=TypePower.POWER_SOURCE,
            switchboard_id=1,
            eff_curve=np.array([0.95]),
        ),
    )
    load = ElectricComponent(
        type_=TypeComponent.OTHER_LOAD,
        name="hotel",
        rated_power=1000.0,
        power_type=TypePower.POWER_CONSUMER,
        switchboard_id=1,
        eff_curve=np.array([1.0]),
    )
    pti_pto = PTIPTO(
        name="PTI/PTO",
        components=[
            ElectricComponent(
                type_=TypeComponent.POWER_CONVERTER,
                power_type=TypePower.POWER_TRANSMISSION,
                name="converter",
                rated_power=1000.0,
                eff_curve=np.array([0.98]),
            ),
            ElectricMachine(
                type_=TypeComponent.SYNCHRONOUS_MACHINE,
                power_type=TypePower.PTI_PTO,
                name="shaft machine",
                rated_power=1000.0,
                rated_speed=900,
                eff_curve=np.array([0.95]),
            ),
        ],
        switchboard_id=1,
        rated_power=1000.0,
        rated_speed=900,
        shaft_line_id=1,
    )
    electric = ElectricPowerSystem("electric", [genset, load, pti_pto], [])
    main_engine = MainEngineForMechanicalPropulsion(
        "main engine",
        Engine(
            type_=TypeComponent.MAIN_ENGINE,
            name="main engine",
            rated_power=3000.0,
            rated_speed=600,
            bsfc_curve=BSFC,
            nox_calculation_method=NOxCalculationMethod.TIER_2,
        ),
        shaft_line_id=1,
    )
    gearbox = MechanicalPropulsionComponent(
        type_=TypeComponent.GEARBOX,
        power_type=TypePower.POWER_TRANSMISSION,
        name="gearbox",
        rated_power=3000.0,
        eff_curve=np.array([0.98]),
        shaft_line_id=1,
    )
    propeller = MechanicalPropulsionComponent(
        type_=TypeComponent.PROPELLER_LOAD,
        power_type=TypePower.POWER_CONSUMER,
        name="propeller",
        rated_power=3000.0,
        eff_curve=np.array([1.0]),
        shaft_line_id=1,
    )
    mechanical = MechanicalPropulsionSystem(
        "mechanical", [main_engine, pti_pto, gearbox, propeller]
    )
    plant = HybridPropulsionSystem("plant", electric, mechanical)

    full = np.zeros(n, dtype=bool)
    full[-1] = True  # PTO steps, the last one full PTI
    load.set_power_input_from_output(np.full(n, 500.0))
    mechanical.set_power_consumer_load_by_power_output_for_given_name_shaft_line_id(
        "propeller", 1, np.full(n, 800.0)
    )
    genset.status = np.ones(n, dtype=bool)
    genset.load_sharing_mode = np.zeros(n)
    pti_pto.status = np.ones(n, dtype=bool)
    pti_pto.load_sharing_mode = np.zeros(n)
    mechanical.set_full_pti_mode_for_name_shaft_line_id("PTI/PTO", 1, full)
    mechanical.set_status_main_engine_for_name_shaft_line_id(
        "main engine", 1, np.ones(n, dtype=bool)
    )
    if patch_gearbox:
        gearbox.power_input = np.zeros(n)
    plant.set_time_interval(60.0, IntegrationMethod.trapezoid)
    plant.do_power_balance_calculation()

    tol = 0.005 * pti_pto.rated_power
    elec = np.asarray(genset.power_output) - np.asarray(load.power_input) - np.asarray(pti_pto.power_input)
    shaft = (
        np.asarray(main_engine.power_output)
        + np.asarray(pti_pto.power_output)
        - np.asarray(propeller.power_input)
    )
    return bool(np.all(np.abs(elec) <= tol) and np.all(np.abs(shaft) <= tol))


violated = False
for n, patch in ((1, False), (4, False), (4, True)):
    label = f"series of {n} step(s)" + (", gearbox.power_input overwritten by hand" if patch else "")
    try:
        ok = build_and_balance(n, patch)
        print(f"{label}: balanced on both sides: {ok}")
        violated |= not ok
    except Exception as exc:  # noqa
        print(f"{label}: REFUSED: {type(exc).__name__}: {str(exc).strip()}")
        violated = True

# there is no public setter for it
try:
    print("by-name setter for the gearbox:", end=" ")
    # a small mechanical system to show that the setter cannot reach the gearbox
    eng = MainEngineForMechanicalPropulsion(
        "me",
        Engine(
            type_=TypeComponent.MAIN_ENGINE,
            name="me",
            rated_power=3000.0,
            rated_speed=600,
            bsfc_curve=BSFC,
            nox_calculation_method=NOxCalculationMethod.TIER_2,
        ),
    )
    gb = MechanicalPropulsionComponent(
        type_=TypeComponent.GEARBOX,
        power_type=TypePower.POWER_TRANSMISSION,
        name="gearbox",
        rated_power=3000.0,
        eff_curve=np.array([0.98]),
    )
    prop = MechanicalPropulsionComponent(
        type_=TypeComponent.PROPELLER_LOAD,
        power_type=TypePower.POWER_CONSUMER,
        name="propeller",
        rated_power=3000.0,
        eff_curve=np.array([1.0]),
    )
    m = MechanicalPropulsionSystem("m", [eng, gb, prop])
    m.set_power_consumer_load_by_value_for_given_name_shaft_line_id("gearbox", 1, np.zeros(4))
    print("accepted")
except Exception as exc:  # noqa
    print(f"{type(exc).__name__}: {exc}")

print("PROPERTY VIOLATED (valid plant refused)" if violated else "property holds")
sys.exit(1 if violated else 0)
