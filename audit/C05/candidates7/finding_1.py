"""C05 finding 1: a PTI/PTO whose uid is short (or blank) is read from protobuf as TWO machines.

The converter links the PTI/PTO of a shaft line to the one of the switchboard by uid.  A uid of
at most 5 characters (uid is a free, optional string; blank is the protobuf default) is thrown
away on the switchboard side (a random uuid is used instead), so the link is never found and a
second PTIPTO is created for the shaft line.
 - propulsion type HYBRID: HybridPropulsionSystem refuses the plant (ConfigurationError)
 - propulsion type MECHANICAL (shaft generator): the plant is built silently with two machines;
   after the combined balance the switchboard's PTO delivers power that no shaft provides.

Exit status 1 = property violated (current code), 0 = holds.
"""
import logging
import sys

import numpy as np

logging.disable(logging.CRITICAL)

from feems.components_model.component_electric import (
    ElectricComponent,
    ElectricMachine,
    Genset,
    PTIPTO,
)
from feems.components_model.component_mechanical import (
    Engine,
    MainEngineForMechanicalPropulsion,
    MechanicalPropulsionComponent,
)
from feems.components_model.utility import IntegrationMethod
from feems.system_model import (
    ElectricPowerSystem,
    HybridPropulsionSystem,
    MechanicalPropulsionSystem,
    MechanicalPropulsionSystemWithElectricPowerSystem,
)
from feems.types_for_feems import NOxCalculationMethod, TypeComponent, TypePower
from MachSysS.convert_to_feems import convert_proto_propulsion_system_to_feems
from MachSysS.convert_to_protobuf import (
    convert_hybrid_propulsion_system_to_protobuf,
    convert_mechanical_propulsion_system_with_electric_system_to_protobuf,
)

BSFC = np.array([[0.25, 0.5, 0.75, 1.0], [220.0, 200.0, 190.0, 195.0]]).T
PTI_UID = "PTI1"  # a legal uid, 4 characters


def build(cls):
    engine = Engine(
        type_=TypeComponent.AUXILIARY_ENGINE,
        name="aux engine",
        rated_power=2100.0,
        rated_speed=900,
        bsfc_curve=BSFC,
        nox_calculation_method=NOxCalculationMethod.TIER_2,
    )
    generator = ElectricMachine(
        type_=TypeComponent.GENERATOR,
        name="generator",
        rated_power=2000.0,
        rated_speed=900,
        power_type=TypePower.POWER_SOURCE,
        switchboard_id=1,
        eff_curve=np.array([0.95]),
    )
    genset = Genset("genset", engine, generator)
    load = ElectricComponent(
        type_=TypeComponent.OTHER_LOAD,
        name="hotel",
        rated_power=1000.0,
        power_type=TypePower.POWER_CONSUMER,
        switchboard_id=1,
        eff_curve=np.array([1.0]),
    )
    machine = ElectricMachine(
        type_=TypeComponent.SYNCHRONOUS_MACHINE,
        power_type=TypePower.PTI_PTO,
        name="shaft machine",
        rated_power=1000.0,
        rated_speed=900,
        eff_curve=np.array([0.95]),
    )
    converter = ElectricComponent(
        type_=TypeComponent.POWER_CONVERTER,
        power_type=TypePower.POWER_TRANSMISSION,
        name="converter",
        rated_power=1000.0,
        eff_curve=np.array([0.98]),
    )
    pti_pto = PTIPTO(
        name="PTI/PTO",
        components=[converter, machine],
        switchboard_id=1,
        rated_power=1000.0,
        rated_speed=900,
        shaft_line_id=1,
        uid=PTI_UID,
    )
    electric = ElectricPowerSystem("electric", [genset, load, pti_pto], [])
    main_engine = MainEngineForMechanicalPropulsion(
        "main engine",
        Engine(
            type_=TypeComponent.MAIN_ENGINE,
            name="main engine",
            rated_power=3000.0,
            rated_speed=600,
            bsfc_curve=BSFC,
            nox_calculation_method=NOxCalculationMethod.TIER_2,
        ),
        shaft_line_id=1,
    )
    propeller = MechanicalPropulsionComponent(
        type_=TypeComponent.PROPELLER_LOAD,
        power_type=TypePower.POWER_CONSUMER,
        name="propeller",
        rated_power=3000.0,
        eff_curve=np.array([1.0]),
        shaft_line_id=1,
    )
    mechanical = MechanicalPropulsionSystem("mechanical", [main_engine, pti_pto, propeller])
    return cls("plant", electric, mechanical)


violated = False

# --- (a) hybrid plant: written to protobuf and read back ---------------------------------------
hybrid = build(HybridPropulsionSystem)
message = convert_hybrid_propulsion_system_to_protobuf(hybrid)
try:
    hybrid_back = convert_proto_propulsion_system_to_feems(message)
    same = hybrid_back.electric_system.pti_pto[0] is hybrid_back.mechanical_system.pti_ptos[0]
    print(f"(a) hybrid plant with PTI/PTO uid {PTI_UID!r} read back, one machine on both sides: {same}")
    violated |= not same
except Exception as exc:  # noqa
    print(
        f"(a) hybrid plant with PTI/PTO uid {PTI_UID!r}: written to protobuf by the library, "
        f"REFUSED when read back: {type(exc).__name__}: {exc}"
    )
    violated = True

# --- (b) the same plant declared MECHANICAL (shaft generator) ----------------------------------
plant = build(MechanicalPropulsionSystemWithElectricPowerSystem)
message = convert_mechanical_propulsion_system_with_electric_system_to_protobuf(plant)
plant_back = convert_proto_propulsion_system_to_feems(message)
pto_swb = plant_back.electric_system.pti_pto[0]
pto_shaft = plant_back.mechanical_system.pti_ptos[0]
print(f"(b) mechanical plant read back: PTI/PTO of switchboard is that of shaft line: {pto_swb is pto_shaft}")
n = 3
es, ms = plant_back.electric_system, plant_back.mechanical_system
es.other_load[0].set_power_input_from_output(np.full(n, 600.0))
ms.mechanical_loads[0].set_power_input_from_output(np.full(n, 1500.0))
for source in es.power_sources:
    source.status = np.ones(n, dtype=bool)
    source.load_sharing_mode = np.zeros(n)
for p in {id(pto_swb): pto_swb, id(pto_shaft): pto_shaft}.values():
    p.status = np.ones(n, dtype=bool)
    p.load_sharing_mode = np.zeros(n)  # shares the bus load as a shaft generator (PTO)
    p.full_pti_mode = np.zeros(n, dtype=bool)
    p.power_input = np.zeros(n)
    p.power_output = np.zeros(n)
for engine in ms.main_engines:
    engine.status = np.ones(n, dtype=bool)
plant_back.set_time_interval(60.0, IntegrationMethod.trapezoid)
plant_back.do_power_balance_calculation()
elec_kw = np.asarray(pto_swb.power_input, dtype=float)
shaft_kw_of_that_machine = np.asarray(pto_swb.power_output, dtype=float)
shaft_kw_in_shaft_balance = np.asarray(pto_shaft.power_output, dtype=float)
main_engine_kw = np.asarray(ms.main_engines[0].power_output, dtype=float)
print("    electrical power of the PTO on the switchboard [kW]:", elec_kw)
print("    shaft power that machine needs [kW]              :", shaft_kw_of_that_machine)
print("    PTO shaft power the shaft line was balanced with :", shaft_kw_in_shaft_balance)
print("    main engine power [kW] (propeller takes 1500)    :", main_engine_kw)
tol = 0.005 * pto_swb.rated_power
if np.any(np.abs(shaft_kw_of_that_machine - shaft_kw_in_shaft_balance) > tol):
    print(
        "    -> the switchboard receives PTO power that is taken from no shaft: "
        "the two sides are different machines"
    )
    violated = True

print("PROPERTY VIOLATED" if violated else "property holds")
sys.exit(1 if violated else 0)
