"""C05 finding 2: full-PTI mode in a plant built as MechanicalPropulsionSystemWithElectricPowerSystem.

The class takes an electric system and a mechanical system that share a PTI/PTO (this is how the
library's own protobuf converter builds a MECHANICAL plant with a shaft machine: "one machine on
a switchboard and on a shaft line, as in a hybrid system").  Its combined balance is one electric
pass followed by one shaft pass.  Where full-PTI mode is requested the shaft pass decides the
PTI power AFTER the switchboards were balanced: the electrical side does not supply the shaft
load - the generators stay where they were and the bus is out of balance by the whole PTI power.
HybridPropulsionSystem, given the very same objects and inputs, balances both sides.

Exit status 1 = property violated (current code), 0 = holds.
"""
import logging
import sys

import numpy as np

logging.disable(logging.CRITICAL)

from feems.components_model.component_electric import (
    ElectricComponent,
    ElectricMachine,
    Genset,
    PTIPTO,
)
from feems.components_model.component_mechanical import (
    Engine,
    MainEngineForMechanicalPropulsion,
    MechanicalPropulsionComponent,
)
from feems.components_model.utility import IntegrationMethod
from feems.system_model import (
    ElectricPowerSystem,
    HybridPropulsionSystem,
    MechanicalPropulsionSystem,
    MechanicalPropulsionSystemWithElectricPowerSystem,
)
from feems.types_for_feems import NOxCalculationMethod, TypeComponent, TypePower

BSFC = np.array([[0.25, 0.5, 0.75, 1.0], [220.0, 200.0, 190.0, 195.0]]).T
N = 3


def build(cls):
    genset = Genset(
        "genset",
        Engine(
            type_=TypeComponent.AUXILIARY_ENGINE,
            name="aux engine",
            rated_power=2100.0,
            rated_speed=900,
            bsfc_curve=BSFC,
            nox_calculation_method=NOxCalculationMethod.TIER_2,
        ),
        ElectricMachine(
            type_=TypeComponent.GENERATOR,
            name="generator",
            rated_power=2000.0,
            rated_speed=900,
            power_type=TypePower.POWER_SOURCE,
            switchboard_id=1,
            eff_curve=np.array([0.95]),
        ),
    )
    load = ElectricComponent(
        type_=TypeComponent.OTHER_LOAD,
        name="hotel",
        rated_power=1000.0,
        power_type=TypePower.POWER_CONSUMER,
        switchboard_id=1,
        eff_curve=np.array([1.0]),
    )
    pti_pto = PTIPTO(
        name="PTI/PTO",
        components=[
            ElectricComponent(
                type_=TypeComponent.POWER_CONVERTER,
                power_type=TypePower.POWER_TRANSMISSION,
                name="converter",
                rated_power=1000.0,
                eff_curve=np.array([0.98]),
            ),
            ElectricMachine(
                type_=TypeComponent.SYNCHRONOUS_MACHINE,
                power_type=TypePower.PTI_PTO,
                name="shaft machine",
                rated_power=1000.0,
                rated_speed=900,
                eff_curve=np.array([0.95]),
            ),
        ],
        switchboard_id=1,
        rated_power=1000.0,
        rated_speed=900,
        shaft_line_id=1,
    )
    electric = ElectricPowerSystem("electric", [genset, load, pti_pto], [])
    main_engine = MainEngineForMechanicalPropulsion(
        "main engine",
        Engine(
            type_=TypeComponent.MAIN_ENGINE,
            name="main engine",
            rated_power=3000.0,
            rated_speed=600,
            bsfc_curve=BSFC,
            nox_calculation_method=NOxCalculationMethod.TIER_2,
        ),
        shaft_line_id=1,
    )
    propeller = MechanicalPropulsionComponent(
        type_=TypeComponent.PROPELLER_LOAD,
        power_type=TypePower.POWER_CONSUMER,
        name="propeller",
        rated_power=3000.0,
        eff_curve=np.array([1.0]),
        shaft_line_id=1,
    )
    mechanical = MechanicalPropulsionSystem("mechanical", [main_engine, pti_pto, propeller])
    plant = cls("plant", electric, mechanical)
    # step 0: PTO shares the bus load, step 1: PTI with given power, step 2: full PTI
    load.set_power_input_from_output(np.full(N, 500.0))
    propeller.set_power_input_from_output(np.full(N, 800.0))
    genset.status = np.ones(N, dtype=bool)
    genset.load_sharing_mode = np.zeros(N)
    pti_pto.status = np.ones(N, dtype=bool)
    pti_pto.load_sharing_mode = np.array([0.0, 1.0, 1.0])
    pti_pto.full_pti_mode = np.array([False, False, True])
    pti_pto.power_input = np.array([0.0, 300.0, 0.0])
    main_engine.status = np.ones(N, dtype=bool)
    plant.set_time_interval(60.0, IntegrationMethod.trapezoid)
    plant.do_power_balance_calculation()
    return plant, genset, load, pti_pto, main_engine, propeller


def report(title, parts):
    plant, genset, load, pti_pto, main_engine, propeller = parts
    tol = 0.005 * pti_pto.rated_power
    elec = np.asarray(genset.power_output) - np.asarray(load.power_input) - np.asarray(pti_pto.power_input)
    shaft = (
        np.asarray(main_engine.power_output)
        + np.asarray(pti_pto.power_output)
        - np.asarray(propeller.power_input)
    )
    print(title)
    print("   PTI/PTO electrical power [kW]:", np.round(np.asarray(pti_pto.power_input, dtype=float), 3))
    print("   PTI/PTO shaft power [kW]     :", np.round(np.asarray(pti_pto.power_output, dtype=float), 3))
    print("   genset power [kW]            :", np.round(np.asarray(genset.power_output, dtype=float), 3))
    print("   electrical balance residual  :", np.round(elec, 3), f"(allowed {tol} kW)")
    print("   shaft balance residual       :", np.round(shaft, 3))
    return bool(np.any(np.abs(elec) > tol) or np.any(np.abs(shaft) > tol))


bad_reference = report("HybridPropulsionSystem (reference):", build(HybridPropulsionSystem))
bad = report(
    "MechanicalPropulsionSystemWithElectricPowerSystem, same components and inputs:",
    build(MechanicalPropulsionSystemWithElectricPowerSystem),
)
if bad:
    print(
        "-> at the full-PTI step the shaft takes 800 kW from the PTI/PTO but the switchboard "
        "supplies nothing for it"
    )
violated = bad or bad_reference
print("PROPERTY VIOLATED" if violated else "property holds")
sys.exit(1 if violated else 0)
