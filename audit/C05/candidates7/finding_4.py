"""C05 finding 4: a series without full-PTI steps is refused unless the full-PTI flag is written out.

PTIPTO.full_pti_mode defaults to a single False ("never full PTI"), the status of a PTI/PTO and
of a main engine to a single True ("on").  For the power sources and the bus-tie breakers of the
electric system such a single value stands for the whole series (repaired earlier); the shaft
side still compares the lengths: a hybrid plant that simply runs its shaft machine as PTO over a
series of more than one step is refused until full_pti_mode = zeros(n) (and the two status series)
are spelt out.  With one step the very same plant and defaults are balanced.

Exit status 1 = valid input refused (current code), 0 = accepted and balanced.
"""
import logging
import sys

import numpy as np

logging.disable(logging.CRITICAL)

from feems.components_model.component_electric import (
    ElectricComponent,
    ElectricMachine,
    Genset,
    PTIPTO,
)
from feems.components_model.component_mechanical import (
    Engine,
    MainEngineForMechanicalPropulsion,
    MechanicalPropulsionComponent,
)
from feems.components_model.utility import IntegrationMethod
from feems.system_model import (
    ElectricPowerSystem,
    HybridPropulsionSystem,
    MechanicalPropulsionSystem,
)
from feems.types_for_feems import NOxCalculationMethod, TypeComponent, TypePower

BSFC = np.array([[0.25, 0.5, 0.75, 1.0], [220.0, 200.0, 190.0, 195.0]]).T


def run(n, write_full_pti, write_pti_status, write_engine_status):
    genset = Genset(
        "genset",
        Engine(
            type_=TypeComponent.AUXILIARY_ENGINE,
            name="aux engine",
            rated_power=2100.0,
            rated_speed=900,
            bsfc_curve=BSFC,
            nox_calculation_method=NOxCalculationMethod.TIER_2,
        ),
        ElectricMachine(
            type_=TypeComponent.GENERATOR,
            name="generator",
            rated_power=2000.0,
            rated_speed=900,
            power_type=TypePower.POWER_SOURCE,
            switchboard_id=1,
            eff_curve=np.array([0.95]),
        ),
    )
    load = ElectricComponent(
        type_=TypeComponent.OTHER_LOAD,
        name="hotel",
        rated_power=1000.0,
        power_type=TypePower.POWER_CONSUMER,
        switchboard_id=1,
        eff_curve=np.array([1.0]),
    )
    pti_pto = PTIPTO(
        name="PTI/PTO",
        components=[
            ElectricComponent(
                type_=TypeComponent.POWER_CONVERTER,
                power_type=TypePower.POWER_TRANSMISSION,
                name="converter",
                rated_power=1000.0,
                eff_curve=np.array([0.98]),
            ),
            ElectricMachine(
                type_=TypeComponent.SYNCHRONOUS_MACHINE,
                power_type=TypePower.PTI_PTO,
                name="shaft machine",
                rated_power=1000.0,
                rated_speed=900,
                eff_curve=np.array([0.95]),
            ),
        ],
        switchboard_id=1,
        rated_power=1000.0,
        rated_speed=900,
        shaft_line_id=1,
    )
    electric = ElectricPowerSystem("electric", [genset, load, pti_pto], [])
    main_engine = MainEngineForMechanicalPropulsion(
        "main engine",
        Engine(
            type_=TypeComponent.MAIN_ENGINE,
            name="main engine",
            rated_power=3000.0,
            rated_speed=600,
            bsfc_curve=BSFC,
            nox_calculation_method=NOxCalculationMethod.TIER_2,
        ),
        shaft_line_id=1,
    )
    propeller = MechanicalPropulsionComponent(
        type_=TypeComponent.PROPELLER_LOAD,
        power_type=TypePower.POWER_CONSUMER,
        name="propeller",
        rated_power=3000.0,
        eff_curve=np.array([1.0]),
        shaft_line_id=1,
    )
    mechanical = MechanicalPropulsionSystem("mechanical", [main_engine, pti_pto, propeller])
    plant = HybridPropulsionSystem("plant", electric, mechanical)

    load.set_power_input_from_output(np.linspace(400.0, 600.0, n))
    propeller.set_power_input_from_output(np.linspace(900.0, 1500.0, n))
    genset.status = np.ones(n, dtype=bool)
    genset.load_sharing_mode = np.zeros(n)
    pti_pto.load_sharing_mode = np.zeros(n)  # PTO: shares the bus load at every step
    if write_full_pti:
        pti_pto.full_pti_mode = np.zeros(n, dtype=bool)
    if write_pti_status:
        pti_pto.status = np.ones(n, dtype=bool)
    if write_engine_status:
        main_engine.status = np.ones(n, dtype=bool)
    plant.set_time_interval(60.0, IntegrationMethod.trapezoid)
    plant.do_power_balance_calculation()
    tol = 0.005 * pti_pto.rated_power
    elec = np.asarray(genset.power_output) - np.asarray(load.power_input) - np.asarray(pti_pto.power_input)
    shaft = (
        np.asarray(main_engine.power_output)
        + np.asarray(pti_pto.power_output)
        - np.asarray(propeller.power_input)
    )
    return bool(np.all(np.abs(elec) <= tol) and np.all(np.abs(shaft) <= tol))


cases = [
    ("1 step, all three left at their single-value default", 1, False, False, False),
    ("4 steps, all three series written out", 4, True, True, True),
    ("4 steps, full_pti_mode left at its default (False)", 4, False, True, True),
    ("4 steps, PTI/PTO status left at its default (on)", 4, True, False, True),
    ("4 steps, main engine status left at its default (on)", 4, True, True, False),
]
violated = False
for label, n, a, b, c in cases:
    try:
        ok = run(n, a, b, c)
        print(f"{label}: balanced on both sides: {ok}")
        violated |= not ok
    except Exception as exc:  # noqa
        text = " ".join(str(exc).split())
        print(f"{label}: REFUSED: {type(exc).__name__}: {text[:230]}")
        violated = True
print("PROPERTY VIOLATED (valid input refused)" if violated else "property holds")
sys.exit(1 if violated else 0)
