"""C05 finding 1: a hybrid plant whose shaft line carries a main engine and the PTI/PTO but no
mechanical load of its own (a shaft-generator line) is balanced for ONE step, but the same plant
is refused with an IndexError as soon as the inputs are series (n > 1).

Run: PYTHONPATH=<wt>/feems:<wt>/machinery-system-structure:<wt>/RunFEEMSSim python finding_1.py
exit status 1 = property violated (current code), 0 = property holds.
"""
import logging
import sys

import numpy as np

from feems.components_model.component_electric import (
    ElectricComponent,
    ElectricMachine,
    Genset,
    PTIPTO,
)
from feems.components_model.component_mechanical import (
    Engine,
    MainEngineForMechanicalPropulsion,
)
from feems.components_model.utility import IntegrationMethod
from feems.system_model import (
    ElectricPowerSystem,
    HybridPropulsionSystem,
    MechanicalPropulsionSystem,
)
from feems.types_for_feems import Power_kW, Speed_rpm, TypeComponent, TypePower

logging.disable(logging.CRITICAL)

BSFC = np.array([[0.25, 220.0], [0.5, 200.0], [0.75, 190.0], [1.0, 195.0]])
EFF = np.array([[0.0, 0.90], [0.25, 0.93], [0.5, 0.95], [0.75, 0.96], [1.0, 0.955]])


def build():
    engine = Engine(
        type_=TypeComponent.AUXILIARY_ENGINE,
        name="aux engine",
        rated_power=Power_kW(1050.0),
        rated_speed=Speed_rpm(900),
        bsfc_curve=BSFC,
    )
    generator = ElectricMachine(
        type_=TypeComponent.GENERATOR,
        name="generator",
        rated_power=Power_kW(1000.0),
        rated_speed=Speed_rpm(900),
        power_type=TypePower.POWER_SOURCE,
        switchboard_id=1,
        eff_curve=EFF,
    )
    genset = Genset("genset", engine, generator)
    hotel = ElectricComponent(
        type_=TypeComponent.OTHER_LOAD,
        name="hotel",
        rated_power=Power_kW(2000.0),
        eff_curve=np.array([1.0]),
        power_type=TypePower.POWER_CONSUMER,
        switchboard_id=1,
    )
    machine = ElectricMachine(
        type_=TypeComponent.SYNCHRONOUS_MACHINE,
        name="shaft machine",
        rated_power=Power_kW(800.0),
        rated_speed=Speed_rpm(900),
        power_type=TypePower.PTI_PTO,
        switchboard_id=1,
        eff_curve=EFF,
    )
    pti_pto = PTIPTO("pti pto", [machine], 1, Power_kW(800.0), Speed_rpm(900), shaft_line_id=1)
    main_engine = MainEngineForMechanicalPropulsion(
        "main engine",
        Engine(
            type_=TypeComponent.MAIN_ENGINE,
            name="me",
            rated_power=Power_kW(3000.0),
            rated_speed=Speed_rpm(600),
            bsfc_curve=BSFC,
        ),
        shaft_line_id=1,
    )
    electric = ElectricPowerSystem("electric", [genset, hotel, pti_pto], [])
    # the shaft line: main engine + PTI/PTO, no propeller / mechanical load on it
    mechanical = MechanicalPropulsionSystem("mechanical", [main_engine, pti_pto])
    hybrid = HybridPropulsionSystem("hybrid", electric, mechanical)
    hybrid.set_time_interval(60.0, IntegrationMethod.sum_with_time)
    return hybrid, genset, hotel, pti_pto, main_engine


def run(hotel_kw):
    """PTO steps only (the PTI/PTO shares the bus load with the genset, mode 0)."""
    n = len(hotel_kw)
    hybrid, genset, hotel, pti_pto, main_engine = build()
    hotel.set_power_input_from_output(np.array(hotel_kw, dtype=float))
    genset.status = np.ones(n, dtype=bool)
    pti_pto.status = np.ones(n, dtype=bool)
    pti_pto.full_pti_mode = np.zeros(n, dtype=bool)
    main_engine.status = np.ones(n, dtype=bool)
    hybrid.do_power_balance_calculation()
    tol = 0.005 * pti_pto.rated_power
    res_el = genset.power_output - hotel.power_input - pti_pto.power_input
    res_sh = main_engine.power_output + pti_pto.power_output  # no load on the line
    eff = pti_pto.get_efficiency_from_load_percentage(
        np.abs(pti_pto.power_input) / pti_pto.rated_power
    )
    res_cv = pti_pto.power_output - pti_pto.power_input / eff  # PTO: shaft = electric / eff
    print(f"  genset {genset.power_output}, PTO electric {pti_pto.power_input}, "
          f"PTO shaft {pti_pto.power_output}, main engine {main_engine.power_output}")
    print(f"  residuals: bus {res_el}, shaft {res_sh}, conversion {res_cv} (tol {tol} kW)")
    return all(np.max(np.abs(r)) <= tol for r in (res_el, res_sh, res_cv))


violated = False
for series in ([600.0], [600.0, 500.0, 400.0]):
    print(f"hotel load {series} kW, {len(series)} step(s):")
    try:
        ok = run(series)
        print("  balanced" if ok else "  NOT balanced")
        violated |= not ok
    except Exception as error:  # noqa
        print(f"  refused: {type(error).__name__}: {error}")
        violated = True
print("PROPERTY VIOLATED" if violated else "property holds")
sys.exit(1 if violated else 0)
