"""C05 finding 2: in a one-step hybrid calculation a shaft load stated as a python number through
the public setter is refused by the shaft-side input validation (AttributeError), although the
same number is accepted for the electric consumer (and, since an earlier repair, for the given
power of a PTI/PTO or storage unit) and although the same value held in a numpy number or a
one-element array is balanced correctly.

Run: PYTHONPATH=<wt>/feems:<wt>/machinery-system-structure:<wt>/RunFEEMSSim python finding_2.py
exit status 1 = property violated (current code), 0 = property holds.
"""
import logging
import sys

import numpy as np

from feems.components_model.component_electric import (
    ElectricComponent,
    ElectricMachine,
    Genset,
    PTIPTO,
)
from feems.components_model.component_mechanical import (
    Engine,
    MainEngineForMechanicalPropulsion,
    MechanicalPropulsionComponent,
)
from feems.components_model.utility import IntegrationMethod
from feems.system_model import (
    ElectricPowerSystem,
    HybridPropulsionSystem,
    MechanicalPropulsionSystem,
)
from feems.types_for_feems import Power_kW, Speed_rpm, TypeComponent, TypePower

logging.disable(logging.CRITICAL)

BSFC = np.array([[0.25, 220.0], [0.5, 200.0], [0.75, 190.0], [1.0, 195.0]])
EFF = np.array([[0.0, 0.90], [0.25, 0.93], [0.5, 0.95], [0.75, 0.96], [1.0, 0.955]])


def build():
    engine = Engine(
        type_=TypeComponent.AUXILIARY_ENGINE,
        name="aux engine",
        rated_power=Power_kW(1050.0),
        rated_speed=Speed_rpm(900),
        bsfc_curve=BSFC,
    )
    generator = ElectricMachine(
        type_=TypeComponent.GENERATOR,
        name="generator",
        rated_power=Power_kW(1000.0),
        rated_speed=Speed_rpm(900),
        power_type=TypePower.POWER_SOURCE,
        switchboard_id=1,
        eff_curve=EFF,
    )
    genset = Genset("genset", engine, generator)
    hotel = ElectricComponent(
        type_=TypeComponent.OTHER_LOAD,
        name="hotel",
        rated_power=Power_kW(2000.0),
        eff_curve=np.array([1.0]),
        power_type=TypePower.POWER_CONSUMER,
        switchboard_id=1,
    )
    machine = ElectricMachine(
        type_=TypeComponent.SYNCHRONOUS_MACHINE,
        name="shaft machine",
        rated_power=Power_kW(800.0),
        rated_speed=Speed_rpm(900),
        power_type=TypePower.PTI_PTO,
        switchboard_id=1,
        eff_curve=EFF,
    )
    pti_pto = PTIPTO("pti pto", [machine], 1, Power_kW(800.0), Speed_rpm(900), shaft_line_id=1)
    main_engine = MainEngineForMechanicalPropulsion(
        "main engine",
        Engine(
            type_=TypeComponent.MAIN_ENGINE,
            name="me",
            rated_power=Power_kW(3000.0),
            rated_speed=Speed_rpm(600),
            bsfc_curve=BSFC,
        ),
        shaft_line_id=1,
    )
    propeller = MechanicalPropulsionComponent(
        TypeComponent.PROPELLER_LOAD,
        TypePower.POWER_CONSUMER,
        "propeller",
        Power_kW(4000.0),
        np.array([1.0]),
        shaft_line_id=1,
    )
    electric = ElectricPowerSystem("electric", [genset, hotel, pti_pto], [])
    mechanical = MechanicalPropulsionSystem("mechanical", [main_engine, pti_pto, propeller])
    hybrid = HybridPropulsionSystem("hybrid", electric, mechanical)
    hybrid.set_time_interval(60.0, IntegrationMethod.sum_with_time)
    return hybrid, genset, hotel, pti_pto, main_engine, propeller


def run(shaft_load, full_pti):
    hybrid, genset, hotel, pti_pto, main_engine, propeller = build()
    hotel.set_power_output_from_input(300.0)  # a python number: accepted on the electric side
    hybrid.mechanical_system.set_power_consumer_load_by_value_for_given_name_shaft_line_id(
        "propeller", 1, shaft_load
    )
    genset.status = np.ones(1, dtype=bool)
    main_engine.status = np.ones(1, dtype=bool)
    pti_pto.full_pti_mode = np.array([full_pti])
    hybrid.do_power_balance_calculation()
    tol = 0.005 * pti_pto.rated_power
    res_el = np.atleast_1d(genset.power_output - hotel.power_input - pti_pto.power_input)
    res_sh = np.atleast_1d(main_engine.power_output + pti_pto.power_output - propeller.power_input)
    print(f"    genset {genset.power_output}, PTI/PTO electric {pti_pto.power_input}, shaft "
          f"{pti_pto.power_output}, main engine {main_engine.power_output}")
    print(f"    residuals: bus {res_el}, shaft {res_sh} (tol {tol} kW)")
    ok = np.max(np.abs(res_el)) <= tol and np.max(np.abs(res_sh)) <= tol
    if full_pti:
        ok = ok and abs(float(np.atleast_1d(pti_pto.power_output)[0]) - 600.0) <= tol
    return ok


violated = False
for label, value in (
    ("one-element array", np.array([600.0])),
    ("numpy number", np.float64(600.0)),
    ("python float", 600.0),
    ("python int", 600),
):
    for full_pti in (False, True):
        print(f"shaft load 600 kW as {label}, {'full PTI' if full_pti else 'PTO (load sharing)'}:")
        try:
            ok = run(value, full_pti)
            print("    balanced" if ok else "    NOT balanced")
            violated |= not ok
        except Exception as error:  # noqa
            print(f"    refused: {type(error).__name__}: {error}")
            violated = True
print("PROPERTY VIOLATED" if violated else "property holds")
sys.exit(1 if violated else 0)
