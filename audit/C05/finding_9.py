"""C05 finding 5 (alternative entry point, protobuf): a hybrid plant whose switchboards are not
numbered 1..n (here 2 and 5; legal, and balanced correctly when built directly) cannot be read back
from protobuf: the reader re-creates the bus-tie connections as (1, 2), (2, 3), ... from the POSITION
of the switchboards, not from their numbers.

exit 1 = property violated (current code), exit 0 = property holds
"""
import logging
import sys

import numpy as np

from feems.components_model.component_electric import (
    ElectricComponent,
    ElectricMachine,
    Genset,
    PTIPTO,
)
from feems.components_model.component_mechanical import (
    Engine,
    MainEngineForMechanicalPropulsion,
    MechanicalPropulsionComponent,
)
from feems.components_model.utility import IntegrationMethod
from feems.system_model import (
    ElectricPowerSystem,
    HybridPropulsionSystem,
    MechanicalPropulsionSystem,
)
from MachSysS.convert_to_feems import convert_proto_propulsion_system_to_feems
from MachSysS.convert_to_protobuf import convert_hybrid_propulsion_system_to_protobuf
from feems.types_for_feems import Power_kW, Speed_rpm, SwbId, TypeComponent, TypePower

logging.disable(logging.CRITICAL)

BSFC = np.array([[0.25, 230.0], [0.5, 210.0], [0.75, 200.0], [1.0, 205.0]])
EFF = np.array([[0.0, 0.88], [0.25, 0.93], [0.5, 0.95], [0.75, 0.96], [1.0, 0.955]])
N = 6
RATED_PTI_PTO = 2500.0
FULL_PTI = np.array([0, 0, 1, 1, 0, 1], dtype=bool)
PROPELLER = np.array([1000.0, 1500.0, 500.0, 600.0, 2000.0, 700.0])


def genset(name, swb):
    eng = Engine(
        type_=TypeComponent.AUXILIARY_ENGINE,
        name=name + " engine",
        rated_power=Power_kW(1050),
        rated_speed=Speed_rpm(900),
        bsfc_curve=BSFC,
    )
    gen = ElectricMachine(
        type_=TypeComponent.GENERATOR,
        name=name + " generator",
        rated_power=Power_kW(1000),
        rated_speed=Speed_rpm(900),
        power_type=TypePower.POWER_SOURCE,
        switchboard_id=SwbId(swb),
        eff_curve=EFF,
    )
    return Genset(name, eng, gen)


def build(swb_a=1, swb_b=2, with_converter=False):
    g1, g2 = genset("genset 1", swb_a), genset("genset 2", swb_b)
    loads = [
        ElectricComponent(
            type_=TypeComponent.OTHER_LOAD,
            name=f"hotel {swb}",
            rated_power=Power_kW(1000),
            eff_curve=np.array([1.0]),
            power_type=TypePower.POWER_CONSUMER,
            switchboard_id=SwbId(swb),
        )
        for swb in (swb_a, swb_b)
    ]
    machine = ElectricMachine(
        type_=TypeComponent.SYNCHRONOUS_MACHINE,
        name="shaft machine",
        rated_power=Power_kW(RATED_PTI_PTO),
        rated_speed=Speed_rpm(900),
        power_type=TypePower.PTI_PTO,
        switchboard_id=SwbId(swb_a),
        eff_curve=EFF,
    )
    members = [machine]
    if with_converter:
        members.insert(
            0,
            ElectricComponent(
                type_=TypeComponent.POWER_CONVERTER,
                name="converter",
                rated_power=Power_kW(RATED_PTI_PTO),
                eff_curve=np.array([[0.0, 0.97], [1.0, 0.985]]),
                power_type=TypePower.PTI_PTO,
                switchboard_id=SwbId(swb_a),
            ),
        )
    pti_pto = PTIPTO(
        "pti pto", members, SwbId(swb_a), Power_kW(RATED_PTI_PTO), Speed_rpm(900), shaft_line_id=1
    )
    electric = ElectricPowerSystem("electric", [g1, g2, *loads, pti_pto], [(swb_a, swb_b)])
    engine = MainEngineForMechanicalPropulsion(
        "main engine",
        Engine(
            type_=TypeComponent.MAIN_ENGINE,
            name="me",
            rated_power=Power_kW(3000),
            rated_speed=Speed_rpm(500),
            bsfc_curve=BSFC,
        ),
        shaft_line_id=1,
    )
    propeller = MechanicalPropulsionComponent(
        TypeComponent.PROPELLER_LOAD,
        TypePower.POWER_CONSUMER,
        "propeller",
        Power_kW(3500),
        np.array([1.0]),
        Speed_rpm(150),
        shaft_line_id=1,
    )
    mechanical = MechanicalPropulsionSystem("mechanical", [engine, propeller, pti_pto])
    hybrid = HybridPropulsionSystem("hybrid", electric, mechanical)
    set_inputs(hybrid)
    return hybrid


def set_inputs(hybrid):
    electric, mechanical = hybrid.electric_system, hybrid.mechanical_system
    g1, g2 = electric.power_sources
    loads = electric.other_load
    (pti_pto,) = electric.pti_pto
    (engine,) = mechanical.main_engines
    (propeller,) = mechanical.mechanical_loads
    hybrid.set_time_interval(60.0, IntegrationMethod.trapezoid)
    loads[0].power_input = np.full(N, 300.0)
    loads[1].power_input = np.full(N, 200.0)
    g1.status = np.ones(N, dtype=bool)
    g2.status = np.ones(N, dtype=bool)
    engine.status = np.ones(N, dtype=bool)
    propeller.power_input = PROPELLER.copy()
    pti_pto.status = np.ones(N, dtype=bool)
    pti_pto.full_pti_mode = FULL_PTI.copy()
    pti_pto.load_sharing_mode = np.ones(N)
    pti_pto.power_input = np.array([400.0, -300.0, 0.0, 0.0, -500.0, 0.0])
    hybrid.do_power_balance_calculation()
    return {
        "PTI/PTO electric": np.round(pti_pto.power_input, 2),
        "PTI/PTO shaft": np.round(pti_pto.power_output, 2),
        "main engine": np.round(engine.power_output, 2),
        "gensets": np.round(g1.power_output + g2.power_output, 2),
    }




def round_trip(**kwargs):
    """Combined balance on the plant built directly and on the plant read back from protobuf"""
    hybrid = build(**kwargs)
    direct = set_inputs(hybrid)
    message = convert_hybrid_propulsion_system_to_protobuf(build(**kwargs))
    try:
        read_back = convert_proto_propulsion_system_to_feems(message)
    except Exception as error:  # noqa
        return direct, f"{type(error).__name__}: {error!r}"
    return direct, set_inputs(read_back)


def report(label, direct, read_back):
    print(label)
    for key, value in direct.items():
        print(f"   direct   {key:17s}", value)
    if isinstance(read_back, str):
        print("   read back from protobuf: refused with", read_back)
        return False
    same = True
    for key, value in read_back.items():
        print(f"   protobuf {key:17s}", value)
        same &= bool(np.allclose(value, direct[key], atol=0.005 * RATED_PTI_PTO))
    return same


ok_reference = report("switchboards 1 and 2:", *round_trip(with_converter=True))
ok = report("switchboards 2 and 5:", *round_trip(swb_a=2, swb_b=5, with_converter=True))
if not (ok and ok_reference):
    print("VIOLATED: the combined balance of this hybrid plant is not available through protobuf")
    sys.exit(1)
sys.exit(0)
