"""C05 finding 2: the combined balance overwrites the main-engine status series it was given.

ShaftLine.do_power_balance switches a main engine off at every step where it delivers no power (no
shaft load, or full PTI) and HybridPropulsionSystem.do_power_balance_calculation hands the system
back in that state. A second calculation on the same objects with new loads (same length, engine
status not touched by the user: 'on' throughout) then finds the engine off at those steps and leaves
the shaft line unbalanced by the whole load - silently (a log warning only).
Exit status 1 = property violated, 0 = holds.
"""
import logging
import sys

import numpy as np

from feems.components_model.component_electric import (
    ElectricComponent,
    ElectricMachine,
    Genset,
    PTIPTO,
)
from feems.components_model.component_mechanical import (
    Engine,
    MainEngineForMechanicalPropulsion,
    MechanicalPropulsionComponent,
)
from feems.components_model.utility import IntegrationMethod
from feems.system_model import (
    ElectricPowerSystem,
    HybridPropulsionSystem,
    MechanicalPropulsionSystem,
)
from feems.types_for_feems import Power_kW, Speed_rpm, SwbId, TypeComponent, TypePower

logging.disable(logging.CRITICAL)
BSFC = np.array([[0.25, 0.5, 0.75, 1.0], [220.0, 200.0, 190.0, 195.0]]).T
EFF = np.array([[0.0, 0.25, 0.5, 0.75, 1.0], [0.88, 0.93, 0.95, 0.96, 0.955]]).T


def build():
    def genset(name):
        eng = Engine(type_=TypeComponent.AUXILIARY_ENGINE, name=name + " engine",
                     rated_power=Power_kW(1100), rated_speed=Speed_rpm(1000), bsfc_curve=BSFC)
        gen = ElectricMachine(type_=TypeComponent.GENERATOR, name=name + " generator",
                              rated_power=Power_kW(1000), rated_speed=Speed_rpm(1000),
                              power_type=TypePower.POWER_SOURCE, switchboard_id=SwbId(1),
                              eff_curve=EFF)
        return Genset(name, eng, gen)

    machine = ElectricMachine(type_=TypeComponent.SYNCHRONOUS_MACHINE, name="shaft machine",
                              rated_power=Power_kW(800), rated_speed=Speed_rpm(1000),
                              power_type=TypePower.PTI_PTO, switchboard_id=SwbId(1), eff_curve=EFF)
    converter = ElectricComponent(type_=TypeComponent.POWER_CONVERTER, name="converter",
                                  rated_power=Power_kW(800),
                                  eff_curve=np.array([[0.0, 0.5, 1.0], [0.96, 0.98, 0.985]]).T,
                                  power_type=TypePower.PTI_PTO, switchboard_id=SwbId(1))
    pti_pto = PTIPTO("PTI/PTO 1", [converter, machine], SwbId(1), Power_kW(800), Speed_rpm(1000),
                     shaft_line_id=1)
    hotel = ElectricComponent(type_=TypeComponent.OTHER_LOAD, name="hotel", rated_power=Power_kW(1000),
                              eff_curve=np.array([1.0]), power_type=TypePower.POWER_CONSUMER,
                              switchboard_id=SwbId(1))
    electric = ElectricPowerSystem("el", [genset("G1"), genset("G2"), hotel, pti_pto], [])
    main_engine = MainEngineForMechanicalPropulsion(
        "ME", Engine(type_=TypeComponent.MAIN_ENGINE, name="ME engine", rated_power=Power_kW(3000),
                     rated_speed=Speed_rpm(500), bsfc_curve=BSFC), shaft_line_id=1)
    propeller = MechanicalPropulsionComponent(TypeComponent.PROPELLER_LOAD, TypePower.POWER_CONSUMER,
                                              "propeller", Power_kW(3000), np.array([1.0]),
                                              Speed_rpm(150), shaft_line_id=1)
    mechanical = MechanicalPropulsionSystem("mech", [main_engine, propeller, pti_pto])
    return HybridPropulsionSystem("hybrid", electric, mechanical), pti_pto


def residuals(hybrid, pti_pto):
    el, me = hybrid.electric_system, hybrid.mechanical_system
    produced = sum(np.asarray(g.power_output, float) for g in el.power_sources)
    consumed = sum(np.asarray(c.power_input, float) for c in el.other_load)
    res_el = produced - consumed - np.asarray(pti_pto.power_input, float)
    shaft_load = sum(np.asarray(c.power_input, float) for c in me.mechanical_loads)
    engines = sum(np.asarray(m.power_output, float) for m in me.main_engines)
    res_shaft = engines + np.asarray(pti_pto.power_output, float) - shaft_load
    return res_el, res_shaft, shaft_load, produced, consumed


def prepare(hybrid, pti_pto, n):
    el, me = hybrid.electric_system, hybrid.mechanical_system
    for g in el.power_sources:
        g.status = np.ones(n, dtype=bool)
        g.load_sharing_mode = np.zeros(n)
    pti_pto.status = np.ones(n, dtype=bool)
    pti_pto.load_sharing_mode = np.ones(n)  # given-power mode at every step
    el.set_time_interval(60.0, IntegrationMethod.simpson)


def set_case(hybrid, pti_pto, hotel, shaft, pti_electric, full):
    el, me = hybrid.electric_system, hybrid.mechanical_system
    el.other_load[0].set_power_input_from_output(np.asarray(hotel, float))
    me.set_power_consumer_load_by_power_output_for_given_name_shaft_line_id(
        "propeller", 1, np.asarray(shaft, float))
    me.set_power_input_pti_pto_by_value_for_name_shaft_line_id(
        "PTI/PTO 1", 1, np.asarray(pti_electric, float))
    me.set_full_pti_mode_for_name_shaft_line_id("PTI/PTO 1", 1, np.asarray(full, dtype=bool))


def report(label, hybrid, pti_pto):
    res_el, res_shaft, load, produced, consumed = residuals(hybrid, pti_pto)
    tol = 0.005 * pti_pto.rated_power
    me = hybrid.mechanical_system.main_engines[0]
    print(f"--- {label}")
    print("  shaft load [kW]         :", load)
    print("  PTI/PTO shaft power     :", np.round(pti_pto.power_output, 3))
    print("  main engine power       :", np.round(me.power_output, 3))
    print("  main engine status now  :", me.status)
    print("  electrical residual     :", np.round(res_el, 3), f"(tolerance {tol} kW)")
    print("  shaft residual          :", np.round(res_shaft, 3))
    return bool((np.abs(res_el) > tol).any() or (np.abs(res_shaft) > tol).any())


n = 3
hybrid, pti_pto = build()
prepare(hybrid, pti_pto, n)
# The main engine is switched on for the whole series, once, through the public setter.
hybrid.mechanical_system.set_status_main_engine_for_name_shaft_line_id(
    "ME", 1, np.ones(n, dtype=bool))

# Case 1: at berth at step 0 (no shaft load), full PTI at step 1, PTO at step 2.
set_case(hybrid, pti_pto, hotel=[400, 400, 400], shaft=[0, 600, 2000],
         pti_electric=[0, 0, -300], full=[False, True, False])
hybrid.do_power_balance_calculation()
bad1 = report("first calculation", hybrid, pti_pto)

# Case 2: the same objects, new loads, no full PTI. The engine status series was not touched by
# the user: it is still 'on at every step' as far as the user is concerned.
set_case(hybrid, pti_pto, hotel=[400, 400, 400], shaft=[1800, 1700, 2000],
         pti_electric=[200, -300, -300], full=[False, False, False])
hybrid.do_power_balance_calculation()
bad2 = report("second calculation on the same objects with new loads", hybrid, pti_pto)

# Control: a fresh plant with the loads of case 2 is balanced.
fresh, fresh_pti = build()
prepare(fresh, fresh_pti, n)
fresh.mechanical_system.set_status_main_engine_for_name_shaft_line_id("ME", 1, np.ones(n, dtype=bool))
set_case(fresh, fresh_pti, hotel=[400, 400, 400], shaft=[1800, 1700, 2000],
         pti_electric=[200, -300, -300], full=[False, False, False])
fresh.do_power_balance_calculation()
ctrl = report("control: the loads of case 2 on a fresh plant", fresh, fresh_pti)

print("first violated:", bad1, " second violated:", bad2, " control violated:", ctrl)
bad = bad1 or bad2
print("PROPERTY VIOLATED" if bad else "property holds")
sys.exit(1 if bad else 0)
