"""C05 finding 5: RunFeemsSim.MachineryCalculation accepts a HybridPropulsionSystem but cannot run it.

MachineryCalculation._run_simulation sizes the status / load-sharing series of the generating sets,
the energy storage and the main engines to the number of load points, but never those of the
PTI/PTO (status, load_sharing_mode, full_pti_mode, power input). For any input with more than one
point the combined balance is refused with InputError, although the same plant and loads are
balanced by HybridPropulsionSystem.do_power_balance_calculation once the series are given.
Exit status 1 = valid input refused / entry points disagree, 0 = holds.
"""
import logging
import sys

import numpy as np

from feems.components_model.component_electric import (
    ElectricComponent,
    ElectricMachine,
    Genset,
    PTIPTO,
)
from feems.components_model.component_mechanical import (
    Engine,
    MainEngineForMechanicalPropulsion,
    MechanicalPropulsionComponent,
)
from feems.components_model.utility import IntegrationMethod
from feems.system_model import (
    ElectricPowerSystem,
    HybridPropulsionSystem,
    MechanicalPropulsionSystem,
)
from feems.types_for_feems import Power_kW, Speed_rpm, SwbId, TypeComponent, TypePower

logging.disable(logging.CRITICAL)
BSFC = np.array([[0.25, 0.5, 0.75, 1.0], [220.0, 200.0, 190.0, 195.0]]).T
EFF = np.array([[0.0, 0.25, 0.5, 0.75, 1.0], [0.88, 0.93, 0.95, 0.96, 0.955]]).T


def build():
    def genset(name):
        eng = Engine(type_=TypeComponent.AUXILIARY_ENGINE, name=name + " engine",
                     rated_power=Power_kW(1100), rated_speed=Speed_rpm(1000), bsfc_curve=BSFC)
        gen = ElectricMachine(type_=TypeComponent.GENERATOR, name=name + " generator",
                              rated_power=Power_kW(1000), rated_speed=Speed_rpm(1000),
                              power_type=TypePower.POWER_SOURCE, switchboard_id=SwbId(1),
                              eff_curve=EFF)
        return Genset(name, eng, gen)

    machine = ElectricMachine(type_=TypeComponent.SYNCHRONOUS_MACHINE, name="shaft machine",
                              rated_power=Power_kW(800), rated_speed=Speed_rpm(1000),
                              power_type=TypePower.PTI_PTO, switchboard_id=SwbId(1), eff_curve=EFF)
    converter = ElectricComponent(type_=TypeComponent.POWER_CONVERTER, name="converter",
                                  rated_power=Power_kW(800),
                                  eff_curve=np.array([[0.0, 0.5, 1.0], [0.96, 0.98, 0.985]]).T,
                                  power_type=TypePower.PTI_PTO, switchboard_id=SwbId(1))
    pti_pto = PTIPTO("PTI/PTO 1", [converter, machine], SwbId(1), Power_kW(800), Speed_rpm(1000),
                     shaft_line_id=1)
    hotel = ElectricComponent(type_=TypeComponent.OTHER_LOAD, name="hotel", rated_power=Power_kW(1000),
                              eff_curve=np.array([1.0]), power_type=TypePower.POWER_CONSUMER,
                              switchboard_id=SwbId(1))
    electric = ElectricPowerSystem("el", [genset("G1"), genset("G2"), hotel, pti_pto], [])
    main_engine = MainEngineForMechanicalPropulsion(
        "ME", Engine(type_=TypeComponent.MAIN_ENGINE, name="ME engine", rated_power=Power_kW(3000),
                     rated_speed=Speed_rpm(500), bsfc_curve=BSFC), shaft_line_id=1)
    propeller = MechanicalPropulsionComponent(TypeComponent.PROPELLER_LOAD, TypePower.POWER_CONSUMER,
                                              "propeller", Power_kW(3000), np.array([1.0]),
                                              Speed_rpm(150), shaft_line_id=1)
    mechanical = MechanicalPropulsionSystem("mech", [main_engine, propeller, pti_pto])
    return HybridPropulsionSystem("hybrid", electric, mechanical), pti_pto


def residuals(hybrid, pti_pto):
    el, me = hybrid.electric_system, hybrid.mechanical_system
    produced = sum(np.asarray(g.power_output, float) for g in el.power_sources)
    consumed = sum(np.asarray(c.power_input, float) for c in el.other_load)
    res_el = produced - consumed - np.asarray(pti_pto.power_input, float)
    shaft_load = sum(np.asarray(c.power_input, float) for c in me.mechanical_loads)
    engines = sum(np.asarray(m.power_output, float) for m in me.main_engines)
    res_shaft = engines + np.asarray(pti_pto.power_output, float) - shaft_load
    return res_el, res_shaft, shaft_load, produced, consumed


import pandas as pd
from RunFeemsSim.machinery_calculation import MachineryCalculation

bad = False
hybrid, pti_pto = build()
calc = MachineryCalculation(hybrid)  # default PMS load table, as for any other system kind
# propulsion power at 0, 60, 120, 180 s -> three intervals
propulsion = pd.Series(data=[1500.0, 1000.0, 2000.0, 0.0], index=[0.0, 60.0, 120.0, 180.0])
print("--- MachineryCalculation on a hybrid plant, PTI/PTO as constructed (PTO sharing the bus load)")
try:
    calc.calculate_machinery_system_output_from_propulsion_power_time_series(
        propulsion_power=propulsion, auxiliary_power_kw=400.0)
    res_el, res_shaft, *_ = residuals(hybrid, pti_pto)
    tol = 0.005 * pti_pto.rated_power
    print("  electrical residual:", np.round(res_el, 3), " shaft residual:", np.round(res_shaft, 3))
    bad |= bool((np.abs(res_el) > tol).any() or (np.abs(res_shaft) > tol).any())
except Exception as exc:  # noqa
    print("  REFUSED:", type(exc).__name__, "-", exc)
    bad = True

print("--- the same plant and loads through HybridPropulsionSystem.do_power_balance_calculation")
hybrid2, pti_pto2 = build()
n = 3
el, me = hybrid2.electric_system, hybrid2.mechanical_system
for g in el.power_sources:
    g.status = np.ones(n, dtype=bool)
    g.load_sharing_mode = np.zeros(n)
pti_pto2.status = np.ones(n, dtype=bool)
pti_pto2.load_sharing_mode = np.zeros(n)
pti_pto2.full_pti_mode = np.zeros(n, dtype=bool)
pti_pto2.set_power_output_from_input(np.zeros(n))
el.other_load[0].set_power_input_from_output(np.full(n, 400.0))
me.mechanical_loads[0].set_power_input_from_output(np.array([1500.0, 1000.0, 2000.0]))
me.main_engines[0].status = np.ones(n, dtype=bool)
el.set_time_interval(np.full(n, 60.0), IntegrationMethod.sum_with_time)
hybrid2.do_power_balance_calculation()
res_el, res_shaft, *_ = residuals(hybrid2, pti_pto2)
print("  electrical residual:", np.round(res_el, 3), " shaft residual:", np.round(res_shaft, 3),
      " PTO electrical power:", np.round(pti_pto2.power_input, 3))

print("PROPERTY VIOLATED (valid input refused by the alternative entry point)" if bad
      else "property holds")
sys.exit(1 if bad else 0)
