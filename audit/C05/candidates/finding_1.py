"""C05 finding 1: full-PTI requested on a PTI/PTO whose load-sharing mode is 0 (the default) at that step.

The combined hybrid balance leaves the switchboard unbalanced: the generating sets are loaded as if the
machine were a PTO sharing the bus load, while the machine's final electrical power is the full-PTI input.
Exit status 1 = property violated, 0 = holds.
"""
import logging
import sys

import numpy as np

from feems.components_model.component_electric import (
    ElectricComponent,
    ElectricMachine,
    Genset,
    PTIPTO,
)
from feems.components_model.component_mechanical import (
    Engine,
    MainEngineForMechanicalPropulsion,
    MechanicalPropulsionComponent,
)
from feems.components_model.utility import IntegrationMethod
from feems.system_model import (
    ElectricPowerSystem,
    HybridPropulsionSystem,
    MechanicalPropulsionSystem,
)
from feems.types_for_feems import Power_kW, Speed_rpm, SwbId, TypeComponent, TypePower

logging.disable(logging.CRITICAL)
BSFC = np.array([[0.25, 0.5, 0.75, 1.0], [220.0, 200.0, 190.0, 195.0]]).T
EFF = np.array([[0.0, 0.25, 0.5, 0.75, 1.0], [0.88, 0.93, 0.95, 0.96, 0.955]]).T


def build():
    def genset(name):
        eng = Engine(type_=TypeComponent.AUXILIARY_ENGINE, name=name + " engine",
                     rated_power=Power_kW(1100), rated_speed=Speed_rpm(1000), bsfc_curve=BSFC)
        gen = ElectricMachine(type_=TypeComponent.GENERATOR, name=name + " generator",
                              rated_power=Power_kW(1000), rated_speed=Speed_rpm(1000),
                              power_type=TypePower.POWER_SOURCE, switchboard_id=SwbId(1),
                              eff_curve=EFF)
        return Genset(name, eng, gen)

    machine = ElectricMachine(type_=TypeComponent.SYNCHRONOUS_MACHINE, name="shaft machine",
                              rated_power=Power_kW(800), rated_speed=Speed_rpm(1000),
                              power_type=TypePower.PTI_PTO, switchboard_id=SwbId(1), eff_curve=EFF)
    converter = ElectricComponent(type_=TypeComponent.POWER_CONVERTER, name="converter",
                                  rated_power=Power_kW(800),
                                  eff_curve=np.array([[0.0, 0.5, 1.0], [0.96, 0.98, 0.985]]).T,
                                  power_type=TypePower.PTI_PTO, switchboard_id=SwbId(1))
    pti_pto = PTIPTO("PTI/PTO 1", [converter, machine], SwbId(1), Power_kW(800), Speed_rpm(1000),
                     shaft_line_id=1)
    hotel = ElectricComponent(type_=TypeComponent.OTHER_LOAD, name="hotel", rated_power=Power_kW(1000),
                              eff_curve=np.array([1.0]), power_type=TypePower.POWER_CONSUMER,
                              switchboard_id=SwbId(1))
    electric = ElectricPowerSystem("el", [genset("G1"), genset("G2"), hotel, pti_pto], [])
    main_engine = MainEngineForMechanicalPropulsion(
        "ME", Engine(type_=TypeComponent.MAIN_ENGINE, name="ME engine", rated_power=Power_kW(3000),
                     rated_speed=Speed_rpm(500), bsfc_curve=BSFC), shaft_line_id=1)
    propeller = MechanicalPropulsionComponent(TypeComponent.PROPELLER_LOAD, TypePower.POWER_CONSUMER,
                                              "propeller", Power_kW(3000), np.array([1.0]),
                                              Speed_rpm(150), shaft_line_id=1)
    mechanical = MechanicalPropulsionSystem("mech", [main_engine, propeller, pti_pto])
    return HybridPropulsionSystem("hybrid", electric, mechanical), pti_pto


def residuals(hybrid, pti_pto):
    el, me = hybrid.electric_system, hybrid.mechanical_system
    produced = sum(np.asarray(g.power_output, float) for g in el.power_sources)
    consumed = sum(np.asarray(c.power_input, float) for c in el.other_load)
    res_el = produced - consumed - np.asarray(pti_pto.power_input, float)
    shaft_load = sum(np.asarray(c.power_input, float) for c in me.mechanical_loads)
    engines = sum(np.asarray(m.power_output, float) for m in me.main_engines)
    res_shaft = engines + np.asarray(pti_pto.power_output, float) - shaft_load
    return res_el, res_shaft, shaft_load, produced, consumed


def case(label, n, full, shaft_load, hotel_load, mode=None):
    hybrid, pti_pto = build()
    el, me = hybrid.electric_system, hybrid.mechanical_system
    for g in el.power_sources:
        g.status = np.ones(n, dtype=bool)
        g.load_sharing_mode = np.zeros(n)
    el.other_load[0].set_power_input_from_output(np.asarray(hotel_load, float))
    me.mechanical_loads[0].set_power_input_from_output(np.asarray(shaft_load, float))
    for m in me.main_engines:
        m.status = np.ones(n, dtype=bool)
    pti_pto.status = np.ones(n, dtype=bool)
    if mode is not None:  # otherwise the constructor's default np.zeros(1) = mode 0 stays
        pti_pto.load_sharing_mode = np.asarray(mode, float)
        pti_pto.set_power_output_from_input(np.zeros(n))
    me.set_full_pti_mode_for_name_shaft_line_id("PTI/PTO 1", 1, np.asarray(full, dtype=bool))
    el.set_time_interval(60.0, IntegrationMethod.simpson)
    hybrid.do_power_balance_calculation()
    res_el, res_shaft, load, produced, consumed = residuals(hybrid, pti_pto)
    tol = 0.005 * pti_pto.rated_power
    print(f"--- {label}")
    print("  full-PTI flags          :", np.asarray(full, dtype=int))
    print("  load sharing mode       :", pti_pto.load_sharing_mode)
    print("  shaft load [kW]         :", load)
    print("  PTI/PTO shaft power     :", np.round(pti_pto.power_output, 3))
    print("  PTI/PTO electrical power:", np.round(pti_pto.power_input, 3))
    print("  generating sets produce :", np.round(produced, 3), " consumers take", consumed)
    print("  electrical residual     :", np.round(res_el, 3), f"(tolerance {tol} kW)")
    print("  shaft residual          :", np.round(res_shaft, 3))
    return bool((np.abs(res_el) > tol).any() or (np.abs(res_shaft) > tol).any())


bad = False
# Minimal: one step, everything on the PTI/PTO left as constructed, only full-PTI is requested.
bad |= case("one step, PTI/PTO as constructed (mode 0 by default), full PTI requested",
            1, [True], [600.0], [500.0])
# Series: PTO sharing (mode 0) throughout, full PTI requested at the middle step.
bad |= case("three steps, mode 0 throughout, full PTI at step 1",
            3, [False, True, False], [1500.0, 600.0, 1500.0], [500.0, 500.0, 500.0], mode=[0, 0, 0])
# Control: the same series with mode 1 at the full-PTI step is balanced.
ctrl = case("control: mode 1 at the full-PTI step",
            3, [False, True, False], [1500.0, 600.0, 1500.0], [500.0, 500.0, 500.0], mode=[0, 1, 0])
print("control violated:", ctrl)
print("PROPERTY VIOLATED" if bad else "property holds")
sys.exit(1 if bad else 0)
