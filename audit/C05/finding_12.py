"""C05 finding 1: a hybrid plant with a second shaft line that carries only a main engine
(no load of its own, no PTI/PTO) cannot be balanced over a series (IndexError), although the same
plant is balanced for one step. Sibling case of repair 0620a6e (line with engine + PTI/PTO, no load)."""
import sys
import os
sys.path.insert(0, os.path.dirname(os.path.abspath(__file__)))
from common_plant import *


def build():
    pti = ptipto("PTI1", 1, 1)
    es = ElectricPowerSystem("el", [genset("Ga", 1), genset("Gb", 1), load_el("L", 1), pti], [])
    ms = MechanicalPropulsionSystem(
        "mech", [main_engine("ME1", 1), prop("P1", 1), pti, main_engine("ME2", 2)]
    )  # shaft line 2: an engine that is clutched out / drives nothing in this calculation
    return HybridPropulsionSystem("hy", es, ms)


def run(n):
    hy = build()
    es, ms = hy.electric_system, hy.mechanical_system
    hy.set_time_interval(1.0, IntegrationMethod.sum_with_time)
    es.other_load[0].power_input = np.array([800.0, 900.0, 1000.0, 700.0])[:n]
    p = es.pti_pto[0]
    p.status = np.ones(n, dtype=bool)
    p.full_pti_mode = np.array([True, False, False, True])[:n]
    p.load_sharing_mode = np.zeros(n)
    for g in es.power_sources:
        g.status = np.ones(n, dtype=bool)
        g.load_sharing_mode = np.zeros(n)
    for m in ms.main_engines:
        m.status = np.ones(n, dtype=bool)
    ms.mechanical_loads[0].power_input = np.array([500.0, 3000.0, 2500.0, 800.0])[:n]
    hy.do_power_balance_calculation()
    return worst_residual(hy)


violated = False
for n in (1, 4):
    try:
        w = run(n)
        print(f"{n} step(s): balanced, worst residual / PTI-PTO rating = {w:.2e}")
        if w > 0.005:
            violated = True
    except Exception as e:  # noqa
        print(f"{n} step(s): REFUSED with {type(e).__name__}: {e}")
        violated = True
print("property violated" if violated else "property holds")
sys.exit(1 if violated else 0)
