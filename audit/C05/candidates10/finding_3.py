"""C05 finding 3: a constant shaft load (one-element array) next to series on the electric side is
refused by the shaft-side validator, although ShaftLine.do_power_balance (repair 0620a6e: 'a line
without a load of its own, or with constant loads: the single value stands for the whole series')
and the electric side (constant consumers) accept single values."""
import sys
import os
sys.path.insert(0, os.path.dirname(os.path.abspath(__file__)))
from common_plant import *


def run(shaft_load):
    n = 4
    pti = ptipto("PTI1", 1, 1)
    es = ElectricPowerSystem("el", [genset("Ga", 1), genset("Gb", 1), load_el("L", 1), pti], [])
    ms = MechanicalPropulsionSystem("mech", [main_engine("ME1", 1), prop("P1", 1), pti])
    hy = HybridPropulsionSystem("hy", es, ms)
    hy.set_time_interval(1.0, IntegrationMethod.sum_with_time)
    for g in es.power_sources:
        g.status = np.ones(n, dtype=bool)
        g.load_sharing_mode = np.zeros(n)
    pti.status = np.ones(n, dtype=bool)
    pti.load_sharing_mode = np.zeros(n)
    pti.full_pti_mode = np.array([False, False, True, False])
    ms.main_engines[0].status = np.ones(n, dtype=bool)
    es.other_load[0].power_input = np.array([800.0, 900.0, 1000.0, 700.0])
    ms.mechanical_loads[0].power_input = shaft_load
    hy.do_power_balance_calculation()
    return worst_residual(hy)


violated = False
for label, load in (("series of four equal values", np.full(4, 500.0)),
                    ("one-element array (constant)", np.array([500.0]))):
    try:
        w = run(load)
        print(f"shaft load as {label}: balanced, worst residual / rating = {w:.2e}")
        if w > 0.005:
            violated = True
    except Exception as e:  # noqa
        print(f"shaft load as {label}: REFUSED with {type(e).__name__}: {str(e)[:200]}")
        violated = True
print("property violated" if violated else "property holds")
sys.exit(1 if violated else 0)
