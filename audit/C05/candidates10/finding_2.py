"""C05 finding 2: one-step calculation stated in plain numbers (repair ad77a7c accepts plain numbers
for the shaft load and the PTI/PTO power): the full-PTI request stated as a plain True (or np.bool_,
or a 0-d array) is refused with 'cannot broadcast a non-scalar to a scalar array', while
np.array([True]) is balanced."""
import sys
import os
sys.path.insert(0, os.path.dirname(os.path.abspath(__file__)))
from common_plant import *


def run(flag):
    pti = ptipto("PTI1", 1, 1)
    es = ElectricPowerSystem("el", [genset("Ga", 1), genset("Gb", 1), load_el("L", 1), pti], [])
    ms = MechanicalPropulsionSystem("mech", [main_engine("ME1", 1), prop("P1", 1), pti])
    hy = HybridPropulsionSystem("hy", es, ms)
    hy.set_time_interval(1.0, IntegrationMethod.sum_with_time)
    for g in es.power_sources:
        g.status = np.array([True])
        g.load_sharing_mode = np.array([0])
    pti.status = np.array([True])
    ms.main_engines[0].status = np.array([True])
    es.other_load[0].power_input = 800.0  # plain numbers, as ad77a7c allows
    ms.mechanical_loads[0].power_input = 500.0
    pti.full_pti_mode = flag
    hy.do_power_balance_calculation()
    print("   PTI/PTO electric", pti.power_input, "shaft", pti.power_output)
    return worst_residual(hy)


violated = False
for flag in (np.array([True]), True, np.bool_(True), np.array(True)):
    try:
        w = run(flag)
        print(f"flag {flag!r}: balanced, worst residual / rating = {w:.2e}")
        if w > 0.005:
            violated = True
    except Exception as e:  # noqa
        print(f"flag {flag!r}: REFUSED with {type(e).__name__}: {e}")
        violated = True
print("property violated" if violated else "property holds")
sys.exit(1 if violated else 0)
