"""C05 finding 1: a PTI/PTO power given as a single value (a constant) is thrown away by
HybridPropulsionSystem.do_power_balance_calculation as soon as one step of the series asks for
full-PTI mode: the PTO steps of the same series are then calculated with 0 kW.

exit 1 = property violated (current code), exit 0 = property holds
"""
import logging
import sys

import numpy as np

from feems.components_model.component_electric import (
    ElectricComponent,
    ElectricMachine,
    Genset,
    PTIPTO,
)
from feems.components_model.component_mechanical import (
    Engine,
    MainEngineForMechanicalPropulsion,
    MechanicalPropulsionComponent,
)
from feems.components_model.utility import IntegrationMethod
from feems.system_model import (
    ElectricPowerSystem,
    HybridPropulsionSystem,
    MechanicalPropulsionSystem,
)
from feems.types_for_feems import Power_kW, Speed_rpm, SwbId, TypeComponent, TypePower

logging.disable(logging.CRITICAL)

BSFC = np.array([[0.25, 230.0], [0.5, 210.0], [0.75, 200.0], [1.0, 205.0]])
EFF = np.array([[0.0, 0.88], [0.25, 0.93], [0.5, 0.95], [0.75, 0.96], [1.0, 0.955]])
N = 6
RATED_PTI_PTO = 2500.0
FULL_PTI = np.array([0, 0, 1, 1, 0, 1], dtype=bool)
PROPELLER = np.array([1000.0, 1500.0, 500.0, 600.0, 2000.0, 700.0])
GIVEN_PTO_KW = -250.0  # the shaft generator feeds 250 kW into the bus at the steps without full PTI


def genset(name, swb):
    eng = Engine(
        type_=TypeComponent.AUXILIARY_ENGINE,
        name=name + " engine",
        rated_power=Power_kW(1050),
        rated_speed=Speed_rpm(900),
        bsfc_curve=BSFC,
    )
    gen = ElectricMachine(
        type_=TypeComponent.GENERATOR,
        name=name + " generator",
        rated_power=Power_kW(1000),
        rated_speed=Speed_rpm(900),
        power_type=TypePower.POWER_SOURCE,
        switchboard_id=SwbId(swb),
        eff_curve=EFF,
    )
    return Genset(name, eng, gen)


def build():
    g1, g2 = genset("genset 1", 1), genset("genset 2", 2)
    loads = [
        ElectricComponent(
            type_=TypeComponent.OTHER_LOAD,
            name=f"hotel {swb}",
            rated_power=Power_kW(1000),
            eff_curve=np.array([1.0]),
            power_type=TypePower.POWER_CONSUMER,
            switchboard_id=SwbId(swb),
        )
        for swb in (1, 2)
    ]
    machine = ElectricMachine(
        type_=TypeComponent.SYNCHRONOUS_MACHINE,
        name="shaft machine",
        rated_power=Power_kW(RATED_PTI_PTO),
        rated_speed=Speed_rpm(900),
        power_type=TypePower.PTI_PTO,
        switchboard_id=SwbId(1),
        eff_curve=EFF,
    )
    pti_pto = PTIPTO(
        "pti pto", [machine], SwbId(1), Power_kW(RATED_PTI_PTO), Speed_rpm(900), shaft_line_id=1
    )
    electric = ElectricPowerSystem("electric", [g1, g2, *loads, pti_pto], [(1, 2)])
    engine = MainEngineForMechanicalPropulsion(
        "main engine",
        Engine(
            type_=TypeComponent.MAIN_ENGINE,
            name="me",
            rated_power=Power_kW(3000),
            rated_speed=Speed_rpm(500),
            bsfc_curve=BSFC,
        ),
        shaft_line_id=1,
    )
    propeller = MechanicalPropulsionComponent(
        TypeComponent.PROPELLER_LOAD,
        TypePower.POWER_CONSUMER,
        "propeller",
        Power_kW(3500),
        np.array([1.0]),
        Speed_rpm(150),
        shaft_line_id=1,
    )
    mechanical = MechanicalPropulsionSystem("mechanical", [engine, propeller, pti_pto])
    hybrid = HybridPropulsionSystem("hybrid", electric, mechanical)
    hybrid.set_time_interval(60.0, IntegrationMethod.trapezoid)
    loads[0].power_input = np.full(N, 300.0)
    loads[1].power_input = np.full(N, 200.0)
    g1.status = np.ones(N, dtype=bool)
    g2.status = np.ones(N, dtype=bool)
    engine.status = np.ones(N, dtype=bool)
    propeller.power_input = PROPELLER.copy()
    pti_pto.status = np.ones(N, dtype=bool)
    pti_pto.full_pti_mode = FULL_PTI.copy()
    return hybrid, pti_pto, engine, (g1, g2)


def run(power_input, load_sharing_mode):
    hybrid, pti_pto, engine, gensets = build()
    pti_pto.load_sharing_mode = load_sharing_mode  # 1: the power of the machine is given
    pti_pto.power_input = power_input
    hybrid.do_power_balance_calculation()
    return (
        np.array(pti_pto.power_input, dtype=float),
        np.array(pti_pto.power_output, dtype=float),
        np.array(engine.power_output, dtype=float),
        sum(np.array(g.power_output, dtype=float) for g in gensets),
    )


# the constant as a series (reference) and as a single value: one and the same input
series = run(np.full(N, GIVEN_PTO_KW), np.ones(N))
single = run(np.array([GIVEN_PTO_KW]), np.ones(1))
names = ("PTI/PTO electric kW", "PTI/PTO shaft kW   ", "main engine kW     ", "gensets kW         ")
print("full PTI steps:", FULL_PTI.astype(int), " given PTO power at the other steps:", GIVEN_PTO_KW)
for name, a, b in zip(names, series, single):
    print(f"{name} given as series      : {np.round(a, 1)}")
    print(f"{name} given as single value: {np.round(b, 1)}")

tolerance = 0.005 * RATED_PTI_PTO
pto_steps = ~FULL_PTI
deviation_given = np.abs(single[0][pto_steps] - GIVEN_PTO_KW).max()
deviation_series = max(np.abs(a - b).max() for a, b in zip(series, single))
print(
    f"electric power of the PTI/PTO at the PTO steps deviates from the given power by "
    f"{deviation_given:.1f} kW (tolerance {tolerance:.1f} kW); the two representations of the "
    f"same input differ by up to {deviation_series:.1f} kW"
)
if deviation_given > tolerance or deviation_series > tolerance:
    print(
        "VIOLATED: PTO and full-PTI steps mixed in one series - the balances are formed with "
        "0 kW instead of the electrical power the PTI/PTO was given."
    )
    sys.exit(1)
print("holds")
sys.exit(0)
