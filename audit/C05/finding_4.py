"""C05 finding 4: the electric side takes the length of the series from the electric consumers only.

ElectricPowerSystem.validate_inputs_before_power_balance_calculation reads the number of points from
the summed POWER_CONSUMER input of bus 1. In a hybrid plant the series may come from the shaft side
and the PTI/PTO alone: with a constant hotel load given as a one-element array (a representation the
electric balance otherwise accepts next to longer series), or with no electric consumer at all, the
number of points is taken to be 1 and the PTI/PTO series (mode, power) are refused with InputError.
Exit status 1 = valid input refused / property violated, 0 = holds.
"""
import logging
import sys

import numpy as np

from feems.components_model.component_electric import (
    ElectricComponent,
    ElectricMachine,
    Genset,
    PTIPTO,
)
from feems.components_model.component_mechanical import (
    Engine,
    MainEngineForMechanicalPropulsion,
    MechanicalPropulsionComponent,
)
from feems.components_model.utility import IntegrationMethod
from feems.system_model import (
    ElectricPowerSystem,
    HybridPropulsionSystem,
    MechanicalPropulsionSystem,
)
from feems.types_for_feems import Power_kW, Speed_rpm, SwbId, TypeComponent, TypePower

logging.disable(logging.CRITICAL)
BSFC = np.array([[0.25, 0.5, 0.75, 1.0], [220.0, 200.0, 190.0, 195.0]]).T
EFF = np.array([[0.0, 0.25, 0.5, 0.75, 1.0], [0.88, 0.93, 0.95, 0.96, 0.955]]).T


def build():
    def genset(name):
        eng = Engine(type_=TypeComponent.AUXILIARY_ENGINE, name=name + " engine",
                     rated_power=Power_kW(1100), rated_speed=Speed_rpm(1000), bsfc_curve=BSFC)
        gen = ElectricMachine(type_=TypeComponent.GENERATOR, name=name + " generator",
                              rated_power=Power_kW(1000), rated_speed=Speed_rpm(1000),
                              power_type=TypePower.POWER_SOURCE, switchboard_id=SwbId(1),
                              eff_curve=EFF)
        return Genset(name, eng, gen)

    machine = ElectricMachine(type_=TypeComponent.SYNCHRONOUS_MACHINE, name="shaft machine",
                              rated_power=Power_kW(800), rated_speed=Speed_rpm(1000),
                              power_type=TypePower.PTI_PTO, switchboard_id=SwbId(1), eff_curve=EFF)
    converter = ElectricComponent(type_=TypeComponent.POWER_CONVERTER, name="converter",
                                  rated_power=Power_kW(800),
                                  eff_curve=np.array([[0.0, 0.5, 1.0], [0.96, 0.98, 0.985]]).T,
                                  power_type=TypePower.PTI_PTO, switchboard_id=SwbId(1))
    pti_pto = PTIPTO("PTI/PTO 1", [converter, machine], SwbId(1), Power_kW(800), Speed_rpm(1000),
                     shaft_line_id=1)
    hotel = ElectricComponent(type_=TypeComponent.OTHER_LOAD, name="hotel", rated_power=Power_kW(1000),
                              eff_curve=np.array([1.0]), power_type=TypePower.POWER_CONSUMER,
                              switchboard_id=SwbId(1))
    electric = ElectricPowerSystem("el", [genset("G1"), genset("G2"), hotel, pti_pto], [])
    main_engine = MainEngineForMechanicalPropulsion(
        "ME", Engine(type_=TypeComponent.MAIN_ENGINE, name="ME engine", rated_power=Power_kW(3000),
                     rated_speed=Speed_rpm(500), bsfc_curve=BSFC), shaft_line_id=1)
    propeller = MechanicalPropulsionComponent(TypeComponent.PROPELLER_LOAD, TypePower.POWER_CONSUMER,
                                              "propeller", Power_kW(3000), np.array([1.0]),
                                              Speed_rpm(150), shaft_line_id=1)
    mechanical = MechanicalPropulsionSystem("mech", [main_engine, propeller, pti_pto])
    return HybridPropulsionSystem("hybrid", electric, mechanical), pti_pto


def residuals(hybrid, pti_pto):
    el, me = hybrid.electric_system, hybrid.mechanical_system
    produced = sum(np.asarray(g.power_output, float) for g in el.power_sources)
    consumed = sum(np.asarray(c.power_input, float) for c in el.other_load)
    res_el = produced - consumed - np.asarray(pti_pto.power_input, float)
    shaft_load = sum(np.asarray(c.power_input, float) for c in me.mechanical_loads)
    engines = sum(np.asarray(m.power_output, float) for m in me.main_engines)
    res_shaft = engines + np.asarray(pti_pto.power_output, float) - shaft_load
    return res_el, res_shaft, shaft_load, produced, consumed


def load_case(hybrid, pti_pto, hotel, n=3):
    el, me = hybrid.electric_system, hybrid.mechanical_system
    for g in el.power_sources:
        g.status = np.ones(n, dtype=bool)
        g.load_sharing_mode = np.zeros(n)
    pti_pto.status = np.ones(n, dtype=bool)
    pti_pto.load_sharing_mode = np.array([1.0, 1.0, 0.0])
    if hotel is not None:
        el.other_load[0].set_power_input_from_output(np.asarray(hotel, float))
    me.set_power_consumer_load_by_power_output_for_given_name_shaft_line_id(
        "propeller", 1, np.array([1500.0, 600.0, 2000.0]))
    me.set_power_input_pti_pto_by_value_for_name_shaft_line_id(
        "PTI/PTO 1", 1, np.array([-300.0, 0.0, 0.0]))
    me.set_full_pti_mode_for_name_shaft_line_id("PTI/PTO 1", 1, np.array([False, True, False]))
    me.set_status_main_engine_for_name_shaft_line_id("ME", 1, np.ones(n, dtype=bool))
    el.set_time_interval(60.0, IntegrationMethod.simpson)


def residuals_any(hybrid, pti_pto, n):
    el, me = hybrid.electric_system, hybrid.mechanical_system
    produced = sum(np.asarray(g.power_output, float) for g in el.power_sources)
    consumed = sum((np.asarray(c.power_input, float) * np.ones(n) for c in el.other_load), np.zeros(n))
    res_el = produced - consumed - np.asarray(pti_pto.power_input, float)
    shaft_load = sum(np.asarray(c.power_input, float) for c in me.mechanical_loads)
    engines = sum(np.asarray(m.power_output, float) for m in me.main_engines)
    return res_el, engines + np.asarray(pti_pto.power_output, float) - shaft_load


def attempt(label, hybrid, pti_pto, n=3):
    print(f"--- {label}")
    try:
        hybrid.do_power_balance_calculation()
    except Exception as exc:  # noqa
        print("  REFUSED:", type(exc).__name__, "-", exc)
        return True
    res_el, res_shaft = residuals_any(hybrid, pti_pto, n)
    tol = 0.005 * pti_pto.rated_power
    print("  electrical residual:", np.round(res_el, 3), " shaft residual:", np.round(res_shaft, 3))
    return bool((np.abs(res_el) > tol).any() or (np.abs(res_shaft) > tol).any())


bad = False
# (a) the only electric consumer carries a constant hotel load given as a one-element array
hybrid, pti_pto = build()
load_case(hybrid, pti_pto, hotel=[400.0])
bad |= attempt("constant hotel load np.array([400.]) next to three-step PTI/PTO and shaft series",
               hybrid, pti_pto)

# (b) a hybrid plant without any electric consumer other than the PTI/PTO
base, pti_pto_b = build()
el_b = ElectricPowerSystem("el", [*base.electric_system.power_sources, pti_pto_b], [])
hybrid_b = HybridPropulsionSystem("hybrid", el_b, base.mechanical_system)
load_case(hybrid_b, pti_pto_b, hotel=None)
bad |= attempt("no electric consumer besides the PTI/PTO, three-step series", hybrid_b, pti_pto_b)

# control: the same constant load written out as a three-step series
hybrid_c, pti_pto_c = build()
load_case(hybrid_c, pti_pto_c, hotel=[400.0, 400.0, 400.0])
ctrl = attempt("control: hotel load np.array([400., 400., 400.])", hybrid_c, pti_pto_c)
print("control violated:", ctrl)
print("PROPERTY VIOLATED (valid input refused)" if bad else "property holds")
sys.exit(1 if bad else 0)
