"""C19 finding 3: the combined fuel record shares a user fuel's emission-factor records.

FEEMSResult.__merge adds the fuel records with FuelConsumption.__add__, which copies every
entry with Fuel.copy.  For a user-specified fuel Fuel.copy passes the SAME list of
GhgEmissionFactorTankToWake records on to the copy (the prescribed IMO / FuelEU records were
given 'records of their own' by an earlier repair; the user's were not).  Setting the methane
slip on the fuel of the combined result therefore changes the fuel of an operand and the CO2
computed from it: 'the operands are left unchanged' is false.
"""
import logging
import sys

import numpy as np

logging.disable(logging.CRITICAL)

from feems.components_model import Engine
from feems.components_model.utility import IntegrationMethod, integrate_multi_fuel_consumption
from feems.fuel import (
    FuelConsumerClassFuelEUMaritime,
    FuelOrigin,
    FuelSpecifiedBy,
    GhgEmissionFactorTankToWake,
    TypeFuel,
)
from feems.types_for_feems import FEEMSResult, NOxCalculationMethod, TypeComponent

BSFC = np.array([[1.00, 0.75, 0.50, 0.25, 0.10], [160.0, 158.0, 162.0, 175.0, 210.0]]).T


def leg_result(power_kw, seconds, fuel_type, origin) -> FEEMSResult:
    """Result of one leg of an engine that burns a user-specified fuel."""
    engine = Engine(
        type_=TypeComponent.MAIN_ENGINE,
        name="main engine",
        rated_power=2000,
        rated_speed=750,
        bsfc_curve=BSFC,
        nox_calculation_method=NOxCalculationMethod.TIER_3,
        fuel_type=fuel_type,
        fuel_origin=origin,
    )
    run_point = engine.get_engine_run_point_from_power_out_kw(
        np.array(power_kw, dtype=float),
        fuel_specified_by=FuelSpecifiedBy.USER,
        lhv_mj_per_g=0.0491,
        ghg_emission_factor_well_to_tank_gco2eq_per_mj=18.5,
        # every leg gets factor records of its own
        ghg_emission_factor_tank_to_wake=[
            GhgEmissionFactorTankToWake(
                co2_factor_gco2_per_gfuel=2.75,
                ch4_factor_gch4_per_gfuel=0.0,
                n2o_factor_gn2o_per_gfuel=0.00011,
                c_slip_percent=0.0,
                fuel_consumer_class=None,
            )
        ],
    )
    fuel_kg = integrate_multi_fuel_consumption(
        fuel_consumption_kg_per_s=run_point.fuel_flow_rate_kg_per_s,
        time_interval_s=np.array(seconds, dtype=float),
        integration_method=IntegrationMethod.sum_with_time,
    )
    return FEEMSResult(
        duration_s=float(np.sum(seconds)),
        multi_fuel_consumption_total_kg=fuel_kg,
        co2_emission_total_kg=fuel_kg.get_total_co2_emissions(),
    )


def state(result: FEEMSResult):
    fuels = result.multi_fuel_consumption_total_kg.fuels
    return (
        [f.ghg_emission_factor_tank_to_wake[0].c_slip_percent for f in fuels],
        float(
            result.multi_fuel_consumption_total_kg.get_total_co2_emissions().tank_to_wake_kg_or_gco2eq_per_gfuel
        ),
    )


violations = []
lng = (TypeFuel.NATURAL_GAS, FuelOrigin.FOSSIL)
bio = (TypeFuel.NATURAL_GAS, FuelOrigin.BIO)  # another fuel kind, present in leg 2 only

for label, combine in [
    ("consecutive periods", lambda x, y: x.sum_and_extend_duration(y)),
    ("same period", lambda x, y: x.sum_with_freeze_duration(y)),
]:
    leg1 = leg_result([1500.0, 1200.0], [600.0, 600.0], *lng)
    leg2 = leg_result([1000.0, 900.0], [600.0, 600.0], *bio)
    before = (state(leg1), state(leg2))
    voyage = combine(leg1, leg2)
    kinds = [(f.fuel_type.name, f.origin.name) for f in voyage.multi_fuel_consumption_total_kg.fuels]
    print(f"{label}: fuel kinds of the combination {kinds} (both kinds kept: ok)")
    # measured slip is entered on the VOYAGE result only
    for fuel in voyage.multi_fuel_consumption_total_kg.fuels:
        fuel.ghg_emission_factor_tank_to_wake[0].c_slip_percent = 3.1
    after = (state(leg1), state(leg2))
    print("   leg 1 (slip %, TtW CO2eq kg) before:", before[0], " after:", after[0])
    print("   leg 2 (slip %, TtW CO2eq kg) before:", before[1], " after:", after[1])
    if before != after:
        violations.append(f"{label}: operands changed {before} -> {after}")

# neutral element on the left: the copy of the right operand shares its records as well
leg = leg_result([1500.0], [600.0], *lng)
before = state(leg)
total = FEEMSResult().sum_and_extend_duration(leg)
total.multi_fuel_consumption_total_kg.fuels[0].ghg_emission_factor_tank_to_wake[0].c_slip_percent = 3.1
after = state(leg)
print("empty + x: operand before:", before, " after:", after)
if before != after:
    violations.append(f"empty + x: operand changed {before} -> {after}")

if violations:
    print("\nPROPERTY VIOLATED (operands are not left unchanged):")
    for v in violations:
        print(" -", v)
    sys.exit(1)
print("\nproperty holds")
sys.exit(0)
