"""C19 finding 3: the empty result FEEMS itself produces is not neutral.

A machinery system without nodes (here MechanicalPropulsionSystem(name, []), accepted by
the constructor) answers get_fuel_energy_consumption_running_time() with
FEEMSResult(duration_s=0): every quantity zero / unset, no fuel, no species, no table -
an empty result - but with the duration 0 instead of "unset" or the length of the period.
A same-period combination of that empty result with any real result of the same period
is refused (AssertionError '... durations ... not equal'), in both orders, whereas the
property says an empty result is neutral.  (FEEMSResult() is neutral; shown for contrast.)
Exit status 1 = property violated.
"""
import logging
import sys
import warnings

import numpy as np

from feems.components_model.component_electric import ElectricComponent, ElectricMachine, Genset
from feems.components_model.component_mechanical import Engine
from feems.components_model.utility import IntegrationMethod
from feems.fuel import FuelOrigin, TypeFuel
from feems.system_model import ElectricPowerSystem, MechanicalPropulsionSystem
from feems.types_for_feems import EngineCycleType, FEEMSResult, TypeComponent, TypePower

logging.disable(logging.CRITICAL)
warnings.simplefilter("ignore")

BSFC = np.array([[0.25, 220.0], [0.5, 200.0], [0.75, 190.0], [1.0, 195.0]])
EFF = np.array([[0.25, 0.9], [0.5, 0.93], [0.75, 0.95], [1.0, 0.96]])
PERIOD_S = 100.0

engine = Engine(
    type_=TypeComponent.AUXILIARY_ENGINE,
    name="engine 1",
    rated_power=1000,
    rated_speed=900,
    bsfc_curve=BSFC,
    fuel_type=TypeFuel.DIESEL,
    fuel_origin=FuelOrigin.FOSSIL,
    engine_cycle_type=EngineCycleType.DIESEL,
)
generator = ElectricMachine(
    type_=TypeComponent.GENERATOR,
    name="generator 1",
    rated_power=950,
    rated_speed=900,
    power_type=TypePower.POWER_SOURCE,
    switchboard_id=1,
    eff_curve=EFF,
)
genset = Genset("genset 1", engine, generator)
load = ElectricComponent(
    type_=TypeComponent.OTHER_LOAD,
    name="load 1",
    rated_power=2000,
    eff_curve=np.array([1.0]),
    power_type=TypePower.POWER_CONSUMER,
    switchboard_id=1,
)

# the electric plant of the vessel, one point of 100 s
electric = ElectricPowerSystem("electric", [genset, load], [])
electric.set_time_interval(PERIOD_S, integration_method=IntegrationMethod.sum_with_time)
load.power_input = np.array([500.0])
genset.status = np.ones(1, dtype=bool)
genset.load_sharing_mode = np.zeros(1)
electric.set_bus_tie_status_all(np.array([]))
electric.do_power_balance_calculation()
res_electric = electric.get_fuel_energy_consumption_running_time()

# the (empty) mechanical plant of the same vessel, same period
mechanical = MechanicalPropulsionSystem("mechanical", [])
mechanical.set_time_interval(PERIOD_S, integration_method=IntegrationMethod.sum_with_time)
res_mechanical = mechanical.get_fuel_energy_consumption_running_time()

print(f"electric  : duration_s={res_electric.duration_s} fuel={res_electric.fuel_consumption_total_kg:.4f} kg")
print(f"mechanical: {res_mechanical}")
is_empty = (
    res_mechanical.fuel_consumption_total_kg == 0
    and res_mechanical.total_emission_kg is None
    and res_mechanical.detail_result is None
    and res_mechanical.load_ratio_genset is None
    and all(
        v == 0
        for k, v in res_mechanical.__dict__.items()
        if k.startswith(("energy_", "running_hours_"))
    )
)
print("mechanical result is empty (no quantity, fuel, species, table):", is_empty)


def same(r, ref):
    return (
        r.duration_s == ref.duration_s
        and np.isclose(r.fuel_consumption_total_kg, ref.fuel_consumption_total_kg)
        and dict(r.total_emission_kg) == dict(ref.total_emission_kg)
        and np.isclose(
            r.energy_consumption_auxiliary_total_mj, ref.energy_consumption_auxiliary_total_mj
        )
        and r.detail_result.equals(ref.detail_result)
        and np.allclose(r.load_ratio_genset, ref.load_ratio_genset)
    )


violations = []
for label, thunk in {
    "electric + FEEMSResult()      (contrast)": lambda: res_electric.sum_with_freeze_duration(FEEMSResult()),
    "electric + empty mechanical": lambda: res_electric.sum_with_freeze_duration(res_mechanical),
    "empty mechanical + electric": lambda: res_mechanical.sum_with_freeze_duration(res_electric),
}.items():
    try:
        r = thunk()
        ok = same(r, res_electric)
        print(f"{label}: combined, equal to the electric result: {ok}")
        if not ok:
            violations.append(f"{label}: result differs from the non-empty operand")
    except Exception as exc:  # noqa
        print(f"{label}: raised {exc!r}")
        if is_empty:
            violations.append(f"{label}: refused, the empty result is not neutral")

print()
if violations:
    print("PROPERTY VIOLATED:")
    for v in violations:
        print("  -", v)
    sys.exit(1)
print("property holds")
sys.exit(0)
