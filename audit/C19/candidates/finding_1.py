"""C19 finding 1: a consecutive-period combination whose total duration is zero.

FEEMSResult.sum_and_extend_duration time-weights the generator load with
(l1*d1 + l2*d2) / (d1 + d2).  When both operands have duration 0 (a legal, equal
duration; FEEMS itself creates results with duration_s=0) the divisor is 0:
  - Python numbers: ZeroDivisionError (a valid pair is refused),
  - numpy numbers (what FEEMS itself stores): NaN, silently.
Consequence for a triple a, b (both zero duration) and c (100 s):
  (a + b) + c raises / is NaN,   a + (b + c) = load of c   ->  not associative.
Exit status 1 = property violated.
"""
import sys
import warnings

import numpy as np

from feems.types_for_feems import FEEMSResult

warnings.simplefilter("ignore")
violations = []


def combine(x, y):
    return x.sum_and_extend_duration(y)


def show(label, thunk):
    try:
        r = thunk()
        print(f"  {label}: duration={r.duration_s} load={r.load_ratio_genset}")
        return r
    except Exception as exc:  # noqa
        print(f"  {label}: raised {exc!r}")
        return exc


def load_ok(r, lo, hi):
    if isinstance(r, Exception) or r.load_ratio_genset is None:
        return False
    v = float(np.atleast_1d(r.load_ratio_genset)[0])
    return np.isfinite(v) and lo - 1e-12 <= v <= hi + 1e-12


print("1. pair, both durations 0 (python numbers)")
a = FEEMSResult(duration_s=0.0, load_ratio_genset=0.5, running_hours_genset_total_hr=0.0)
b = FEEMSResult(duration_s=0.0, load_ratio_genset=0.7, running_hours_genset_total_hr=0.0)
r = show("a + b", lambda: combine(a, b))
if not load_ok(r, 0.5, 0.7):
    violations.append("pair with equal durations 0: no finite time-weighted load (refused)")

print("2. pair, both durations 0 (numpy numbers, as FEEMS stores them)")
an = FEEMSResult(duration_s=np.float64(0.0), load_ratio_genset=np.array([0.5]))
bn = FEEMSResult(duration_s=np.float64(0.0), load_ratio_genset=np.array([0.7]))
r = show("a + b", lambda: combine(an, bn))
if not load_ok(r, 0.5, 0.7):
    violations.append("pair with equal durations 0 (numpy): load is NaN")

print("3. associativity, a and b of duration 0, c of duration 100 s")
for tag, (x, y) in {"python": (a, b), "numpy": (an, bn)}.items():
    c = FEEMSResult(duration_s=100.0, load_ratio_genset=0.9)
    left = show(f"({tag}) (a + b) + c", lambda: combine(combine(x, y), c))
    right = show(f"({tag}) a + (b + c)", lambda: combine(x, combine(y, c)))
    if not (load_ok(left, 0.9, 0.9) and load_ok(right, 0.9, 0.9)):
        violations.append(f"triple ({tag}): (a+b)+c differs from a+(b+c)")

print("4. operands of duration 0 at the END of the chain")
c = FEEMSResult(duration_s=100.0, load_ratio_genset=0.9)
left = show("(c + a) + b", lambda: combine(combine(c, a), b))
right = show("c + (a + b)", lambda: combine(c, combine(a, b)))
if not (load_ok(left, 0.9, 0.9) and load_ok(right, 0.9, 0.9)):
    violations.append("triple c,a,b: (c+a)+b differs from c+(a+b)")

print()
if violations:
    print("PROPERTY VIOLATED:")
    for v in violations:
        print("  -", v)
    sys.exit(1)
print("property holds")
sys.exit(0)
