"""C19, clause "the operands are left unchanged".

When a field that holds a mutable object (the emission table total_emission_kg, the detail table
detail_result) is unset on ONE side, FEEMSResult.__merge hands the other operand's own object to
the combined result instead of a new one.  The usual way of accumulating results,

    total = FEEMSResult()
    for result in results_of_the_modes:
        total = total.sum_and_extend_duration(result)

therefore returns, after the first step (or whenever only one mode has emissions / a detail
table), a result that shares its emission table and its detail table with the operand.  Reading a
species nobody emits from the combined result (which "reads 0" by design: the table is a
defaultdict) already adds that species to the OPERAND; labelling the combined detail table adds the
column to the operand's table.  With two set sides a new dict / a new frame is made, so the
behaviour differs with the data.

The operand here is the result of a real switchboard (one genset, one load, one point of 1 h).
"""
import logging
import sys

import numpy as np

from feems.components_model import Engine, ElectricMachine, Genset, ElectricComponent
from feems.components_model.node import Switchboard
from feems.components_model.utility import IntegrationMethod
from feems.fuel import FuelSpecifiedBy
from feems.types_for_feems import (
    EmissionType,
    FEEMSResult,
    NOxCalculationMethod,
    TypeComponent,
    TypePower,
)

logging.disable(logging.CRITICAL)

BSFC = np.array([[1.00, 0.75, 0.50, 0.25, 0.10], [193.66, 188.995, 194.47, 211.4, 250]]).T


def switchboard_result() -> FEEMSResult:
    engine = Engine(
        type_=TypeComponent.AUXILIARY_ENGINE,
        name="engine",
        rated_power=1000,
        rated_speed=1500,
        bsfc_curve=BSFC,
        nox_calculation_method=NOxCalculationMethod.TIER_2,
    )
    generator = ElectricMachine(
        type_=TypeComponent.GENERATOR,
        name="generator",
        rated_power=1000,
        rated_speed=1500,
        power_type=TypePower.POWER_SOURCE,
        switchboard_id=1,
        eff_curve=np.array([0.95]),
    )
    genset = Genset(name="genset", aux_engine=engine, generator=generator)
    load = ElectricComponent(
        type_=TypeComponent.OTHER_LOAD,
        name="load",
        rated_power=1000,
        power_type=TypePower.POWER_CONSUMER,
        switchboard_id=1,
        eff_curve=np.array([1.0]),
    )
    genset.power_output = np.array([600.0])
    load.power_input = np.array([600.0])
    switchboard = Switchboard("swb", 1, [genset, load])
    return switchboard.get_fuel_energy_consumption_running_time(
        np.array([3600.0]), IntegrationMethod.sum_with_time, FuelSpecifiedBy.IMO
    )


def main() -> int:
    violations = []
    for method in ("sum_and_extend_duration", "sum_with_freeze_duration"):
        for empty_on_the_left in (True, False):
            operand = switchboard_result()
            species_before = set(operand.total_emission_kg)
            columns_before = list(operand.detail_result.columns)
            empty = FEEMSResult()
            combined = (
                getattr(empty, method)(operand)
                if empty_on_the_left
                else getattr(operand, method)(empty)
            )
            # Use the combined result only - the operand is not touched by this script.
            co_kg = combined.total_emission_kg[EmissionType.CO]  # nobody emits CO: reads 0
            combined.detail_result["operation mode"] = "transit"
            species_after = set(operand.total_emission_kg)
            columns_after = list(operand.detail_result.columns)
            label = f"{method}, empty result on the {'left' if empty_on_the_left else 'right'}"
            print(f"{label}: CO of the combined result = {co_kg}")
            if species_after != species_before:
                violations.append(label + ": species of the operand")
                print(
                    "   species of the OPERAND before",
                    sorted(s.name for s in species_before),
                    "after",
                    sorted(s.name for s in species_after),
                )
            if columns_after != columns_before:
                violations.append(label + ": detail table of the operand")
                print(
                    "   the OPERAND's detail table got the column(s)",
                    [c for c in columns_after if c not in columns_before],
                )
            print(
                "   combined.total_emission_kg is operand.total_emission_kg:",
                combined.total_emission_kg is operand.total_emission_kg,
                "| combined.detail_result is operand.detail_result:",
                combined.detail_result is operand.detail_result,
            )
    if violations:
        print(f"VIOLATED: the operand changed in {len(violations)} case(s)")
        return 1
    print("holds: the operands stay as they were")
    return 0


if __name__ == "__main__":
    sys.exit(main())
