"""C19 finding 1: series held in a narrow numeric type wrap around / overflow when two results are
combined - everywhere except the fuel masses (the repair 27475eb widened only FuelConsumption.__add__,
__mul__ and total_fuel_consumption).  Siblings left behind: total_emission_kg (species masses),
co2_emission_total_kg (GHGEmissions.__add__), the plain energy / running-hour fields, and the per-type
readings FuelConsumption.diesel / .hydrogen / .natural_gas of a combined record."""
import sys
import warnings
from collections import defaultdict

import numpy as np

from feems.fuel import Fuel, FuelConsumption, FuelOrigin, FuelSpecifiedBy, GHGEmissions, TypeFuel
from feems.types_for_feems import EmissionType, FEEMSResult

warnings.simplefilter("ignore")


def result(kg_nox, kg_co2, mj, kg_fuel, by):
    return FEEMSResult(
        duration_s=3600.0,
        energy_consumption_electric_total_mj=mj,
        total_emission_kg=defaultdict(float, {EmissionType.NOX: kg_nox}),
        co2_emission_total_kg=GHGEmissions(kg_co2, kg_co2, kg_co2),
        multi_fuel_consumption_total_kg=FuelConsumption(
            [Fuel(TypeFuel.DIESEL, FuelOrigin.FOSSIL, by, mass_or_mass_fraction=kg_fuel)]
        ),
    )


# two consecutive hours, per-step series (two steps) held compactly, as the fuel masses may be
a = result(
    np.array([30000, 1], dtype=np.int16),
    np.array([40000.0, 1.0], dtype=np.float16),
    np.array([40000.0, 1.0], dtype=np.float16),
    np.array([40000.0, 1.0], dtype=np.float16),
    FuelSpecifiedBy.IMO,
)
b = result(
    np.array([30000, 1], dtype=np.int16),
    np.array([40000.0, 1.0], dtype=np.float16),
    np.array([40000.0, 1.0], dtype=np.float16),
    np.array([40000.0, 1.0], dtype=np.float16),
    FuelSpecifiedBy.FUEL_EU_MARITIME,
)
r = a.sum_and_extend_duration(b)

bad = []


def check(name, got, want):
    ok = np.allclose(np.asarray(got, dtype=float), want)
    print(f"{name}: combined = {got!r}, operands add up to {want}  {'ok' if ok else 'VIOLATION'}")
    if not ok:
        bad.append(name)


check("total fuel (repaired path)", r.fuel_consumption_total_kg, [80000.0, 2.0])
check("NOx", r.total_emission_kg[EmissionType.NOX], [60000.0, 2.0])
check("CO2 tank-to-wake", r.co2_emission_total_kg.tank_to_wake_kg_or_gco2eq_per_gfuel, [80000.0, 2.0])
check("CO2 well-to-tank", r.co2_emission_total_kg.well_to_tank_kg_or_gco2eq_per_gfuel, [80000.0, 2.0])
check("electric energy", r.energy_consumption_electric_total_mj, [80000.0, 2.0])
# the two diesel entries (IMO / FuelEU factors) are two kinds in the combined record; its own
# per-type reading adds them in float16
check("diesel of the combined record", r.multi_fuel_consumption_total_kg.diesel, [80000.0, 2.0])

if bad:
    print("property C19 violated (quantities of the operands are not added):", bad)
    sys.exit(1)
print("property holds")
sys.exit(0)
