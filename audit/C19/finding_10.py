"""C19 finding 2: a same-period combination (sum_with_freeze_duration) of two results whose generator
load is a per-step series is refused (ValueError from the builtin max on arrays), while the
consecutive-period combination of the very same operands works elementwise.  The repair 950df9a
('a combined result shares its generator-load ARRAY ...') acknowledges arrays as generator loads but
kept max(self_value, other_value)."""
import sys

import numpy as np

from feems.types_for_feems import FEEMSResult

a = FEEMSResult(duration_s=120.0, load_ratio_genset=np.array([0.2, 0.8]))
b = FEEMSResult(duration_s=120.0, load_ratio_genset=np.array([0.5, 0.5]))
a0, b0 = a.load_ratio_genset.copy(), b.load_ratio_genset.copy()

consecutive = a.sum_and_extend_duration(b)
print("consecutive periods:", consecutive.duration_s, consecutive.load_ratio_genset)

violated = False
try:
    same = a.sum_with_freeze_duration(b)
    print("same period:", same.duration_s, same.load_ratio_genset)
    if not (
        same.duration_s == 120.0 and np.allclose(same.load_ratio_genset, np.maximum(a0, b0))
    ):
        print("VIOLATION: not the common duration with the larger generator load [0.5, 0.8]")
        violated = True
except ValueError as error:
    print("VIOLATION: the same-period combination is refused:", error)
    print("the property demands duration 120 s and the larger load per step, [0.5, 0.8]")
    violated = True

# with one-element arrays (what the switchboard stores for a one-step calculation) it works
c = FEEMSResult(duration_s=120.0, load_ratio_genset=np.array([0.2]))
d = FEEMSResult(duration_s=120.0, load_ratio_genset=np.array([0.5]))
print("one-element arrays:", c.sum_with_freeze_duration(d).load_ratio_genset)
sys.exit(1 if violated else 0)
