"""C19 finding 1: a same-period combination is refused when the common duration of the two
operands is equal only up to floating-point rounding (exact `==` in FEEMSResult.__merge).

Part A: bare results (minimal input).  Part B: results of a real ElectricPowerSystem calculation.
Exit status 1 when the property is violated, 0 when it holds.
"""
import math
import sys

import numpy as np

from feems.components_model.component_electric import ElectricComponent, ElectricMachine, Genset
from feems.components_model.component_mechanical import Engine
from feems.components_model.utility import IntegrationMethod
from feems.system_model import ElectricPowerSystem
from feems.types_for_feems import FEEMSResult, TypeComponent, TypePower

violations = []

# ---------------------------------------------------------------- Part A: bare results
legs = [FEEMSResult(duration_s=d, energy_consumption_electric_total_mj=1.0) for d in (0.1, 0.2, 0.3)]
whole = FEEMSResult(duration_s=0.6, energy_consumption_electric_total_mj=5.0)  # other subsystem

left = legs[0].sum_and_extend_duration(legs[1]).sum_and_extend_duration(legs[2])  # (a+b)+c
right = legs[0].sum_and_extend_duration(legs[1].sum_and_extend_duration(legs[2]))  # a+(b+c)
print("A: consecutive legs 0.1 s, 0.2 s, 0.3 s")
print(f"   (a+b)+c duration = {left.duration_s!r}    a+(b+c) duration = {right.duration_s!r}")
for label, voyage in (("(a+b)+c", left), ("a+(b+c)", right)):
    assert math.isclose(voyage.duration_s, whole.duration_s, rel_tol=1e-12)  # the same period
    try:
        total = voyage.sum_with_freeze_duration(whole)
        ok = math.isclose(total.duration_s, 0.6, rel_tol=1e-12) and math.isclose(
            total.energy_consumption_electric_total_mj, 8.0
        )
        print(f"   {label} combined with the 0.6 s result of the same period: accepted, "
              f"duration {total.duration_s!r}, energy {total.energy_consumption_electric_total_mj}")
        if not ok:
            violations.append(f"A {label}: wrong sum")
    except AssertionError as err:
        print(f"   {label} combined with the 0.6 s result of the same period: REFUSED ({err})")
        violations.append(f"A {label}: same-period combination refused: {err}")

# ---------------------------------------------------------------- Part B: calculated results
BSFC = np.array([[0.25, 220.0], [0.5, 200.0], [0.75, 190.0], [1.0, 195.0]])
EFF = np.array([[0.25, 0.9], [0.5, 0.93], [0.75, 0.95], [1.0, 0.96]])


def run_plant(load_kw, dt_s):
    """One genset and one load on one switchboard, `sum_with_time` integration."""
    engine = Engine(
        type_=TypeComponent.AUXILIARY_ENGINE, name="engine", rated_power=1000, rated_speed=750,
        bsfc_curve=BSFC,
    )
    generator = ElectricMachine(
        type_=TypeComponent.GENERATOR, name="generator", rated_power=950, rated_speed=750,
        power_type=TypePower.POWER_SOURCE, switchboard_id=1, eff_curve=EFF,
    )
    genset = Genset("genset", engine, generator)
    load = ElectricComponent(
        type_=TypeComponent.OTHER_LOAD, name="load", power_type=TypePower.POWER_CONSUMER,
        rated_power=800, eff_curve=np.array([1.0]), switchboard_id=1,
    )
    plant = ElectricPowerSystem("plant", [genset, load], bus_tie_connections=[])
    n = len(load_kw)
    load.power_input = np.asarray(load_kw, dtype=float)
    genset.status = np.ones(n, dtype=bool)
    genset.load_sharing_mode = np.zeros(n)
    plant.set_time_interval(np.asarray(dt_s, dtype=float), IntegrationMethod.sum_with_time)
    plant.do_power_balance_calculation()
    return plant.get_fuel_energy_consumption_running_time()


dt = [0.1] * 6  # six samples logged every 0.1 s
profile = [300.0, 400.0, 500.0, 300.0, 200.0, 100.0]
ship_a_leg_1 = run_plant(profile[:3], dt[:3])
ship_a_leg_2 = run_plant(profile[3:], dt[3:])
ship_b_whole = run_plant(profile, dt)  # a second plant, calculated for the whole period at once
ship_a = ship_a_leg_1.sum_and_extend_duration(ship_a_leg_2)
print("B: plant A calculated in two legs of 3 x 0.1 s, plant B in one run of 6 x 0.1 s")
print(f"   duration A = {ship_a.duration_s!r}    duration B = {ship_b_whole.duration_s!r}")
assert math.isclose(ship_a.duration_s, ship_b_whole.duration_s, rel_tol=1e-12)
try:
    fleet = ship_a.sum_with_freeze_duration(ship_b_whole)
    expected = ship_a.fuel_consumption_total_kg + ship_b_whole.fuel_consumption_total_kg
    print(f"   same-period combination accepted, fuel {fleet.fuel_consumption_total_kg} kg")
    if not math.isclose(fleet.fuel_consumption_total_kg, expected, rel_tol=1e-12):
        violations.append("B: wrong fuel sum")
except AssertionError as err:
    print(f"   same-period combination REFUSED ({err})")
    violations.append(f"B: same-period combination refused: {err}")

if violations:
    print("PROPERTY VIOLATED:")
    for v in violations:
        print("  -", v)
    sys.exit(1)
print("property holds")
sys.exit(0)
