"""C19 finding 2: combining two results that both carry emissions replaces the emission record
(a defaultdict(float), as the calculation creates it) by a plain dict.  The operands and every
combination with an empty result answer to_list_for_electric_component() /
to_list_for_mechanical_component() (NOx = 0.0 when the species is absent); the combination of two
results whose species sets lack NOx raises KeyError there.  So a result with an empty species
set is not neutral, and the combined result is not usable where its operands are.

Exit status 1 when the property is violated, 0 when it holds.
"""
import sys
from collections import defaultdict

from feems.fuel import Fuel, FuelConsumption, FuelOrigin, FuelSpecifiedBy, TypeFuel
from feems.types_for_feems import EmissionType, FEEMSResult


def result(species, fuel_type, mass):
    emissions = defaultdict(float)  # what feems.components_model.node.set_emission creates
    emissions.update(species)
    return FEEMSResult(
        duration_s=600.0,
        total_emission_kg=emissions,
        multi_fuel_consumption_total_kg=FuelConsumption(
            fuels=[Fuel(fuel_type, FuelOrigin.FOSSIL, FuelSpecifiedBy.IMO, mass_or_mass_fraction=mass)]
        ),
    )


def nox_entry(res):
    """NOx cell of the per-component table row (public method of FEEMSResult)."""
    return res.to_list_for_electric_component()[-1], res.to_list_for_mechanical_component()[-1]


def make():
    a = result({EmissionType.CO: 1.0}, TypeFuel.DIESEL, 10.0)
    b = result({EmissionType.CH4: 2.0}, TypeFuel.NATURAL_GAS, 20.0)
    no_species = result({}, TypeFuel.HYDROGEN, 0.0)  # emission record present, no species in it
    return a, b, no_species


violations = []
a, b, no_species = make()
print("operand a:", dict(a.total_emission_kg), "-> NOx cells", nox_entry(a))
a, b, no_species = make()
print("operand b:", dict(b.total_emission_kg), "-> NOx cells", nox_entry(b))

cases = {}
a, b, no_species = make()
cases["empty + a            "] = FEEMSResult().sum_with_freeze_duration(a)
a, b, no_species = make()
cases["a + empty            "] = a.sum_with_freeze_duration(FEEMSResult())
a, b, no_species = make()
cases["a + (no species)     "] = a.sum_with_freeze_duration(no_species)
a, b, no_species = make()
cases["a + b  (same period) "] = a.sum_with_freeze_duration(b)
a, b, no_species = make()
cases["a + b  (consecutive) "] = a.sum_and_extend_duration(b)

for label, combined in cases.items():
    species = dict(combined.total_emission_kg)
    try:
        cells = nox_entry(combined)
        print(f"{label}: {type(combined.total_emission_kg).__name__:11s} {species} -> NOx cells {cells}")
        if cells != (0.0, 0.0):
            violations.append(f"{label.strip()}: NOx cell {cells}, expected 0.0")
    except KeyError as err:
        print(f"{label}: {type(combined.total_emission_kg).__name__:11s} {species} -> KeyError {err}")
        violations.append(
            f"{label.strip()}: the combined result cannot be tabulated (KeyError {err}) "
            f"although both operands can"
        )

# the sums themselves are right
a, b, _ = make()
ab = a.sum_with_freeze_duration(b)
assert dict(ab.total_emission_kg) == {EmissionType.CO: 1.0, EmissionType.CH4: 2.0}

if violations:
    print("PROPERTY VIOLATED:")
    for v in violations:
        print("  -", v)
    sys.exit(1)
print("property holds")
sys.exit(0)
