"""C19 finding 3 (weaker, aliasing): when a field is unset on one side, the combination does not
copy the other side's value, it hands out the very same object.  The detail table and the
emission record of `FEEMSResult().sum_with_freeze_duration(a)` (the neutral start the library
itself uses for accumulating) ARE a's table and a's record, so the operand is not left unchanged
as soon as the combined result is worked on in place - with the two idioms the library itself
uses on results (`result.detail_result["switchboard id"] = ...` in system_model.py and
`result.total_emission_kg[species] += ...` in node.set_emission).  When both sides carry the
field, the combined result is independent, so the behaviour also depends on the operands.

Exit status 1 when the property is violated, 0 when it holds.
"""
import sys
from collections import defaultdict

import pandas as pd

from feems.types_for_feems import EmissionType, FEEMSResult


def operand(name):
    emissions = defaultdict(float)
    emissions[EmissionType.NOX] = 1.0
    return FEEMSResult(
        duration_s=600.0,
        total_emission_kg=emissions,
        detail_result=pd.DataFrame({"running hours [h]": [0.1]}, index=[name]),
    )


def snapshot(res):
    return (
        dict(res.total_emission_kg),
        list(res.detail_result.columns),
        res.detail_result.to_dict(),
    )


violations = []
for label, start in (
    ("empty result as left operand ", lambda: FEEMSResult()),
    ("empty result as right operand", None),
    ("two results with tables       ", "both"),
):
    a = operand("genset 1")
    before = snapshot(a)
    if start == "both":
        combined = operand("genset 0").sum_with_freeze_duration(a)
    elif start is None:
        combined = a.sum_with_freeze_duration(FEEMSResult())
    else:
        combined = start().sum_with_freeze_duration(a)
    unchanged_by_call = snapshot(a) == before
    shares_table = combined.detail_result is a.detail_result
    shares_emissions = combined.total_emission_kg is a.total_emission_kg
    # work on the COMBINED result only, as system_model.py / node.set_emission do on results
    combined.detail_result["plant"] = "fleet"
    combined.total_emission_kg[EmissionType.NOX] += 5.0
    unchanged_after = snapshot(a) == before
    print(f"{label}: shares table {shares_table}, shares emission record {shares_emissions}, "
          f"operand unchanged by the call {unchanged_by_call}, "
          f"operand unchanged after working on the combined result {unchanged_after}")
    if not unchanged_after:
        print(f"    operand now: NOx {a.total_emission_kg[EmissionType.NOX]} kg (was 1.0), "
              f"columns {list(a.detail_result.columns)}")
        violations.append(f"{label.strip()}: operand changed through the combined result")

if violations:
    print("PROPERTY VIOLATED:")
    for v in violations:
        print("  -", v)
    sys.exit(1)
print("property holds")
sys.exit(0)
