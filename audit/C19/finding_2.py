"""C19 finding 2: consecutive combination of results the public API itself hands out.

get_fuel_emission_energy_balance_for_component (feems.components_model.node) returns a
FEEMSResult per component whose duration_s is always the placeholder 0, whatever the
period it was integrated over, and whose load_ratio_genset is set.  Combining two such
results of one genset for two consecutive periods (100 s at 400 kW, 300 s at 800 kW) with
sum_and_extend_duration gives load_ratio_genset = NaN (0/0, only a numpy RuntimeWarning);
the NaN then poisons every later combination, and the bracketing decides the answer:
   (c1 + c2) + S  -> NaN          c1 + (c2 + S) -> load of S
Exit status 1 = property violated.
"""
import sys

from feems.components_model.node import get_fuel_emission_energy_balance_for_component
# --- helpers (public FEEMS API only) ---
import logging
import warnings

import numpy as np

from feems.components_model.component_electric import ElectricComponent, ElectricMachine, Genset
from feems.components_model.component_mechanical import Engine
from feems.components_model.node import Switchboard
from feems.components_model.utility import IntegrationMethod
from feems.fuel import FuelOrigin, TypeFuel
from feems.types_for_feems import EngineCycleType, TypeComponent, TypePower

logging.disable(logging.CRITICAL)
warnings.simplefilter("ignore")

BSFC = np.array([[0.25, 220.0], [0.5, 200.0], [0.75, 190.0], [1.0, 195.0]])
EFF = np.array([[0.25, 0.9], [0.5, 0.93], [0.75, 0.95], [1.0, 0.96]])


def make_genset(name, swb, fuel=TypeFuel.DIESEL, cycle=EngineCycleType.DIESEL, curves=None):
    engine = Engine(
        type_=TypeComponent.AUXILIARY_ENGINE,
        name=name + " engine",
        rated_power=1000,
        rated_speed=900,
        bsfc_curve=BSFC,
        fuel_type=fuel,
        fuel_origin=FuelOrigin.FOSSIL,
        emissions_curves=curves,
        engine_cycle_type=cycle,
    )
    generator = ElectricMachine(
        type_=TypeComponent.GENERATOR,
        name=name + " generator",
        rated_power=950,
        rated_speed=900,
        power_type=TypePower.POWER_SOURCE,
        switchboard_id=swb,
        eff_curve=EFF,
    )
    return Genset(name, engine, generator)


def make_load(name, swb):
    return ElectricComponent(
        type_=TypeComponent.OTHER_LOAD,
        name=name,
        rated_power=2000,
        eff_curve=np.array([1.0]),
        power_type=TypePower.POWER_CONSUMER,
        switchboard_id=swb,
    )


def switchboard_result(swb_id, genset, load, power_kw, seconds):
    """One-point result of a switchboard with one genset and one load."""
    swb = Switchboard(f"swb {swb_id}", swb_id, [genset, load])
    genset.power_output = np.array([float(power_kw)])
    load.power_input = np.array([float(power_kw)])
    return swb.get_fuel_energy_consumption_running_time(
        time_interval_s=float(seconds), integration_method=IntegrationMethod.sum_with_time
    )
# --- end of helpers ---

violations = []
genset = make_genset("genset 1", 1)


def component_result(power_kw, seconds):
    genset.power_output = np.array([float(power_kw)])
    return get_fuel_emission_energy_balance_for_component(
        component=genset,
        time_interval_s=float(seconds),
        integration_method=IntegrationMethod.sum_with_time,
    )


def load(r):
    return None if r.load_ratio_genset is None else float(np.atleast_1d(r.load_ratio_genset)[0])


c1 = component_result(400.0, 100.0)
c2 = component_result(800.0, 300.0)
print(f"c1: duration_s={c1.duration_s} load={load(c1):.4f} fuel={c1.fuel_consumption_total_kg:.3f} kg")
print(f"c2: duration_s={c2.duration_s} load={load(c2):.4f} fuel={c2.fuel_consumption_total_kg:.3f} kg")

c12 = c1.sum_and_extend_duration(c2)
print(f"c1 + c2: duration_s={c12.duration_s} load={load(c12)} fuel={c12.fuel_consumption_total_kg:.3f} kg")
lo, hi = sorted((load(c1), load(c2)))
if not (np.isfinite(load(c12)) and lo <= load(c12) <= hi):
    violations.append(
        f"time-weighted load of c1 + c2 is {load(c12)}, not a value between {lo:.4f} and {hi:.4f}"
    )

# a third, ordinary result: a switchboard result for a further 200 s
S = switchboard_result(2, make_genset("genset 2", 2), make_load("load 2", 2), 500.0, 200.0)
print(f"S : duration_s={S.duration_s} load={load(S):.4f}")
left = c1.sum_and_extend_duration(c2).sum_and_extend_duration(S)
right = c1.sum_and_extend_duration(c2.sum_and_extend_duration(S))
print(f"(c1 + c2) + S: duration_s={left.duration_s} load={load(left)}")
print(f"c1 + (c2 + S): duration_s={right.duration_s} load={load(right)}")
if not np.isclose(load(left), load(right), equal_nan=False):
    violations.append("(c1 + c2) + S and c1 + (c2 + S) disagree on the generator load")
# everything else is associative (shown so that the load is seen to be the only difference)
assert np.isclose(left.fuel_consumption_total_kg, right.fuel_consumption_total_kg)
assert left.duration_s == right.duration_s

print()
if violations:
    print("PROPERTY VIOLATED:")
    for v in violations:
        print("  -", v)
    sys.exit(1)
print("property holds")
sys.exit(0)
