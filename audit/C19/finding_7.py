"""C19 finding 2: the combined detail table holds the operands' own fuel / CO2 records.

The detail table of every real result has two columns of Python objects
('multi fuel consumption [kg]' holds FuelConsumption records, 'CO2 emission [kg]' holds
GHGEmissions records).  pd.concat([...]) (both operands have a table) builds a new frame but
puts the SAME record objects into it, and deepcopy(DataFrame) (one operand has no table: the
path repaired earlier with the comment 'the result is a record of its own: it shares no table
with an operand') is DataFrame.copy(deep=True), which by pandas' documentation does not copy
Python objects held in the cells.  Converting the fuel column of the combined table to tonnes
therefore rewrites the operands' tables: 'the operands are left unchanged' is false.
"""
import logging
import sys

import numpy as np

logging.disable(logging.CRITICAL)

from feems.components_model import Engine, ElectricMachine, Genset, ElectricComponent
from feems.components_model.utility import IntegrationMethod
from feems.system_model import ElectricPowerSystem
from feems.types_for_feems import (
    FEEMSResult,
    NOxCalculationMethod,
    TypeComponent,
    TypePower,
)

BSFC = np.array([[1.00, 0.75, 0.50, 0.25, 0.10], [193.66, 188.995, 194.47, 211.4, 250]]).T
FUEL_COLUMN = "multi fuel consumption [kg]"
CO2_COLUMN = "CO2 emission [kg]"


def leg_result(load_kw, seconds) -> FEEMSResult:
    engine = Engine(
        type_=TypeComponent.AUXILIARY_ENGINE,
        name="engine",
        rated_power=1000,
        rated_speed=1500,
        bsfc_curve=BSFC,
        nox_calculation_method=NOxCalculationMethod.TIER_2,
    )
    generator = ElectricMachine(
        type_=TypeComponent.GENERATOR,
        name="generator",
        rated_power=1000,
        rated_speed=1500,
        power_type=TypePower.POWER_SOURCE,
        switchboard_id=1,
        eff_curve=np.array([0.9]),
    )
    genset = Genset(name="genset", aux_engine=engine, generator=generator)
    load = ElectricComponent(
        type_=TypeComponent.OTHER_LOAD,
        name="load",
        power_type=TypePower.POWER_CONSUMER,
        rated_power=1000,
        rated_speed=0,
        eff_curve=np.array([1]),
        switchboard_id=1,
    )
    plant = ElectricPowerSystem(
        name="plant", power_plant_components=[genset, load], bus_tie_connections=[]
    )
    n = len(load_kw)
    load.set_power_input_from_output(np.array(load_kw, dtype=float))
    genset.status = np.ones(n)
    genset.load_sharing_mode = np.zeros(n)
    plant.set_bus_tie_status_all(np.array([]))
    plant.set_time_interval(
        time_interval_s=np.array(seconds, dtype=float),
        integration_method=IntegrationMethod.sum_with_time,
    )
    plant.do_power_balance_calculation()
    return plant.get_fuel_energy_consumption_running_time()


def table_masses(result: FEEMSResult):
    return [
        [float(fuel.mass_or_mass_fraction) for fuel in record.fuels]
        for record in result.detail_result[FUEL_COLUMN]
    ]


def table_co2(result: FEEMSResult):
    return [float(x.tank_to_wake_kg_or_gco2eq_per_gfuel) for x in result.detail_result[CO2_COLUMN]]


def to_tonnes(result: FEEMSResult) -> None:
    """Edit the RESULT's table only: masses and CO2 from kg to tonnes."""
    for record in result.detail_result[FUEL_COLUMN]:
        for fuel in record.fuels:
            fuel.mass_or_mass_fraction = fuel.mass_or_mass_fraction / 1000
    for ghg in result.detail_result[CO2_COLUMN]:
        ghg.tank_to_wake_kg_or_gco2eq_per_gfuel = ghg.tank_to_wake_kg_or_gco2eq_per_gfuel / 1000


violations = []

# (a) both operands have a table (pd.concat path), consecutive periods
leg1 = leg_result([500.0, 600.0], [100.0, 100.0])
leg2 = leg_result([300.0, 200.0, 250.0], [50.0, 50.0, 50.0])
before = (table_masses(leg1), table_masses(leg2), table_co2(leg1), table_co2(leg2))
voyage = leg1.sum_and_extend_duration(leg2)
print("rows of the combined table:", list(voyage.detail_result.index), "(concatenated: ok)")
print(
    "cell objects shared with the operands:",
    voyage.detail_result[FUEL_COLUMN].iloc[0] is leg1.detail_result[FUEL_COLUMN].iloc[0],
    voyage.detail_result[FUEL_COLUMN].iloc[1] is leg2.detail_result[FUEL_COLUMN].iloc[0],
)
to_tonnes(voyage)
after = (table_masses(leg1), table_masses(leg2), table_co2(leg1), table_co2(leg2))
print("leg 1 table fuel [kg] before / after editing the voyage table:", before[0], after[0])
print("leg 2 table fuel [kg] before / after editing the voyage table:", before[1], after[1])
if before != after:
    violations.append(
        f"both tables present (concat): operands' detail tables changed {before} -> {after}"
    )
# the totals of the operand no longer agree with its own table
tot = float(leg1.fuel_consumption_total_kg)
tab = sum(sum(row) for row in table_masses(leg1))
print(f"leg 1 total fuel {tot:.6f} kg, sum of its own table now {tab:.6f}")

# (b) one operand has no table (the deepcopy path that was repaired before), same period
leg3 = leg_result([500.0], [100.0])
before3 = (table_masses(leg3), table_co2(leg3))
for label, combined in [
    ("x + empty", leg3.sum_with_freeze_duration(FEEMSResult())),
    ("empty + x", FEEMSResult().sum_and_extend_duration(leg3)),
]:
    assert combined.detail_result is not leg3.detail_result
    to_tonnes(combined)
    after3 = (table_masses(leg3), table_co2(leg3))
    print(f"{label}: operand table before / after editing the result:", before3[0], after3[0])
    if after3 != before3:
        violations.append(
            f"{label} (deepcopy path): operand's detail table changed {before3} -> {after3}"
        )
        before3 = after3

if violations:
    print("\nPROPERTY VIOLATED (operands are not left unchanged):")
    for v in violations:
        print(" -", v)
    sys.exit(1)
print("\nproperty holds")
sys.exit(0)
