"""C19 finding 1: the combined result's load_ratio_genset IS an operand's array.

Two separate plants (one genset + one load each) are calculated for the same single 100 s
interval through the public API.  A one-point calculation stores the generator load of a
result as a one-element numpy array.  The same-period combination picks 'the larger' with
max(self_value, other_value), i.e. it hands out the very array object of one operand; the
consecutive-period combination does the same when one operand has no duration.
Expressing the combined load in percent in place (total.load_ratio_genset *= 100) then
changes the operand: 'the operands are left unchanged' is false.
"""
import copy
import logging
import sys

import numpy as np

logging.disable(logging.CRITICAL)

from feems.components_model import Engine, ElectricMachine, Genset, ElectricComponent
from feems.components_model.utility import IntegrationMethod
from feems.system_model import ElectricPowerSystem
from feems.types_for_feems import (
    FEEMSResult,
    NOxCalculationMethod,
    TypeComponent,
    TypePower,
)

BSFC = np.array([[1.00, 0.75, 0.50, 0.25, 0.10], [193.66, 188.995, 194.47, 211.4, 250]]).T


def one_point_result(load_kw: float, seconds: float) -> FEEMSResult:
    engine = Engine(
        type_=TypeComponent.AUXILIARY_ENGINE,
        name="engine",
        rated_power=1000,
        rated_speed=1500,
        bsfc_curve=BSFC,
        nox_calculation_method=NOxCalculationMethod.TIER_2,
    )
    generator = ElectricMachine(
        type_=TypeComponent.GENERATOR,
        name="generator",
        rated_power=1000,
        rated_speed=1500,
        power_type=TypePower.POWER_SOURCE,
        switchboard_id=1,
        eff_curve=np.array([0.9]),
    )
    genset = Genset(name="genset", aux_engine=engine, generator=generator)
    load = ElectricComponent(
        type_=TypeComponent.OTHER_LOAD,
        name="load",
        power_type=TypePower.POWER_CONSUMER,
        rated_power=1000,
        rated_speed=0,
        eff_curve=np.array([1]),
        switchboard_id=1,
    )
    plant = ElectricPowerSystem(
        name="plant", power_plant_components=[genset, load], bus_tie_connections=[]
    )
    load.set_power_input_from_output(np.array([load_kw]))
    genset.status = np.ones(1)
    genset.load_sharing_mode = np.zeros(1)
    plant.set_bus_tie_status_all(np.array([]))
    plant.set_time_interval(
        time_interval_s=np.array([seconds]), integration_method=IntegrationMethod.sum_with_time
    )
    plant.do_power_balance_calculation()
    return plant.get_fuel_energy_consumption_running_time()


violations = []

# --- same period, two plants ------------------------------------------------------------------
port = one_point_result(500.0, 100.0)
starboard = one_point_result(300.0, 100.0)
before = (copy.deepcopy(port.load_ratio_genset), copy.deepcopy(starboard.load_ratio_genset))
print("operands before :", before[0], before[1], type(port.load_ratio_genset).__name__)

total = port.sum_with_freeze_duration(starboard)
print("combined load   :", total.load_ratio_genset, "(larger of the two, as stated)")
print(
    "combined load is an operand's own array:",
    total.load_ratio_genset is port.load_ratio_genset
    or total.load_ratio_genset is starboard.load_ratio_genset,
)
total.load_ratio_genset *= 100  # the caller wants percent; touches the RESULT only
print("operands after  :", port.load_ratio_genset, starboard.load_ratio_genset)
if not (
    np.array_equal(port.load_ratio_genset, before[0])
    and np.array_equal(starboard.load_ratio_genset, before[1])
):
    violations.append(
        "same-period combination: an operand's load_ratio_genset changed from "
        f"{before} to {(port.load_ratio_genset, starboard.load_ratio_genset)} after the result "
        "was edited"
    )

# --- consecutive periods, one operand without a duration ------------------------------------
leg = one_point_result(400.0, 50.0)
manual = FEEMSResult(load_ratio_genset=np.array([0.2]))  # duration not set (missing field)
before_leg = copy.deepcopy(leg.load_ratio_genset)
total2 = manual.sum_and_extend_duration(leg)
total2.load_ratio_genset *= 100
if not np.array_equal(leg.load_ratio_genset, before_leg):
    violations.append(
        "consecutive-period combination (left duration unset): the right operand's "
        f"load_ratio_genset changed from {before_leg} to {leg.load_ratio_genset}"
    )
leg2 = one_point_result(400.0, 50.0)
before_leg2 = copy.deepcopy(leg2.load_ratio_genset)
total3 = leg2.sum_and_extend_duration(FEEMSResult(load_ratio_genset=np.array([0.2])))
total3.load_ratio_genset *= 100
if not np.array_equal(leg2.load_ratio_genset, before_leg2):
    violations.append(
        "consecutive-period combination (right duration unset): the left operand's "
        f"load_ratio_genset changed from {before_leg2} to {leg2.load_ratio_genset}"
    )

if violations:
    print("\nPROPERTY VIOLATED (operands are not left unchanged):")
    for v in violations:
        print(" -", v)
    sys.exit(1)
print("\nproperty holds")
sys.exit(0)
