"""C19, clause "combination is associative" (same-period combination, durations at the tolerance).

sum_with_freeze_duration accepts two durations as "the common duration" when they agree to a
relative 1e-9 (math.isclose) and keeps the LEFT one.  "Agree to 1e-9" is not transitive, and the
kept duration is that of one operand only, so for three results whose durations are pairwise
(neighbouring) equal in the sense of the code,

    a + (b + c)   is computed, but   (a + b) + c   is refused (AssertionError),

i.e. whether three same-period results can be combined depends on the bracketing.  Here the three
durations are 1000 s, 1000 s * (1 + 0.9e-9) and 1000 s * (1 + 1.8e-9): a~b and b~c are inside the
tolerance, a~c is not.  (Boundary case: durations of one period computed in different ways differ
by about 1e-16 relative, so this needs durations that really differ by a microsecond in 1000 s.)
"""
import sys

from feems.fuel import Fuel, FuelConsumption, FuelOrigin, TypeFuel
from feems.types_for_feems import EmissionType, FEEMSResult


def result(duration_s: float, fuel_kg: float, nox_kg: float) -> FEEMSResult:
    return FEEMSResult(
        duration_s=duration_s,
        load_ratio_genset=0.5,
        running_hours_genset_total_hr=duration_s / 3600,
        multi_fuel_consumption_total_kg=FuelConsumption(
            fuels=[
                Fuel(
                    fuel_type=TypeFuel.DIESEL,
                    origin=FuelOrigin.FOSSIL,
                    mass_or_mass_fraction=fuel_kg,
                )
            ]
        ),
        total_emission_kg={EmissionType.NOX: nox_kg},
    )


def combine(order: str, a: FEEMSResult, b: FEEMSResult, c: FEEMSResult):
    try:
        if order == "(a+b)+c":
            r = a.sum_with_freeze_duration(b).sum_with_freeze_duration(c)
        else:
            r = a.sum_with_freeze_duration(b.sum_with_freeze_duration(c))
        return r, None
    except AssertionError as error:
        return None, error


def main() -> int:
    d = 1000.0
    a = result(d, 10.0, 0.1)
    b = result(d * (1 + 0.9e-9), 20.0, 0.2)
    c = result(d * (1 + 1.8e-9), 30.0, 0.3)
    for name, x, y in (("a,b", a, b), ("b,c", b, c)):
        x.sum_with_freeze_duration(y)  # accepted as one period
        print(f"{name}: accepted as results of the same period")
    left, left_error = combine("(a+b)+c", a, b, c)
    right, right_error = combine("a+(b+c)", a, b, c)
    for name, r, error in (("(a+b)+c", left, left_error), ("a+(b+c)", right, right_error)):
        if error is None:
            print(f"{name}: duration {r.duration_s!r} s, fuel {r.fuel_consumption_total_kg} kg")
        else:
            print(f"{name}: refused - {error}")
    if (left_error is None) != (right_error is None):
        print("VIOLATED: one bracketing gives a result, the other is refused")
        return 1
    if left is not None and left.duration_s != right.duration_s:
        print("VIOLATED: the bracketings give different durations")
        return 1
    print("holds")
    return 0


if __name__ == "__main__":
    sys.exit(main())
