"""C13 finding 2: gearboxes that are components of a shaft line are written only into the
propeller subsystems, one slot per propeller.
  (a) a shaft line with two gearboxes comes back with one (the one listed last);
  (b) a shaft line with a gearbox but without a propeller (main engine + gearbox + shaft
      generator) comes back without its gearbox.

Exit status 1: property violated, 0: the gearboxes are the same after the round trip.
"""
import logging
import sys

import numpy as np

logging.disable(logging.CRITICAL)

from feems.components_model.component_electric import (
    ElectricComponent,
    ElectricMachine,
    Genset,
    PTIPTO,
)
from feems.components_model.component_mechanical import (
    Engine,
    MainEngineForMechanicalPropulsion,
    MechanicalPropulsionComponent,
)
from feems.system_model import (
    ElectricPowerSystem,
    MechanicalPropulsionSystem,
    MechanicalPropulsionSystemWithElectricPowerSystem,
)
from feems.types_for_feems import TypeComponent, TypePower
import MachSysS.system_structure_pb2 as proto
from MachSysS.convert_to_feems import convert_proto_propulsion_system_to_feems
from MachSysS.convert_to_protobuf import (
    convert_mechanical_propulsion_system_with_electric_system_to_protobuf,
)

EFF = np.array([[0.25, 0.88], [0.5, 0.93], [0.75, 0.95], [1.0, 0.96]])
BSFC = np.array([[0.25, 230.0], [0.5, 205.0], [0.75, 195.0], [1.0, 200.0]])


def genset(name, switchboard_id):
    engine = Engine(
        type_=TypeComponent.AUXILIARY_ENGINE,
        name=name + " engine",
        rated_power=1050.0,
        rated_speed=900.0,
        bsfc_curve=BSFC,
    )
    generator = ElectricMachine(
        type_=TypeComponent.SYNCHRONOUS_MACHINE,
        name=name + " generator",
        rated_power=1000.0,
        rated_speed=900.0,
        power_type=TypePower.POWER_SOURCE,
        switchboard_id=switchboard_id,
        eff_curve=EFF,
    )
    return Genset(name=name, aux_engine=engine, generator=generator)


def hotel_load():
    return ElectricComponent(
        type_=TypeComponent.OTHER_LOAD,
        name="hotel",
        rated_power=800.0,
        eff_curve=np.array([0.98]),
        power_type=TypePower.POWER_CONSUMER,
        switchboard_id=1,
    )


def main_engine(name):
    engine = Engine(
        type_=TypeComponent.MAIN_ENGINE,
        name=name + " engine",
        rated_power=4000.0,
        rated_speed=750.0,
        bsfc_curve=BSFC,
    )
    return MainEngineForMechanicalPropulsion(name, engine, shaft_line_id=1)


def gearbox(name, efficiency):
    return MechanicalPropulsionComponent(
        type_=TypeComponent.GEARBOX,
        power_type=TypePower.POWER_TRANSMISSION,
        name=name,
        rated_power=5000.0,
        eff_curve=np.array([efficiency]),
        rated_speed=750.0,
        shaft_line_id=1,
    )


def propeller():
    return MechanicalPropulsionComponent(
        type_=TypeComponent.PROPELLER_LOAD,
        power_type=TypePower.POWER_CONSUMER,
        name="propeller",
        rated_power=8000.0,
        eff_curve=np.array([[0.1, 0.95], [1.0, 0.99]]),
        rated_speed=120.0,
        shaft_line_id=1,
    )


def shaft_generator():
    members = [
        ElectricComponent(
            type_=TypeComponent.POWER_CONVERTER,
            name="sg converter",
            rated_power=650.0,
            eff_curve=EFF,
            power_type=TypePower.PTI_PTO,
        ),
        ElectricMachine(
            type_=TypeComponent.SYNCHRONOUS_MACHINE,
            name="sg machine",
            rated_power=600.0,
            rated_speed=750.0,
            eff_curve=EFF,
            power_type=TypePower.PTI_PTO,
        ),
    ]
    return PTIPTO("shaft generator", members, 1, 600.0, 750.0, shaft_line_id=1)


def round_trip(system):
    message = convert_mechanical_propulsion_system_with_electric_system_to_protobuf(system)
    parsed = proto.MachinerySystem()
    parsed.ParseFromString(message.SerializeToString())
    return convert_proto_propulsion_system_to_feems(parsed)


def gearboxes(system):
    return sorted(
        (
            shaft_line.id,
            component.name,
            float(component.rated_power),
            float(component.get_efficiency_from_load_percentage(0.5)),
        )
        for shaft_line in system.mechanical_system.shaft_line
        for component in shaft_line.components
        if component.type == TypeComponent.GEARBOX
    )


violated = False

# (a) twin-input shaft line: a reduction gear listed for each engine
plant_a = MechanicalPropulsionSystemWithElectricPowerSystem(
    "twin input",
    ElectricPowerSystem("el", [genset("g1", 1), hotel_load()], []),
    MechanicalPropulsionSystem(
        "mech",
        [
            main_engine("me 1"),
            main_engine("me 2"),
            gearbox("gear 1", 0.97),
            gearbox("gear 2", 0.99),
            propeller(),
        ],
    ),
)
before, after = gearboxes(plant_a), gearboxes(round_trip(plant_a))
print("(a) gearboxes before:", before)
print("(a) gearboxes after :", after)
violated |= before != after

# (b) a shaft line that drives a shaft generator only
pto = shaft_generator()
plant_b = MechanicalPropulsionSystemWithElectricPowerSystem(
    "generator line",
    ElectricPowerSystem("el", [genset("g1", 1), hotel_load(), pto], []),
    MechanicalPropulsionSystem("mech", [main_engine("me 1"), gearbox("gear 1", 0.98), pto]),
)
before, after = gearboxes(plant_b), gearboxes(round_trip(plant_b))
print("(b) gearboxes before:", before)
print("(b) gearboxes after :", after)
violated |= before != after

if violated:
    print("VIOLATED: the shaft lines do not have the same gearboxes after the round trip")
    sys.exit(1)
print("holds")
sys.exit(0)
