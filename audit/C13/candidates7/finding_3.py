"""C13 finding 3: a shaft line with a geared main engine AND a gearbox listed as a component of
the shaft line is balanced by FEEMS and is produced by the reader from a description, but the
writer refuses it (ValueError): the system cannot be converted to protobuf, and a description
that the reader accepts cannot be converted back.

Exit status 1: property violated (conversion refused), 0: round trip works.
"""
import logging
import sys

import numpy as np

logging.disable(logging.CRITICAL)

from feems.components_model.component_base import BasicComponent
from feems.components_model.component_electric import ElectricComponent, ElectricMachine, Genset
from feems.components_model.component_mechanical import (
    Engine,
    MainEngineForMechanicalPropulsion,
    MainEngineWithGearBoxForMechanicalPropulsion,
    MechanicalPropulsionComponent,
)
from feems.components_model.utility import IntegrationMethod
from feems.system_model import (
    ElectricPowerSystem,
    MechanicalPropulsionSystem,
    MechanicalPropulsionSystemWithElectricPowerSystem,
)
from feems.types_for_feems import TypeComponent, TypePower
import MachSysS.system_structure_pb2 as proto
from MachSysS.convert_to_feems import convert_proto_propulsion_system_to_feems
from MachSysS.convert_to_protobuf import (
    convert_mechanical_propulsion_system_with_electric_system_to_protobuf,
)

EFF = np.array([[0.25, 0.88], [0.5, 0.93], [0.75, 0.95], [1.0, 0.96]])
BSFC = np.array([[0.25, 230.0], [0.5, 205.0], [0.75, 195.0], [1.0, 200.0]])


def electric_system():
    engine = Engine(
        type_=TypeComponent.AUXILIARY_ENGINE,
        name="aux engine",
        rated_power=1050.0,
        rated_speed=900.0,
        bsfc_curve=BSFC,
    )
    generator = ElectricMachine(
        type_=TypeComponent.SYNCHRONOUS_MACHINE,
        name="generator",
        rated_power=1000.0,
        rated_speed=900.0,
        power_type=TypePower.POWER_SOURCE,
        switchboard_id=1,
        eff_curve=EFF,
    )
    hotel = ElectricComponent(
        type_=TypeComponent.OTHER_LOAD,
        name="hotel",
        rated_power=800.0,
        eff_curve=np.array([0.98]),
        power_type=TypePower.POWER_CONSUMER,
        switchboard_id=1,
    )
    return ElectricPowerSystem("el", [Genset("genset", engine, generator), hotel], [])


def engine(name):
    return Engine(
        type_=TypeComponent.MAIN_ENGINE,
        name=name + " engine",
        rated_power=4000.0,
        rated_speed=750.0,
        bsfc_curve=BSFC,
    )


def build(with_shaft_line_gearbox):
    # A medium-speed engine with its own reduction gear and a second, slow-speed engine coupled
    # directly; the line gearbox is listed as a component of the shaft line.
    geared = MainEngineWithGearBoxForMechanicalPropulsion(
        "me 1",
        engine("me 1"),
        BasicComponent(
            type_=TypeComponent.GEARBOX,
            power_type=TypePower.POWER_TRANSMISSION,
            name="me 1 reduction gear",
            rated_power=4200.0,
            eff_curve=np.array([0.985]),
            rated_speed=750.0,
        ),
        shaft_line_id=1,
    )
    components = [geared, MainEngineForMechanicalPropulsion("me 2", engine("me 2"), 1)]
    if with_shaft_line_gearbox:
        components.append(
            MechanicalPropulsionComponent(
                type_=TypeComponent.GEARBOX,
                power_type=TypePower.POWER_TRANSMISSION,
                name="line gearbox",
                rated_power=9000.0,
                eff_curve=np.array([0.99]),
                rated_speed=120.0,
                shaft_line_id=1,
            )
        )
    components.append(
        MechanicalPropulsionComponent(
            type_=TypeComponent.PROPELLER_LOAD,
            power_type=TypePower.POWER_CONSUMER,
            name="propeller",
            rated_power=8000.0,
            eff_curve=np.array([[0.1, 0.95], [1.0, 0.99]]),
            rated_speed=120.0,
            shaft_line_id=1,
        )
    )
    return MechanicalPropulsionSystemWithElectricPowerSystem(
        "plant", electric_system(), MechanicalPropulsionSystem("mech", components)
    )


def fuel_kg(system):
    system.set_time_interval(3600.0, IntegrationMethod.sum_with_time)
    el, me = system.electric_system, system.mechanical_system
    el.set_power_input_from_power_output_by_switchboard_id_type_name(
        np.array([400.0]), 1, TypePower.POWER_CONSUMER, "hotel"
    )
    el.set_status_by_switchboard_id_power_type(1, TypePower.POWER_SOURCE, np.ones((1, 1), dtype=bool))
    el.set_load_sharing_mode_power_sources_by_switchboard_id_power_type(
        1, TypePower.POWER_SOURCE, np.zeros((1, 1))
    )
    me.set_power_consumer_load_by_value_for_given_name_shaft_line_id(
        "propeller", 1, np.array([5000.0])
    )
    for name in ("me 1", "me 2"):
        me.set_status_main_engine_for_name_shaft_line_id(name, 1, np.array([True]))
    system.do_power_balance_calculation()
    result = system.get_fuel_energy_consumption_running_time(
        3600.0, integration_method=IntegrationMethod.sum_with_time
    )
    return float(result.mechanical_system.fuel_consumption_total_kg)


def to_message(system):
    message = convert_mechanical_propulsion_system_with_electric_system_to_protobuf(system)
    parsed = proto.MachinerySystem()
    parsed.ParseFromString(message.SerializeToString())
    return parsed


violated = False

# 1. FEEMS balances the plant ...
print("fuel of the main engines, original plant [kg]:", round(fuel_kg(build(True)), 3))
# ... but it cannot be written
try:
    copy = convert_proto_propulsion_system_to_feems(to_message(build(True)))
    print("fuel of the main engines, round trip     [kg]:", round(fuel_kg(copy), 3))
except Exception as error:  # noqa
    print("system -> protobuf refused:", type(error).__name__, "-", error)
    violated = True

# 2. The same plant as a description: geared engine subsystem plus a gear in the propeller
#    subsystem. The reader accepts it, the way back is refused.
description = to_message(build(False))
propeller = [
    subsystem
    for subsystem in description.mechanical_system.shaft_lines[0].subsystems
    if subsystem.component_type == proto.Subsystem.ComponentType.PROPELLER_LOAD
][0]
propeller.gear.CopyFrom(
    proto.Gear(
        name="line gearbox",
        rated_power_kw=9000.0,
        rated_speed_rpm=120.0,
        efficiency=proto.Efficiency(value=0.99),
        order_from_switchboard_or_shaftline=1,
        uid="line-gearbox-0001",
    )
)
system = convert_proto_propulsion_system_to_feems(description)
print(
    "description -> system:",
    [component.name for component in system.mechanical_system.shaft_line[0].components],
)
try:
    to_message(system)
    print("description -> system -> description works")
except Exception as error:  # noqa
    print("description -> system -> description refused:", type(error).__name__, "-", error)
    violated = True

if violated:
    print("VIOLATED: a plant FEEMS can balance (and the reader can produce) cannot be written")
    sys.exit(1)
print("holds")
sys.exit(0)
