"""C13 finding 4: the name of an ELECTRIC plant is written to MachinerySystem.name but not read
back: every electric plant comes back as "electric power system" (MECHANICAL and HYBRID plants
keep their name), so system -> description -> system -> description changes the description.

Exit status 1: property violated (name changed), 0: name kept.
"""
import logging
import sys

import numpy as np

logging.disable(logging.CRITICAL)

from feems.components_model.component_electric import ElectricComponent, ElectricMachine, Genset
from feems.components_model.component_mechanical import Engine
from feems.system_model import ElectricPowerSystem
from feems.types_for_feems import TypeComponent, TypePower
import MachSysS.system_structure_pb2 as proto
from MachSysS.convert_to_feems import convert_proto_propulsion_system_to_feems
from MachSysS.convert_to_protobuf import convert_electric_system_to_protobuf_machinery_system

EFF = np.array([[0.25, 0.88], [0.5, 0.93], [0.75, 0.95], [1.0, 0.96]])
BSFC = np.array([[0.25, 230.0], [0.5, 205.0], [0.75, 195.0], [1.0, 200.0]])

engine = Engine(
    type_=TypeComponent.AUXILIARY_ENGINE,
    name="aux engine",
    rated_power=1050.0,
    rated_speed=900.0,
    bsfc_curve=BSFC,
)
generator = ElectricMachine(
    type_=TypeComponent.SYNCHRONOUS_MACHINE,
    name="generator",
    rated_power=1000.0,
    rated_speed=900.0,
    power_type=TypePower.POWER_SOURCE,
    switchboard_id=1,
    eff_curve=EFF,
)
hotel = ElectricComponent(
    type_=TypeComponent.OTHER_LOAD,
    name="hotel",
    rated_power=800.0,
    eff_curve=np.array([0.98]),
    power_type=TypePower.POWER_CONSUMER,
    switchboard_id=1,
)
plant = ElectricPowerSystem("MF Example, diesel-electric", [Genset("genset", engine, generator), hotel], [])

first = convert_electric_system_to_protobuf_machinery_system(plant)
parsed = proto.MachinerySystem()
parsed.ParseFromString(first.SerializeToString())
copy = convert_proto_propulsion_system_to_feems(parsed)
second = convert_electric_system_to_protobuf_machinery_system(copy)

print("name of the plant            :", repr(plant.name))
print("name in the description      :", repr(first.name))
print("name of the plant read back  :", repr(copy.name))
print("name in the next description :", repr(second.name))
if copy.name != plant.name or second.name != first.name:
    print("VIOLATED: the electric plant does not keep its name")
    sys.exit(1)
print("holds")
sys.exit(0)
