"""C13 finding 5 (no effect on the power balance, but the statement's "the same components with
the same ratings" is false): a serial drive whose rated speed is 0 (the constructor's default)
comes back with the rated speed of its first member, and the members come back as other kinds
(induction machine -> synchronous machine, inverter -> power converter). The next description
differs from the first one (rated_speed_rpm 0 -> 150).

Exit status 1: property violated, 0: ratings and kinds are kept.
"""
import logging
import sys

import numpy as np

logging.disable(logging.CRITICAL)

from feems.components_model.component_electric import (
    ElectricComponent,
    ElectricMachine,
    Genset,
    SerialSystemElectric,
)
from feems.components_model.component_mechanical import Engine
from feems.system_model import ElectricPowerSystem
from feems.types_for_feems import TypeComponent, TypePower
import MachSysS.system_structure_pb2 as proto
from MachSysS.convert_to_feems import convert_proto_propulsion_system_to_feems
from MachSysS.convert_to_protobuf import convert_electric_system_to_protobuf_machinery_system

EFF = np.array([[0.25, 0.88], [0.5, 0.93], [0.75, 0.95], [1.0, 0.96]])
BSFC = np.array([[0.25, 230.0], [0.5, 205.0], [0.75, 195.0], [1.0, 200.0]])

engine = Engine(
    type_=TypeComponent.AUXILIARY_ENGINE,
    name="aux engine",
    rated_power=1050.0,
    rated_speed=900.0,
    bsfc_curve=BSFC,
)
generator = ElectricMachine(
    type_=TypeComponent.SYNCHRONOUS_MACHINE,
    name="generator",
    rated_power=1000.0,
    rated_speed=900.0,
    power_type=TypePower.POWER_SOURCE,
    switchboard_id=1,
    eff_curve=EFF,
)
# The train is listed from the motor to the switchboard; rated_speed is left at its default (0)
drive = SerialSystemElectric(
    type_=TypeComponent.PROPULSION_DRIVE,
    name="thruster drive",
    power_type=TypePower.POWER_CONSUMER,
    components=[
        ElectricMachine(
            type_=TypeComponent.INDUCTION_MACHINE,
            name="motor",
            rated_power=500.0,
            rated_speed=150.0,
            eff_curve=EFF,
            power_type=TypePower.POWER_CONSUMER,
        ),
        ElectricComponent(
            type_=TypeComponent.INVERTER,
            name="vfd",
            rated_power=700.0,
            eff_curve=np.array([[0.1, 0.9], [1.0, 0.98]]),
            power_type=TypePower.POWER_CONSUMER,
        ),
    ],
    switchboard_id=1,
    rated_power=500.0,
)
plant = ElectricPowerSystem("plant", [Genset("genset", engine, generator), drive], [])


def describe(system):
    d = system.propulsion_drives[0]
    return {
        "rated_power": float(d.rated_power),
        "rated_speed": float(d.rated_speed),
        "members": [(c.name, c.type.name) for c in d.components],
    }


first = convert_electric_system_to_protobuf_machinery_system(plant)
parsed = proto.MachinerySystem()
parsed.ParseFromString(first.SerializeToString())
copy = convert_proto_propulsion_system_to_feems(parsed)
second = convert_electric_system_to_protobuf_machinery_system(copy)

before, after = describe(plant), describe(copy)
print("drive before:", before)
print("drive after :", after)
speed_first = [s.rated_speed_rpm for s in first.electric_system.switchboards[0].subsystems if s.name == "thruster drive"]
speed_second = [s.rated_speed_rpm for s in second.electric_system.switchboards[0].subsystems if s.name == "thruster drive"]
print("rated_speed_rpm in the first / next description:", speed_first, speed_second)
if before != after or speed_first != speed_second:
    print("VIOLATED: the drive does not keep its rated speed / the kinds of its members")
    sys.exit(1)
print("holds")
sys.exit(0)
