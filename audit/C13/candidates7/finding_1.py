"""C13 finding 1: the round trip changes the order of ElectricPowerSystem.power_sources
(components are regrouped by switchboard and power type), and the plant then burns another fuel
for the same load in RunFeemsSim.MachineryCalculation, whose start/stop patterns address the
power sources by position.

Exit status 1: property violated (results differ), 0: results identical.
"""
import logging
import sys

import numpy as np

logging.disable(logging.CRITICAL)

from feems.components_model.component_electric import ElectricComponent, ElectricMachine, Genset
from feems.components_model.component_mechanical import Engine
from feems.fuel import TypeFuel
from feems.system_model import ElectricPowerSystem
from feems.types_for_feems import EngineCycleType, TypeComponent, TypePower
import MachSysS.system_structure_pb2 as proto
from MachSysS.convert_to_feems import convert_proto_propulsion_system_to_feems
from MachSysS.convert_to_protobuf import convert_electric_system_to_protobuf_machinery_system
from RunFeemsSim.machinery_calculation import MachineryCalculation

EFF = np.array([[0.25, 0.88], [0.5, 0.93], [0.75, 0.95], [1.0, 0.96]])
BSFC = np.array([[0.25, 230.0], [0.5, 205.0], [0.75, 195.0], [1.0, 200.0]])


def genset(name, switchboard_id, fuel_type, cycle, bsfc):
    engine = Engine(
        type_=TypeComponent.AUXILIARY_ENGINE,
        name=name + " engine",
        rated_power=1050.0,
        rated_speed=900.0,
        bsfc_curve=bsfc,
        fuel_type=fuel_type,
        engine_cycle_type=cycle,
    )
    generator = ElectricMachine(
        type_=TypeComponent.SYNCHRONOUS_MACHINE,
        name=name + " generator",
        rated_power=1000.0,
        rated_speed=900.0,
        power_type=TypePower.POWER_SOURCE,
        switchboard_id=switchboard_id,
        eff_curve=EFF,
    )
    return Genset(name=name, aux_engine=engine, generator=generator)


def hotel_load(name, switchboard_id):
    return ElectricComponent(
        type_=TypeComponent.OTHER_LOAD,
        name=name,
        rated_power=800.0,
        eff_curve=np.array([1.0]),
        power_type=TypePower.POWER_CONSUMER,
        switchboard_id=switchboard_id,
    )


def build():
    # Two gensets of the same rating; the one on switchboard 2 is listed first.
    return ElectricPowerSystem(
        name="two switchboards",
        power_plant_components=[
            genset("diesel genset", 2, TypeFuel.DIESEL, EngineCycleType.DIESEL, BSFC),
            genset("lng genset", 1, TypeFuel.NATURAL_GAS, EngineCycleType.OTTO, BSFC * 0.85),
            hotel_load("hotel 1", 1),
            hotel_load("hotel 2", 2),
        ],
        bus_tie_connections=[(1, 2)],
    )


def round_trip(system):
    message = convert_electric_system_to_protobuf_machinery_system(system)
    parsed = proto.MachinerySystem()
    parsed.ParseFromString(message.SerializeToString())
    return convert_proto_propulsion_system_to_feems(parsed)


def fuel_by_kind(system):
    result = MachineryCalculation(system).calculate_machinery_system_output_from_statistics(
        propulsion_power=np.array([0.0, 0.0]),
        frequency=np.array([3600.0, 3600.0]),
        auxiliary_power_kw=np.array([500.0, 600.0]),
    )
    return {
        fuel.fuel_type.name: round(float(np.sum(fuel.mass_or_mass_fraction)), 6)
        for fuel in result.multi_fuel_consumption_total_kg.fuels
        if np.sum(fuel.mass_or_mass_fraction) != 0
    }


original = build()
copy = round_trip(build())
print("power sources, original  :", [c.name for c in original.power_sources])
print("power sources, round trip:", [c.name for c in copy.power_sources])
fuel_original = fuel_by_kind(original)
fuel_copy = fuel_by_kind(copy)
print("fuel [kg], original  :", fuel_original)
print("fuel [kg], round trip:", fuel_copy)
if fuel_original != fuel_copy:
    print("VIOLATED: the round-tripped plant burns another fuel for the same load")
    sys.exit(1)
print("holds")
sys.exit(0)
