"""C13 finding 2: a hybrid plant with two PTI/PTOs that uid and name cannot tell apart comes back with
the shaft lines and switchboards cross-connected.

The description has no link between the PTI/PTO subsystem on a switchboard and the one on a shaft line
other than (uid, name). The reader (convert_proto_mechanical_system_to_feems) takes, for every shaft
line in turn, the FIRST not-yet-placed machine of the electric system with that uid (and name), or -
when the uid is too short to have been kept (<= 5 characters) - with that name. When two machines
qualify (copies of one machine that keep its uid and its name, or two machines with short uids and
the same name - names must be unique per switchboard / shaft line only) and the order of the
switchboards is not the order of the shaft lines, each machine lands on the other shaft line.
Exit status 1 = property violated.
"""
import copy
import sys
import numpy as np

from feems.components_model.component_electric import (
    ElectricComponent,
    ElectricMachine,
    Genset,
    PTIPTO,
)
from feems.components_model.component_mechanical import (
    Engine,
    MainEngineForMechanicalPropulsion,
    MechanicalPropulsionComponent,
)
from feems.components_model.utility import IntegrationMethod
from feems.system_model import (
    ElectricPowerSystem,
    MechanicalPropulsionSystem,
    HybridPropulsionSystem,
)
from feems.types_for_feems import TypeComponent, TypePower
from MachSysS.convert_to_protobuf import convert_hybrid_propulsion_system_to_protobuf
from MachSysS.convert_to_feems import convert_proto_propulsion_system_to_feems
import MachSysS.system_structure_pb2 as proto

N = 4


def genset(name, swb):
    engine = Engine(
        type_=TypeComponent.AUXILIARY_ENGINE,
        name=name + " engine",
        rated_power=1000,
        rated_speed=1000,
        bsfc_curve=np.array([[0.25, 220.0], [0.5, 200.0], [0.75, 190.0], [1.0, 195.0]]),
    )
    generator = ElectricMachine(
        type_=TypeComponent.GENERATOR,
        name=name + " generator",
        rated_power=950,
        rated_speed=1000,
        power_type=TypePower.POWER_SOURCE,
        switchboard_id=swb,
        eff_curve=np.array([[0.25, 0.9], [0.5, 0.94], [1.0, 0.96]]),
    )
    return Genset(name, engine, generator)


def load(name, swb):
    return ElectricComponent(
        type_=TypeComponent.OTHER_LOAD,
        name=name,
        rated_power=500,
        power_type=TypePower.POWER_CONSUMER,
        switchboard_id=swb,
        eff_curve=np.array([1.0]),
    )


def pti_pto(name, swb, shaft_line, uid=None):
    machine = ElectricMachine(
        type_=TypeComponent.SYNCHRONOUS_MACHINE,
        name=name + " machine",
        rated_power=800,
        rated_speed=600,
        power_type=TypePower.PTI_PTO,
        switchboard_id=swb,
        eff_curve=np.array([[0.1, 0.9], [1.0, 0.96]]),
    )
    converter = ElectricComponent(
        type_=TypeComponent.POWER_CONVERTER,
        name=name + " converter",
        rated_power=800,
        power_type=TypePower.PTI_PTO,
        switchboard_id=swb,
        eff_curve=np.array([[0.1, 0.95], [1.0, 0.98]]),
    )
    return PTIPTO(name, [converter, machine], swb, 800, 600, shaft_line, uid=uid)


def main_engine(name, shaft_line, rated_power):
    return MainEngineForMechanicalPropulsion(
        name,
        Engine(
            type_=TypeComponent.MAIN_ENGINE,
            name=name + " engine",
            rated_power=rated_power,
            rated_speed=500,
            bsfc_curve=np.array([[0.25, 200.0], [0.75, 180.0], [1.0, 185.0]]),
        ),
        shaft_line,
    )


def propeller(name, shaft_line, rated_power):
    return MechanicalPropulsionComponent(
        TypeComponent.PROPELLER_LOAD,
        TypePower.POWER_CONSUMER,
        name,
        rated_power,
        np.array([[0.1, 0.95], [1.0, 0.99]]),
        120,
        shaft_line,
    )


def build(machine_a, machine_b):
    """machine_a: switchboard 2 <-> shaft line 1; machine_b: switchboard 1 <-> shaft line 2"""
    electric = ElectricPowerSystem(
        "electric",
        [genset("genset 1", 1), load("load 1", 1), machine_b,
         genset("genset 2", 2), load("load 2", 2), machine_a],
        [(1, 2)],
    )
    mechanical = MechanicalPropulsionSystem(
        "mechanical",
        [main_engine("main engine", 1, 3000), propeller("propeller", 1, 2500), machine_a,
         main_engine("main engine", 2, 1500), propeller("propeller", 2, 1200), machine_b],
    )
    return HybridPropulsionSystem("hybrid", electric, mechanical)


def round_trip(system):
    message = convert_hybrid_propulsion_system_to_protobuf(system)
    parsed = proto.MachinerySystem()
    parsed.ParseFromString(message.SerializeToString())
    return convert_proto_propulsion_system_to_feems(parsed)


def connections(system):
    return sorted(
        (each.switchboard_id, each.shaft_line_id) for each in system.electric_system.pti_pto
    )


def calculate(system):
    """PTO on switchboard 2 takes 400 kW off its shaft, the one on switchboard 1 drives its shaft
    with 300 kW (given power, load sharing mode 1)"""
    interval = np.full(N, 60.0)
    system.set_time_interval(interval, IntegrationMethod.sum_with_time)
    electric, mechanical = system.electric_system, system.mechanical_system
    for swb_id, swb in electric.switchboards.items():
        for consumer in swb.component_by_power_type[TypePower.POWER_CONSUMER.value]:
            consumer.set_power_input_from_output(np.full(N, 200.0 * swb_id))
        for source in swb.component_by_power_type[TypePower.POWER_SOURCE.value]:
            source.status = np.ones(N, dtype=bool)
            source.load_sharing_mode = np.zeros(N)
        for machine in swb.component_by_power_type[TypePower.PTI_PTO.value]:
            machine.status = np.ones(N, dtype=bool)
            machine.load_sharing_mode = np.ones(N)
            machine.full_pti_mode = np.zeros(N, dtype=bool)
            machine.set_power_output_from_input(np.full(N, -400.0 if swb_id == 2 else 300.0))
    for shaft_line in mechanical.shaft_line:
        for consumer in shaft_line.component_by_power_type[TypePower.POWER_CONSUMER]:
            consumer.power_input = np.full(N, 0.6 * consumer.rated_power)
        for engine in shaft_line.component_by_power_type[TypePower.POWER_SOURCE]:
            engine.status = np.ones(N, dtype=bool)
    system.do_power_balance_calculation()
    result = system.get_fuel_energy_consumption_running_time(
        interval, integration_method=IntegrationMethod.sum_with_time
    )
    return {
        "fuel of the main engines [kg]": result.mechanical_system.fuel_consumption_total_kg,
        "main engine on shaft line 1 [kW]": float(
            mechanical.shaft_line[0].component_by_power_type[TypePower.POWER_SOURCE][0].power_output[0]
        ),
        "main engine on shaft line 2 [kW]": float(
            mechanical.shaft_line[1].component_by_power_type[TypePower.POWER_SOURCE][0].power_output[0]
        ),
    }


violations = []

# variant 1: the second machine is a copy of the first (deepcopy keeps uid and name)
machine_a = pti_pto("PTI/PTO", 2, 1)
machine_b = copy.deepcopy(machine_a)
machine_b.switchboard_id = 1
machine_b.shaft_line_id = 2
# variant 2: two machines with uids of their own, which are short, and the same name
variants = {
    "copies (same uid, same name)": (machine_a, machine_b),
    "short uids 'a' / 'b', same name": (pti_pto("PTI/PTO", 2, 1, uid="a"), pti_pto("PTI/PTO", 1, 2, uid="b")),
}
for label, (first, second) in variants.items():
    system = build(first, second)
    # [verdict adjusted when the script was promoted: the description has nothing but (uid, name) to join the two sides of a machine, so
    #  since repo 7d446b0 the writer refuses two machines it cannot tell apart (ValueError) instead of writing them without notice;
    #  a refusal at writing is not a cross-connection]
    try:
        system_back = round_trip(system)
    except ValueError as error:
        if "cannot be told apart" in str(error):
            print(f"{label}: refused at writing: {error}")
            continue
        raise
    before, after = connections(system), connections(system_back)
    print(f"{label}: (switchboard, shaft line) of the PTI/PTOs before {before}, after {after}")
    if before != after:
        violations.append(f"{label}: connections {before} became {after}")
    result, result_back = calculate(system), calculate(system_back)
    for key in result:
        print(f"    {key}: before {result[key]:.4f}, after {result_back[key]:.4f}")
        if not np.isclose(result[key], result_back[key], rtol=1e-9):
            violations.append(f"{label}: {key} {result[key]:.4f} -> {result_back[key]:.4f}")

if violations:
    print("\nPROPERTY VIOLATED:")
    for each in violations:
        print(" -", each)
    sys.exit(1)
print("property holds")
sys.exit(0)
