"""C13 finding 4 (minor, a wrongly refused system): a SuperCapacitorSystem whose converter is None.

FEEMS supports that spelling of "supercapacitor without converter": SuperCapacitorSystem.__init__
only stores the converter and both conversion methods test `if self.converter is None`; the power
balance and the fuel calculation run.  convert_switchboard_to_protobuf dereferences
component.converter unconditionally, so the plant cannot be written at all
(AttributeError: 'NoneType' object has no attribute 'name').
Exit status 1 = property violated (valid system refused), 0 = property holds.
"""
import logging
import sys
import warnings

import numpy as np

warnings.filterwarnings("ignore")
logging.disable(logging.CRITICAL)

from feems.components_model import Engine
from feems.components_model.component_electric import (
    ElectricComponent,
    ElectricMachine,
    Genset,
    SuperCapacitor,
    SuperCapacitorSystem,
)
from feems.components_model.utility import IntegrationMethod
from feems.system_model import ElectricPowerSystem
from feems.types_for_feems import TypeComponent, TypePower
from MachSysS.convert_to_feems import convert_proto_propulsion_system_to_feems
from MachSysS.convert_to_protobuf import convert_electric_system_to_protobuf_machinery_system
import MachSysS.system_structure_pb2 as proto

EFF = np.array([[0.0, 0.80], [0.25, 0.90], [0.5, 0.94], [0.75, 0.955], [1.0, 0.96]])
BSFC = np.array([[0.1, 260.0], [0.25, 230.0], [0.5, 205.0], [0.75, 195.0], [1.0, 200.0]])


def build():
    eng = Engine(
        type_=TypeComponent.AUXILIARY_ENGINE, name="GS1 engine", rated_power=1050.0, rated_speed=900.0, bsfc_curve=BSFC
    )
    gen = ElectricMachine(
        type_=TypeComponent.SYNCHRONOUS_MACHINE,
        name="GS1 generator",
        rated_power=1000.0,
        rated_speed=900.0,
        power_type=TypePower.POWER_SOURCE,
        switchboard_id=1,
        eff_curve=EFF,
    )
    load = ElectricComponent(
        TypeComponent.OTHER_LOAD, "L1", 500.0, np.array([1.0]), TypePower.POWER_CONSUMER, switchboard_id=1
    )
    storage = SuperCapacitorSystem(
        "SCS", SuperCapacitor("cells", 3000.0, 400.0, 0.4, 0.98, 0.97), None, 1
    )
    return ElectricPowerSystem("electric", [Genset("GS1", eng, gen), load, storage], [])


def fuel(system, n=3):
    system.set_power_input_from_power_output_by_switchboard_id_type_name(
        np.full(n, 300.0), 1, TypePower.POWER_CONSUMER, "L1"
    )
    system.set_status_by_switchboard_id_power_type(1, TypePower.POWER_SOURCE, np.ones((n, 1), bool))
    system.set_load_sharing_mode_power_sources_by_switchboard_id_power_type(
        1, TypePower.POWER_SOURCE, np.zeros((n, 1))
    )
    system.set_status_by_switchboard_id_power_type(1, TypePower.ENERGY_STORAGE, np.ones((n, 1), bool))
    system.set_load_sharing_mode_power_sources_by_switchboard_id_power_type(
        1, TypePower.ENERGY_STORAGE, np.ones((n, 1))
    )
    system.set_power_input_from_power_output_by_switchboard_id_type_name(
        np.full(n, -100.0), 1, TypePower.ENERGY_STORAGE, "SCS"
    )
    system.set_time_interval(30.0, IntegrationMethod.trapezoid)
    system.do_power_balance_calculation()
    return system.get_fuel_energy_consumption_running_time().fuel_consumption_total_kg


def main():
    f0 = fuel(build())
    print("FEEMS calculates the plant: fuel %.6f kg" % f0)
    try:
        message = convert_electric_system_to_protobuf_machinery_system(build())
        parsed = proto.MachinerySystem()
        parsed.ParseFromString(message.SerializeToString())
        back = convert_proto_propulsion_system_to_feems(parsed)
    except Exception as exc:
        print("the converter refuses the plant: %s: %s" % (type(exc).__name__, exc))
        print("PROPERTY VIOLATED")
        return 1
    f1 = fuel(back)
    print("round trip fuel %.6f kg" % f1)
    violated = not np.isclose(f0, f1, rtol=1e-9, atol=0)
    print("PROPERTY VIOLATED" if violated else "property holds")
    return 1 if violated else 0


if __name__ == "__main__":
    sys.exit(main())
