"""C13 finding 3: members of a serial drive / PTI-PTO are selected by their TypeComponent; a member
whose type is in none of the writer's three lists is dropped without any message.

(a) A PTI/PTO = [converter, electric machine] whose machine carries TypeComponent.GENERATOR (a shaft
    generator; the train fits the slots "two converters and one machine").  GENERATOR is not in
    [SYNCHRONOUS_MACHINE, INDUCTION_MACHINE, ELECTRIC_MOTOR], so the machine is not written, the
    description holds a one-member train and the reader cannot build the system at all.
(b) A propulsion drive = [transformer, converter, motor, gearbox], exactly what the repository's own
    test helper create_a_propulsion_drive (feems/tests/utility.py, machinery-system-structure/tests/
    utility.py) builds.  The gearbox (98 %) is dropped silently: the drive that comes back is 2 %
    more efficient and the plant burns less fuel for the same inputs.
    (This half may overlap with the known "slots for one transformer, two converters and one
    machine" limitation; what is new is that nothing is refused and the result is silently wrong.)
Exit status 1 = property violated, 0 = property holds.
"""
import logging
import sys
import warnings

import numpy as np

warnings.filterwarnings("ignore")
logging.disable(logging.CRITICAL)

from feems.components_model import Engine, BasicComponent
from feems.components_model.component_electric import (
    ElectricComponent,
    ElectricMachine,
    Genset,
    PTIPTO,
    SerialSystemElectric,
)
from feems.components_model.utility import IntegrationMethod
from feems.system_model import ElectricPowerSystem
from feems.types_for_feems import TypeComponent, TypePower
from MachSysS.convert_to_feems import convert_proto_propulsion_system_to_feems
from MachSysS.convert_to_protobuf import convert_electric_system_to_protobuf_machinery_system
import MachSysS.system_structure_pb2 as proto

EFF = np.array([[0.0, 0.80], [0.25, 0.90], [0.5, 0.94], [0.75, 0.955], [1.0, 0.96]])
EFF2 = np.array([[0.0, 0.90], [0.25, 0.95], [0.5, 0.97], [0.75, 0.975], [1.0, 0.98]])
BSFC = np.array([[0.1, 260.0], [0.25, 230.0], [0.5, 205.0], [0.75, 195.0], [1.0, 200.0]])


def genset(name, swb):
    eng = Engine(
        type_=TypeComponent.AUXILIARY_ENGINE,
        name=name + " engine",
        rated_power=3200.0,
        rated_speed=900.0,
        bsfc_curve=BSFC,
    )
    gen = ElectricMachine(
        type_=TypeComponent.SYNCHRONOUS_MACHINE,
        name=name + " generator",
        rated_power=3000.0,
        rated_speed=900.0,
        power_type=TypePower.POWER_SOURCE,
        switchboard_id=swb,
        eff_curve=EFF,
    )
    return Genset(name, eng, gen)


def round_trip(system):
    message = convert_electric_system_to_protobuf_machinery_system(system)
    parsed = proto.MachinerySystem()
    parsed.ParseFromString(message.SerializeToString())
    return convert_proto_propulsion_system_to_feems(parsed), parsed


def case_a():
    machine = ElectricMachine(
        type_=TypeComponent.GENERATOR,
        name="shaft generator",
        rated_power=900.0,
        rated_speed=500.0,
        power_type=TypePower.PTI_PTO,
        eff_curve=EFF,
    )
    converter = ElectricComponent(
        TypeComponent.POWER_CONVERTER, "converter", 1000.0, EFF2, TypePower.POWER_TRANSMISSION
    )
    load = ElectricComponent(
        TypeComponent.OTHER_LOAD, "L1", 500.0, np.array([1.0]), TypePower.POWER_CONSUMER, switchboard_id=1
    )
    system = ElectricPowerSystem(
        "electric", [genset("GS1", 1), load, PTIPTO("PTO", [converter, machine], 1, 1000.0, 500.0)], []
    )
    print("(a) original PTI/PTO members:", [c.name for c in system.pti_pto[0].components])
    try:
        back, parsed = round_trip(system)
    except Exception as exc:
        print("(a) the description written for this system cannot be read back: %s: %s" % (type(exc).__name__, exc))
        return True
    members = [c.name for c in back.pti_pto[0].components]
    print("(a) round trip PTI/PTO members:", members)
    return members != [c.name for c in system.pti_pto[0].components]


def build_b():
    transformer = ElectricComponent(
        TypeComponent.TRANSFORMER, "transformer", 2000.0, np.array([0.985]), TypePower.POWER_TRANSMISSION
    )
    converter = ElectricComponent(
        TypeComponent.POWER_CONVERTER, "converter", 2000.0, EFF2, TypePower.POWER_TRANSMISSION
    )
    motor = ElectricMachine(
        type_=TypeComponent.ELECTRIC_MOTOR,
        name="motor",
        rated_power=2000.0,
        rated_speed=150.0,
        power_type=TypePower.POWER_CONSUMER,
        eff_curve=EFF,
    )
    gearbox = BasicComponent(
        TypeComponent.GEARBOX, TypePower.POWER_TRANSMISSION, "thruster gearbox", 2000.0, np.array([0.98]), 150.0
    )
    drive = SerialSystemElectric(
        TypeComponent.PROPULSION_DRIVE,
        "drive",
        TypePower.POWER_CONSUMER,
        [transformer, converter, motor, gearbox],
        1,
        2000.0,
        150.0,
    )
    return ElectricPowerSystem("electric", [genset("GS1", 1), drive], [])


def fuel(system, n=5):
    system.set_power_input_from_power_output_by_switchboard_id_type_name(
        np.linspace(500.0, 1500.0, n), 1, TypePower.POWER_CONSUMER, "drive"
    )
    system.set_status_by_switchboard_id_power_type(1, TypePower.POWER_SOURCE, np.ones((n, 1), bool))
    system.set_load_sharing_mode_power_sources_by_switchboard_id_power_type(
        1, TypePower.POWER_SOURCE, np.zeros((n, 1))
    )
    system.set_time_interval(60.0, IntegrationMethod.trapezoid)
    system.do_power_balance_calculation()
    return system.get_fuel_energy_consumption_running_time().fuel_consumption_total_kg


def case_b():
    system = build_b()
    back, _ = round_trip(system)
    d0, d1 = system.propulsion_drives[0], back.propulsion_drives[0]
    print("(b) original drive members  :", [c.name for c in d0.components])
    print("(b) round trip drive members:", [c.name for c in d1.components])
    e0 = float(d0.get_efficiency_from_load_percentage(0.5))
    e1 = float(d1.get_efficiency_from_load_percentage(0.5))
    print("(b) drive efficiency at 50 %% load: original %.5f, round trip %.5f" % (e0, e1))
    f0, f1 = fuel(build_b()), fuel(round_trip(build_b())[0])
    print("(b) fuel for the same shaft power series: original %.4f kg, round trip %.4f kg" % (f0, f1))
    return not np.isclose(f0, f1, rtol=1e-9, atol=0)


def main():
    a = case_a()
    b = case_b()
    # [case (b) - a gearbox among the members of a drive has no slot in the message - is known finding D10f and is printed only;
    #  what is counted is case (a), the generator-typed machine of a shaft generator, repaired as D69]
    violated = a
    print("PROPERTY VIOLATED" if violated else "property holds")
    return 1 if violated else 0


if __name__ == "__main__":
    sys.exit(main())
