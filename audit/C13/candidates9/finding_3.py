"""C13 finding 3: the gearbox of an electric propulsion drive is dropped by the writer without notice.

A propulsion drive built the way the project's own helpers build it
(feems/tests/utility.py and machinery-system-structure/tests/utility.py, create_a_propulsion_drive:
components=[transformer, converter, motor, gear_box]) has a member of type GEARBOX.
convert_serial_electric_system_to_protobuf has branches for TRANSFORMER, the converter kinds and the
machine kinds only: a member of any other type is skipped silently (although Subsystem has a `gear`
field). The drive read back has three members, its efficiency lacks the gearbox, and the plant burns
less fuel for the same propulsion power.
(Related to, but not the same as, the known "one transformer, two converters, one machine" slots: here
nothing exceeds a slot - the kind has no branch, and the writer does not refuse it.)
Exit status 1 = property violated.
"""
import sys
import numpy as np

from feems.components_model.component_base import BasicComponent
from feems.components_model.component_electric import (
    ElectricComponent,
    ElectricMachine,
    Genset,
    SerialSystemElectric,
)
from feems.components_model.component_mechanical import Engine
from feems.components_model.utility import IntegrationMethod
from feems.system_model import ElectricPowerSystem
from feems.types_for_feems import TypeComponent, TypePower
from MachSysS.convert_to_protobuf import convert_electric_system_to_protobuf_machinery_system
from MachSysS.convert_to_feems import convert_proto_propulsion_system_to_feems
import MachSysS.system_structure_pb2 as proto

N = 4


def build():
    engine = Engine(
        type_=TypeComponent.AUXILIARY_ENGINE,
        name="engine",
        rated_power=2000,
        rated_speed=1000,
        bsfc_curve=np.array([[0.25, 220.0], [0.5, 200.0], [0.75, 190.0], [1.0, 195.0]]),
    )
    generator = ElectricMachine(
        type_=TypeComponent.GENERATOR,
        name="generator",
        rated_power=1900,
        rated_speed=1000,
        power_type=TypePower.POWER_SOURCE,
        switchboard_id=1,
        eff_curve=np.array([[0.25, 0.9], [0.5, 0.94], [1.0, 0.96]]),
    )
    transformer = ElectricComponent(
        type_=TypeComponent.TRANSFORMER,
        name="transformer",
        rated_power=1000,
        power_type=TypePower.POWER_TRANSMISSION,
        eff_curve=np.array([[0.1, 0.97], [1.0, 0.99]]),
    )
    converter = ElectricComponent(
        type_=TypeComponent.POWER_CONVERTER,
        name="frequency converter",
        rated_power=1000,
        power_type=TypePower.POWER_TRANSMISSION,
        eff_curve=np.array([[0.1, 0.95], [1.0, 0.98]]),
    )
    motor = ElectricMachine(
        type_=TypeComponent.ELECTRIC_MOTOR,
        name="motor",
        rated_power=1000,
        rated_speed=600,
        power_type=TypePower.POWER_CONSUMER,
        eff_curve=np.array([[0.1, 0.9], [1.0, 0.96]]),
    )
    gear_box = BasicComponent(
        type_=TypeComponent.GEARBOX,
        power_type=TypePower.POWER_TRANSMISSION,
        name="gearbox",
        rated_power=1000,
        rated_speed=600,
        eff_curve=np.array([0.97]),
    )
    drive = SerialSystemElectric(
        type_=TypeComponent.PROPULSION_DRIVE,
        name="drive",
        power_type=TypePower.POWER_CONSUMER,
        components=[transformer, converter, motor, gear_box],
        switchboard_id=1,
        rated_power=1000,
        rated_speed=600,
    )
    return ElectricPowerSystem("plant", [Genset("genset", engine, generator), drive], [])


def calculate(system):
    system.set_time_interval(np.full(N, 60.0), IntegrationMethod.sum_with_time)
    system.propulsion_drives[0].set_power_input_from_output(np.array([200.0, 400.0, 600.0, 800.0]))
    system.power_sources[0].status = np.ones(N, dtype=bool)
    system.power_sources[0].load_sharing_mode = np.zeros(N)
    system.do_power_balance_calculation()
    result = system.get_fuel_energy_consumption_running_time()
    return np.array(system.power_sources[0].power_output), result.fuel_consumption_total_kg


system = build()
message = convert_electric_system_to_protobuf_machinery_system(system)
parsed = proto.MachinerySystem()
parsed.ParseFromString(message.SerializeToString())
system_back = convert_proto_propulsion_system_to_feems(parsed)

members = [each.name for each in system.propulsion_drives[0].components]
members_back = [each.name for each in system_back.propulsion_drives[0].components]
print("members of the drive before:", members)
print("members of the drive after: ", members_back)
power, fuel = calculate(system)
power_back, fuel_back = calculate(system_back)
print("genset power before [kW]:", np.round(power, 3))
print("genset power after  [kW]:", np.round(power_back, 3))
print(f"fuel before {fuel:.5f} kg, after {fuel_back:.5f} kg")

violations = []
if members != members_back:
    violations.append(f"members of the drive {members} -> {members_back}")
if not np.allclose(power, power_back, rtol=1e-9):
    violations.append("the power balance differs")
if not np.isclose(fuel, fuel_back, rtol=1e-9):
    violations.append(f"fuel {fuel:.5f} kg -> {fuel_back:.5f} kg")
if violations:
    print("\nPROPERTY VIOLATED:")
    for each in violations:
        print(" -", each)
    sys.exit(1)
print("property holds")
sys.exit(0)
