"""C13 finding 4: a serial drive / PTI/PTO keeps the caller's list of members and a COGAS keeps the
caller's turbine power arrays: what is written to protobuf is not what the component calculates with.

The sibling of the repaired case "a component keeps the caller's emission curve lists" (repair
cccb371 copies the emission curves of Engine and COGAS only):
 - SerialSystem.__init__ works out the efficiency of the train once, from the members it is handed,
   and stores `self.components = components` - the caller's list. The writer iterates that list.
 - COGAS.__init__ builds its power-share interpolators from copies, and stores
   `self.gas_turbine_power_curve = gas_turbine_power_curve` (and the steam one) - the caller's arrays.
   The writer writes those arrays.
A caller who re-uses the list / the arrays for the next component (exchanging a member, filling in the
numbers of the next unit) changes the description of the FIRST component, not its behaviour: the
system read back behaves differently from the system written.
Exit status 1 = property violated.
"""
import sys
import numpy as np

from feems.components_model.component_electric import (
    ElectricComponent,
    ElectricMachine,
    Genset,
    SerialSystemElectric,
)
from feems.components_model.component_mechanical import Engine, COGAS
from feems.components_model.utility import IntegrationMethod
from feems.fuel import TypeFuel
from feems.system_model import ElectricPowerSystem
from feems.types_for_feems import TypeComponent, TypePower
from MachSysS.convert_to_protobuf import (
    convert_electric_system_to_protobuf_machinery_system,
    convert_cogas_component_to_protobuf,
)
from MachSysS.convert_to_feems import (
    convert_proto_propulsion_system_to_feems,
    convert_proto_cogas_to_feems,
)
import MachSysS.system_structure_pb2 as proto

N = 4
violations = []


# --- (a) the list of members of a serial drive -------------------------------------------------
def motor(name, efficiency):
    return ElectricMachine(
        type_=TypeComponent.ELECTRIC_MOTOR,
        name=name,
        rated_power=1000,
        rated_speed=600,
        power_type=TypePower.POWER_CONSUMER,
        eff_curve=efficiency,
    )


def drive(name, members):
    return SerialSystemElectric(
        type_=TypeComponent.PROPULSION_DRIVE,
        name=name,
        power_type=TypePower.POWER_CONSUMER,
        components=members,
        switchboard_id=1,
        rated_power=1000,
        rated_speed=600,
    )


engine = Engine(
    type_=TypeComponent.AUXILIARY_ENGINE,
    name="engine",
    rated_power=3000,
    rated_speed=1000,
    bsfc_curve=np.array([[0.25, 220.0], [0.5, 200.0], [0.75, 190.0], [1.0, 195.0]]),
)
generator = ElectricMachine(
    type_=TypeComponent.GENERATOR,
    name="generator",
    rated_power=2850,
    rated_speed=1000,
    power_type=TypePower.POWER_SOURCE,
    switchboard_id=1,
    eff_curve=np.array([[0.25, 0.9], [0.5, 0.94], [1.0, 0.96]]),
)
transformer = ElectricComponent(
    type_=TypeComponent.TRANSFORMER,
    name="transformer",
    rated_power=1000,
    power_type=TypePower.POWER_TRANSMISSION,
    eff_curve=np.array([[0.1, 0.97], [1.0, 0.99]]),
)
members = [transformer, motor("good motor", np.array([[0.1, 0.93], [1.0, 0.97]]))]
drive_1 = drive("drive 1", members)
members[1] = motor("poor motor", np.array([[0.1, 0.80], [1.0, 0.88]]))  # the list is used again
drive_2 = drive("drive 2", members)
system = ElectricPowerSystem("plant", [Genset("genset", engine, generator), drive_1, drive_2], [])

message = convert_electric_system_to_protobuf_machinery_system(system)
parsed = proto.MachinerySystem()
parsed.ParseFromString(message.SerializeToString())
system_back = convert_proto_propulsion_system_to_feems(parsed)


def calculate(plant):
    plant.set_time_interval(np.full(N, 60.0), IntegrationMethod.sum_with_time)
    for each in plant.propulsion_drives:
        each.set_power_input_from_output(np.array([200.0, 400.0, 600.0, 800.0]))
    plant.power_sources[0].status = np.ones(N, dtype=bool)
    plant.power_sources[0].load_sharing_mode = np.zeros(N)
    plant.do_power_balance_calculation()
    return (
        np.array(plant.propulsion_drives[0].power_input),
        plant.get_fuel_energy_consumption_running_time().fuel_consumption_total_kg,
    )


power, fuel = calculate(system)
power_back, fuel_back = calculate(system_back)
print("drive 1, electric power before [kW]:", np.round(power, 3))
print("drive 1, electric power after  [kW]:", np.round(power_back, 3))
print(f"fuel before {fuel:.5f} kg, after {fuel_back:.5f} kg")
if not np.allclose(power, power_back, rtol=1e-9):
    violations.append("serial drive: the electric power of drive 1 differs after the round trip")
if not np.isclose(fuel, fuel_back, rtol=1e-9):
    violations.append(f"serial drive: fuel {fuel:.5f} kg -> {fuel_back:.5f} kg")

# --- (b) the turbine power curves of a COGAS ---------------------------------------------------
gas_turbine = np.array([[0.2, 500.0], [0.6, 1300.0], [1.0, 2000.0]])
steam_turbine = np.array([[0.2, 100.0], [0.6, 500.0], [1.0, 1000.0]])
cogas_1 = COGAS(
    name="COGAS 1",
    rated_power=3000,
    eff_curve=np.array([[0.2, 0.35], [1.0, 0.55]]),
    rated_speed=3600,
    gas_turbine_power_curve=gas_turbine,
    steam_turbine_power_curve=steam_turbine,
    fuel_type=TypeFuel.NATURAL_GAS,
)
gas_turbine[:, 1] = [550.0, 1600.0, 2500.0]  # the arrays are filled in for the next unit
steam_turbine[:, 1] = [50.0, 200.0, 500.0]
cogas_2 = COGAS(
    name="COGAS 2",
    rated_power=3000,
    eff_curve=np.array([[0.2, 0.35], [1.0, 0.55]]),
    rated_speed=3600,
    gas_turbine_power_curve=gas_turbine,
    steam_turbine_power_curve=steam_turbine,
    fuel_type=TypeFuel.NATURAL_GAS,
)
message = convert_cogas_component_to_protobuf(cogas_1)
parsed = proto.COGAS()
parsed.ParseFromString(message.SerializeToString())
cogas_1_back = convert_proto_cogas_to_feems(parsed)
power_kw = np.array([600.0, 1800.0, 3000.0])
share = cogas_1.get_gas_turbine_run_point_from_power_output_kw(power_kw).gas_turbine_power_kw
share_back = cogas_1_back.get_gas_turbine_run_point_from_power_output_kw(power_kw).gas_turbine_power_kw
print("COGAS 1, gas turbine power before [kW]:", np.round(share, 3))
print("COGAS 1, gas turbine power after  [kW]:", np.round(share_back, 3))
if not np.allclose(share, share_back, rtol=1e-9):
    violations.append("COGAS: the gas turbine power of unit 1 differs after the round trip")

if violations:
    print("\nPROPERTY VIOLATED:")
    for each in violations:
        print(" -", each)
    sys.exit(1)
print("property holds")
sys.exit(0)
