"""C13 finding 1: two PTI/PTOs with the same name, one with a kept (long) uid and one with a short uid.

The writer's check _check_pti_ptos_can_be_told_apart accepts the plant (the keys (uid, name) and
(None, name) differ), but the reader's matching in convert_proto_mechanical_system_to_feems lets the
short-uid subsystem of the shaft line fall back to the NAME and takes the first electric PTI/PTO of
that name - the long-uid machine that belongs to the other shaft line.
 - hybrid plant: the description cannot be read back (ConfigurationError)
 - conventional plant (MECHANICAL): it is read back silently with the machines on the wrong shaft
   lines, and one shaft line carries a machine that is not on any switchboard.
Exit 1 = property violated.
"""
import sys
import numpy as np
from feems.components_model import (Engine, MechanicalPropulsionComponent, MainEngineForMechanicalPropulsion)
from feems.components_model.component_electric import (ElectricComponent, ElectricMachine, Genset, PTIPTO)
from feems.system_model import (ElectricPowerSystem, MechanicalPropulsionSystem, HybridPropulsionSystem,
                                MechanicalPropulsionSystemWithElectricPowerSystem)
from feems.types_for_feems import TypeComponent, TypePower
import MachSysS.system_structure_pb2 as proto
from MachSysS.convert_to_feems import convert_proto_propulsion_system_to_feems
from MachSysS.convert_to_protobuf import (convert_hybrid_propulsion_system_to_protobuf,
    convert_mechanical_propulsion_system_with_electric_system_to_protobuf)

EFF = np.array([[0.0, 0.80], [0.25, 0.9], [0.5, 0.94], [0.75, 0.95], [1.0, 0.96]])
BSFC = np.array([[0.25, 230.0], [0.5, 205.0], [0.75, 195.0], [1.0, 200.0]])

def genset(name, swb):
    eng = Engine(type_=TypeComponent.AUXILIARY_ENGINE, name=name + " eng", rated_power=1100.0, rated_speed=900.0, bsfc_curve=BSFC)
    gen = ElectricMachine(type_=TypeComponent.SYNCHRONOUS_MACHINE, name=name + " gen", rated_power=1000.0, rated_speed=900.0,
                          power_type=TypePower.POWER_SOURCE, eff_curve=EFF, switchboard_id=swb)
    return Genset(name=name, aux_engine=eng, generator=gen)

def load(name, swb):
    return ElectricComponent(type_=TypeComponent.OTHER_LOAD, name=name, rated_power=500.0, eff_curve=np.array([1.0]),
                             power_type=TypePower.POWER_CONSUMER, switchboard_id=swb)

def ptipto(name, swb, shaft_line, rated_power, uid):
    m = ElectricMachine(type_=TypeComponent.SYNCHRONOUS_MACHINE, name=name + " machine", rated_power=rated_power, rated_speed=600.0,
                        power_type=TypePower.PTI_PTO, eff_curve=EFF, switchboard_id=swb)
    c = ElectricComponent(type_=TypeComponent.POWER_CONVERTER, name=name + " converter", rated_power=rated_power,
                          eff_curve=np.array([0.98]), power_type=TypePower.PTI_PTO, switchboard_id=swb)
    return PTIPTO(name=name, components=[c, m], switchboard_id=swb, rated_power=rated_power, rated_speed=600.0,
                  shaft_line_id=shaft_line, uid=uid)

def main_engine(name, sl):
    eng = Engine(type_=TypeComponent.MAIN_ENGINE, name=name + " engine", rated_power=3000.0, rated_speed=500.0, bsfc_curve=BSFC)
    return MainEngineForMechanicalPropulsion(name=name, engine=eng, shaft_line_id=sl)

def propeller(name, sl):
    return MechanicalPropulsionComponent(type_=TypeComponent.PROPELLER_LOAD, power_type=TypePower.POWER_CONSUMER, name=name,
                                         rated_power=4000.0, rated_speed=150.0, eff_curve=np.array([1.0]), shaft_line_id=sl)

def build(cls):
    # switchboard 1: 800 kW machine, uid kept by the description, drives shaft line 2
    # switchboard 2: 400 kW machine, uid of 3 characters (not kept),  drives shaft line 1
    big = ptipto("PTI/PTO", 1, 2, 800.0, uid="pti-pto-starboard")
    small = ptipto("PTI/PTO", 2, 1, 400.0, uid="psb")
    es = ElectricPowerSystem("es", [genset("G1", 1), load("L1", 1), big, genset("G2", 2), load("L2", 2), small], [(1, 2)])
    ms = MechanicalPropulsionSystem("ms", [main_engine("ME1", 1), propeller("P1", 1), small,
                                            main_engine("ME2", 2), propeller("P2", 2), big])
    return cls("plant", es, ms)

def layout(system):
    """shaft line -> (rated power of its PTI/PTO, switchboard of that machine if it is one of the electric system's)"""
    res = {}
    for shaft_line in system.mechanical_system.shaft_line:
        for c in shaft_line.components:
            if c.type == TypeComponent.PTI_PTO_SYSTEM:
                on_swb = [p.switchboard_id for p in system.electric_system.pti_pto if p is c]
                res[shaft_line.id] = (c.rated_power, on_swb[0] if on_swb else "NOT ON ANY SWITCHBOARD")
    return res

def roundtrip(msg):
    parsed = proto.MachinerySystem()
    parsed.ParseFromString(msg.SerializeToString())
    return convert_proto_propulsion_system_to_feems(parsed)

violated = False
for cls, writer in ((HybridPropulsionSystem, convert_hybrid_propulsion_system_to_protobuf),
                    (MechanicalPropulsionSystemWithElectricPowerSystem,
                     convert_mechanical_propulsion_system_with_electric_system_to_protobuf)):
    original = build(cls)
    message = writer(original)  # accepted by _check_pti_ptos_can_be_told_apart
    print(f"--- {cls.__name__}")
    print("original  shaft line -> (PTI/PTO kW, its switchboard):", layout(original))
    try:
        back = roundtrip(message)
    except Exception as e:
        print("read back REFUSED:", type(e).__name__, e)
        violated = True
        continue
    print("read back shaft line -> (PTI/PTO kW, its switchboard):", layout(back))
    if layout(back) != layout(original):
        print("the PTI/PTOs came back on other shaft lines")
        violated = True
print("PROPERTY VIOLATED" if violated else "property holds")
sys.exit(1 if violated else 0)
