"""C13 finding 1: a MECHANICAL plant (MechanicalPropulsionSystemWithElectricPowerSystem) with a
shaft generator (PTI/PTO) does not round-trip to an identically behaving system.

The PTI/PTO is ONE object that sits on a switchboard and on a shaft line.  After
system -> protobuf -> bytes -> protobuf -> system
 * the shaft line holds a second, independent PTIPTO object (the hybrid branch of the reader reuses
   the electric one, the mechanical branch does not),
 * that copy claims switchboard 1 whatever the original switchboard was,
 * the same inputs therefore give another main-engine fuel consumption (one-sample series) or are
   refused (longer series).
Exit status 1 = property violated, 0 = property holds.
"""
import logging
import sys
import warnings

import numpy as np

warnings.filterwarnings("ignore")
logging.disable(logging.CRITICAL)

from feems.components_model import Engine, MechanicalPropulsionComponent
from feems.components_model.component_electric import (
    ElectricComponent,
    ElectricMachine,
    Genset,
    PTIPTO,
)
from feems.components_model.component_mechanical import MainEngineForMechanicalPropulsion
from feems.components_model.utility import IntegrationMethod
from feems.system_model import (
    ElectricPowerSystem,
    MechanicalPropulsionSystem,
    MechanicalPropulsionSystemWithElectricPowerSystem,
)
from feems.types_for_feems import TypeComponent, TypePower
from MachSysS.convert_to_feems import convert_proto_propulsion_system_to_feems
from MachSysS.convert_to_protobuf import (
    convert_mechanical_propulsion_system_with_electric_system_to_protobuf,
)
import MachSysS.system_structure_pb2 as proto

EFF = np.array([[0.0, 0.80], [0.25, 0.90], [0.5, 0.94], [0.75, 0.955], [1.0, 0.96]])
EFF2 = np.array([[0.0, 0.90], [0.25, 0.95], [0.5, 0.97], [0.75, 0.975], [1.0, 0.98]])
BSFC = np.array([[0.1, 260.0], [0.25, 230.0], [0.5, 205.0], [0.75, 195.0], [1.0, 200.0]])


def genset(name, swb):
    eng = Engine(
        type_=TypeComponent.AUXILIARY_ENGINE,
        name=name + " engine",
        rated_power=1050.0,
        rated_speed=900.0,
        bsfc_curve=BSFC,
    )
    gen = ElectricMachine(
        type_=TypeComponent.SYNCHRONOUS_MACHINE,
        name=name + " generator",
        rated_power=1000.0,
        rated_speed=900.0,
        power_type=TypePower.POWER_SOURCE,
        switchboard_id=swb,
        eff_curve=EFF,
    )
    return Genset(name, eng, gen)


def load(name, swb):
    return ElectricComponent(
        TypeComponent.OTHER_LOAD,
        name,
        500.0,
        np.array([1.0]),
        TypePower.POWER_CONSUMER,
        switchboard_id=swb,
    )


def build():
    machine = ElectricMachine(
        type_=TypeComponent.SYNCHRONOUS_MACHINE,
        name="shaft machine",
        rated_power=900.0,
        rated_speed=500.0,
        power_type=TypePower.PTI_PTO,
        eff_curve=EFF,
    )
    converter = ElectricComponent(
        TypeComponent.POWER_CONVERTER, "shaft converter", 1000.0, EFF2, TypePower.POWER_TRANSMISSION
    )
    # the shaft generator feeds switchboard 2 and sits on shaft line 1
    pto = PTIPTO("PTO", [converter, machine], 2, 1000.0, 500.0, 1)
    electric = ElectricPowerSystem(
        "electric",
        [genset("GS1", 1), load("L1", 1), genset("GS2", 2), load("L2", 2), pto],
        [(1, 2)],
    )
    engine = Engine(
        type_=TypeComponent.MAIN_ENGINE,
        name="ME1 engine",
        rated_power=5000.0,
        rated_speed=120.0,
        bsfc_curve=BSFC,
    )
    mechanical = MechanicalPropulsionSystem(
        "mechanical",
        [
            MainEngineForMechanicalPropulsion("ME1", engine, 1),
            MechanicalPropulsionComponent(
                TypeComponent.PROPELLER_LOAD,
                TypePower.POWER_CONSUMER,
                "propeller",
                7000.0,
                np.array([1.0]),
                120.0,
                1,
            ),
            pto,
        ],
    )
    return MechanicalPropulsionSystemWithElectricPowerSystem("plant", electric, mechanical)


def round_trip(system):
    message = convert_mechanical_propulsion_system_with_electric_system_to_protobuf(system)
    parsed = proto.MachinerySystem()
    parsed.ParseFromString(message.SerializeToString())
    return convert_proto_propulsion_system_to_feems(parsed)


def run(system, n):
    """The same inputs, given through the same public calls, for both systems."""
    es, ms = system.electric_system, system.mechanical_system
    for swb in (1, 2):
        es.set_power_input_from_power_output_by_switchboard_id_type_name(
            np.full(n, 300.0), swb, TypePower.POWER_CONSUMER, "L%d" % swb
        )
        es.set_status_by_switchboard_id_power_type(
            swb, TypePower.POWER_SOURCE, np.ones((n, 1), bool)
        )
        es.set_load_sharing_mode_power_sources_by_switchboard_id_power_type(
            swb, TypePower.POWER_SOURCE, np.zeros((n, 1))
        )
    es.set_status_by_switchboard_id_power_type(2, TypePower.PTI_PTO, np.ones((n, 1), bool))
    es.set_load_sharing_mode_power_sources_by_switchboard_id_power_type(
        2, TypePower.PTI_PTO, np.ones((n, 1))
    )
    # the shaft generator delivers 400 kW (shaft side) to switchboard 2
    es.set_power_input_from_power_output_by_switchboard_id_type_name(
        -np.full(n, 400.0), 2, TypePower.PTI_PTO, "PTO"
    )
    es.set_bus_tie_status_all(np.ones((n, 1), bool))
    ms.set_power_consumer_load_by_value_for_given_name_shaft_line_id(
        "propeller", 1, np.full(n, 3000.0)
    )
    ms.set_status_main_engine_for_name_shaft_line_id("ME1", 1, np.ones(n, bool))
    ms.set_full_pti_mode_for_name_shaft_line_id("PTO", 1, np.zeros(n, bool))
    es.set_time_interval(60.0, IntegrationMethod.sum_with_time if n == 1 else IntegrationMethod.trapezoid)
    ms.set_time_interval(60.0, IntegrationMethod.sum_with_time if n == 1 else IntegrationMethod.trapezoid)
    system.do_power_balance_calculation()
    result = system.get_fuel_energy_consumption_running_time(
        60.0,
        integration_method=IntegrationMethod.sum_with_time if n == 1 else IntegrationMethod.trapezoid,
    )
    return (
        result.electric_system.fuel_consumption_total_kg,
        result.mechanical_system.fuel_consumption_total_kg,
    )


def main():
    violated = False
    original = build()
    back = round_trip(original)

    pto_el_0 = original.electric_system.pti_pto[0]
    pto_me_0 = original.mechanical_system.pti_ptos[0]
    pto_el_1 = back.electric_system.pti_pto[0]
    pto_me_1 = back.mechanical_system.pti_ptos[0]
    print("original : one PTI/PTO object on switchboard and shaft line:", pto_el_0 is pto_me_0)
    print("round trip: one PTI/PTO object on switchboard and shaft line:", pto_el_1 is pto_me_1)
    if (pto_el_0 is pto_me_0) != (pto_el_1 is pto_me_1):
        violated = True
    print(
        "switchboard of the shaft-line PTI/PTO: original %s, round trip %s"
        % (pto_me_0.switchboard_id, pto_me_1.switchboard_id)
    )
    if pto_me_0.switchboard_id != pto_me_1.switchboard_id:
        violated = True

    for n in (1, 4):
        fuel_0 = run(build(), n)
        try:
            fuel_1 = run(round_trip(build()), n)
        except Exception as exc:  # the same inputs are refused
            print(
                "n=%d: original fuel (electric, mechanical) = %s kg; round trip REFUSES the same "
                "inputs: %s: %s" % (n, fuel_0, type(exc).__name__, str(exc).replace("\n", " "))
            )
            violated = True
            continue
        print("n=%d: fuel (electric, mechanical) original %s kg, round trip %s kg" % (n, fuel_0, fuel_1))
        if not np.allclose(fuel_0, fuel_1, rtol=1e-9, atol=0):
            violated = True

    print("PROPERTY VIOLATED" if violated else "property holds")
    return 1 if violated else 0


if __name__ == "__main__":
    sys.exit(main())
