"""C13 finding 2: a gearbox that is a component of the shaft line of its own (TypeComponent.GEARBOX,
the case convert_shaftline_to_protobuf has a branch and a comment for) is lost by the round trip.

The writer stores that gearbox in the `gear` field of every PROPELLER_LOAD subsystem; the reader's
PROPELLER_LOAD branch never looks at `sub_system.gear`.  So
system -> protobuf -> bytes -> protobuf -> system
returns a shaft line without the gearbox (rating and efficiency curve gone), and writing that system
again gives another description than the first one (the gear is in D0, not in D1).
Exit status 1 = property violated, 0 = property holds.
"""
import logging
import sys
import warnings

import numpy as np

warnings.filterwarnings("ignore")
logging.disable(logging.CRITICAL)

from feems.components_model import Engine, MechanicalPropulsionComponent
from feems.components_model.component_mechanical import MainEngineForMechanicalPropulsion
from feems.system_model import MechanicalPropulsionSystem
from feems.types_for_feems import TypeComponent, TypePower
from MachSysS.convert_to_feems import convert_proto_mechanical_system_to_feems
from MachSysS.convert_to_protobuf import convert_mechanical_system_to_protobuf
import MachSysS.system_structure_pb2 as proto

BSFC = np.array([[0.1, 260.0], [0.25, 230.0], [0.5, 205.0], [0.75, 195.0], [1.0, 200.0]])
EFF_GEAR = np.array([[0.0, 0.90], [0.25, 0.95], [0.5, 0.97], [0.75, 0.975], [1.0, 0.98]])


def build():
    engine = Engine(
        type_=TypeComponent.MAIN_ENGINE,
        name="ME1 engine",
        rated_power=5000.0,
        rated_speed=600.0,
        bsfc_curve=BSFC,
    )
    return MechanicalPropulsionSystem(
        "mechanical",
        [
            MainEngineForMechanicalPropulsion("ME1", engine, 1),
            MechanicalPropulsionComponent(
                TypeComponent.GEARBOX,
                TypePower.POWER_TRANSMISSION,
                "reduction gear",
                5000.0,
                EFF_GEAR,
                600.0,
                1,
            ),
            MechanicalPropulsionComponent(
                TypeComponent.PROPELLER_LOAD,
                TypePower.POWER_CONSUMER,
                "propeller",
                5000.0,
                np.array([1.0]),
                120.0,
                1,
            ),
        ],
    )


def describe(system):
    return sorted(
        (c.type.name, c.name, float(c.rated_power)) for c in system.shaft_line[0].components
    )


def main():
    original = build()
    d0 = convert_mechanical_system_to_protobuf(original)
    parsed = proto.MechanicalSystem()
    parsed.ParseFromString(d0.SerializeToString())
    gear_in_description = [
        s.gear.name for s in parsed.shaft_lines[0].subsystems if s.HasField("gear")
    ]
    back = convert_proto_mechanical_system_to_feems(parsed)
    d1 = convert_mechanical_system_to_protobuf(back)

    print("gear written into the description:", gear_in_description)
    print("components of shaft line 1, original  :", describe(original))
    print("components of shaft line 1, round trip:", describe(back))
    print(
        "mechanical loads counted by the system: original %d, round trip %d"
        % (original.no_mechanical_loads, back.no_mechanical_loads)
    )
    print("second description equals the first:", d0 == d1)

    violated = describe(original) != describe(back)
    print("PROPERTY VIOLATED" if violated else "property holds")
    return 1 if violated else 0


if __name__ == "__main__":
    sys.exit(main())
