"""C13 finding 1: PTI/PTOs that share a uid (built with copy.deepcopy, the idiom of FEEMS's own
test suite for multi-shaft plants) all end up on the LAST shaft line after a protobuf round trip.

Run: PYTHONPATH=<wt>/feems:<wt>/machinery-system-structure:<wt>/RunFEEMSSim python finding_1.py
exit 1 = property violated, 0 = property holds.
"""
import copy
import logging
import sys

import numpy as np

from feems.components_model.component_electric import (
    ElectricComponent,
    ElectricMachine,
    Genset,
    PTIPTO,
)
from feems.components_model.component_mechanical import (
    Engine,
    MainEngineForMechanicalPropulsion,
    MechanicalPropulsionComponent,
)
from feems.components_model.utility import IntegrationMethod
from feems.system_model import (
    ElectricPowerSystem,
    HybridPropulsionSystem,
    MechanicalPropulsionSystem,
)
from feems.types_for_feems import TypeComponent, TypePower
import MachSysS.system_structure_pb2 as proto
from MachSysS.convert_to_protobuf import convert_hybrid_propulsion_system_to_protobuf
from MachSysS.convert_to_feems import convert_proto_propulsion_system_to_feems

logging.disable(logging.CRITICAL)

BSFC = np.array([[0.25, 220.0], [0.5, 200.0], [0.75, 190.0], [1.0, 195.0]])
EFF_MACHINE = np.array([[0.25, 0.93], [0.5, 0.953], [0.75, 0.96], [1.0, 0.958]])
EFF_CONVERTER = np.array([[0.25, 0.96], [0.5, 0.97], [0.75, 0.972], [1.0, 0.98]])
N = 3


def genset(name, swb):
    engine = Engine(
        type_=TypeComponent.AUXILIARY_ENGINE, name=name + " engine", rated_power=1000,
        rated_speed=900, bsfc_curve=BSFC,
    )
    generator = ElectricMachine(
        type_=TypeComponent.SYNCHRONOUS_MACHINE, name=name + " generator", rated_power=950,
        rated_speed=900, power_type=TypePower.POWER_SOURCE, switchboard_id=swb,
        eff_curve=EFF_MACHINE,
    )
    return Genset(name, engine, generator)


def load(name, swb):
    return ElectricComponent(
        type_=TypeComponent.OTHER_LOAD, name=name, rated_power=500, eff_curve=np.array([1.0]),
        power_type=TypePower.POWER_CONSUMER, switchboard_id=swb,
    )


def main_engine(name, shaft_line_id):
    engine = Engine(
        type_=TypeComponent.MAIN_ENGINE, name=name + " engine", rated_power=4000,
        rated_speed=500, bsfc_curve=BSFC,
    )
    return MainEngineForMechanicalPropulsion(name, engine, shaft_line_id=shaft_line_id)


def propeller(name, shaft_line_id):
    return MechanicalPropulsionComponent(
        TypeComponent.PROPELLER_LOAD, TypePower.POWER_CONSUMER, name, 5000,
        np.array([1.0]), 120, shaft_line_id=shaft_line_id,
    )


def build():
    machine = ElectricMachine(
        type_=TypeComponent.SYNCHRONOUS_MACHINE, name="machine", rated_power=1000,
        rated_speed=1000, power_type=TypePower.PTI_PTO, eff_curve=EFF_MACHINE,
    )
    converter = ElectricComponent(
        type_=TypeComponent.POWER_CONVERTER, name="converter", rated_power=1100,
        eff_curve=EFF_CONVERTER, power_type=TypePower.POWER_TRANSMISSION,
    )
    pti_pto_ref = PTIPTO("PTI/PTO", [converter, machine], 1, 1000, 1000, shaft_line_id=1)
    # As in feems/tests/test_system.py (TestMechanicalPropulsionSystemSetup): one reference
    # machine, one deep copy per shaft line with its own name / shaft line / switchboard
    pti_ptos = []
    for i in (1, 2):
        pti_pto = copy.deepcopy(pti_pto_ref)
        pti_pto.name = "PTI/PTO %i" % i
        pti_pto.shaft_line_id = i
        pti_pto.switchboard_id = i
        pti_ptos.append(pti_pto)
    electric = ElectricPowerSystem(
        "electric",
        [genset("G1", 1), genset("G2", 2), load("hotel 1", 1), load("hotel 2", 2)] + pti_ptos,
        [(1, 2)],
    )
    mechanical = MechanicalPropulsionSystem(
        "mechanical",
        [
            main_engine("ME1", 1), propeller("P1", 1), pti_ptos[0],
            main_engine("ME2", 2), propeller("P2", 2), pti_ptos[1],
        ],
    )
    return HybridPropulsionSystem("hybrid", electric, mechanical)


def round_trip(system):
    message = convert_hybrid_propulsion_system_to_protobuf(system)
    parsed = proto.MachinerySystem()
    parsed.ParseFromString(message.SerializeToString())
    return convert_proto_propulsion_system_to_feems(parsed)


def layout(system):
    return {
        shaft_line.id: sorted(
            c.name for c in shaft_line.components if c.type == TypeComponent.PTI_PTO_SYSTEM
        )
        for shaft_line in system.mechanical_system.shaft_line
    }


def run(system):
    """Same inputs for both plants; the PTI/PTOs are addressed on the electric side by name."""
    electric, mechanical = system.electric_system, system.mechanical_system
    for swb, name, power in [(1, "hotel 1", [100.0, 200, 300]), (2, "hotel 2", [300.0, 200, 100])]:
        electric.set_power_input_from_power_output_by_switchboard_id_type_name(
            power_output=np.array(power), switchboard_id=swb, type_=TypePower.POWER_CONSUMER,
            name=name,
        )
    for source in electric.power_sources:
        source.status = np.ones(N, dtype=bool)
        source.load_sharing_mode = np.zeros(N)
    power_pti_pto = {"PTI/PTO 1": [-500.0, -500, -500], "PTI/PTO 2": [300.0, 300, 300]}
    for pti_pto in electric.pti_pto:
        pti_pto.status = np.ones(N, dtype=bool)
        pti_pto.load_sharing_mode = np.ones(N)
        pti_pto.full_pti_mode = np.zeros(N, dtype=bool)
        pti_pto.set_power_output_from_input(np.array(power_pti_pto[pti_pto.name]))
    for shaft_line_id, name in [(1, "P1"), (2, "P2")]:
        mechanical.set_power_consumer_load_by_value_for_given_name_shaft_line_id(
            name, shaft_line_id, np.array([2000.0, 2500, 3000])
        )
    for engine in mechanical.main_engines:
        engine.status = np.ones(N, dtype=bool)
    system.set_time_interval(60.0, IntegrationMethod.trapezoid)
    system.do_power_balance_calculation()
    result = system.get_fuel_energy_consumption_running_time(60.0, IntegrationMethod.trapezoid)
    return {
        "main engine power [kW]": {
            e.name: np.round(e.power_output, 3).tolist() for e in mechanical.main_engines
        },
        "fuel of the shaft lines [kg]": round(
            sum(f.mass_or_mass_fraction for f in result.mechanical_system.multi_fuel_consumption_total_kg.fuels), 6
        ),
    }


def main():
    original = build()
    print("uids of the two PTI/PTOs:", [p.uid for p in original.electric_system.pti_pto])
    violated = False
    try:
        restored = round_trip(original)
    except Exception as exc:  # refusing the plant is a violation as well
        print("round trip refused the plant:", repr(exc))
        return 1
    layout_original, layout_restored = layout(original), layout(restored)
    print("PTI/PTOs per shaft line, original  :", layout_original)
    print("PTI/PTOs per shaft line, round trip:", layout_restored)
    if layout_original != layout_restored:
        violated = True
        print("VIOLATION: the shaft lines do not carry the same PTI/PTOs after the round trip")
    try:
        result_original = run(original)
        result_restored = run(restored)
        print("original  :", result_original)
        print("round trip:", result_restored)
        if result_original != result_restored:
            violated = True
            print("VIOLATION: power balance / fuel differ for the same inputs")
    except Exception as exc:
        violated = True
        print("VIOLATION: the same inputs are refused after the round trip:", repr(exc))
    return 1 if violated else 0


if __name__ == "__main__":
    sys.exit(main())
