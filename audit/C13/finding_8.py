"""C13 finding 1: a propulsion drive with ONE member does not survive the protobuf round trip.

A serial drive (SerialSystemElectric, type PROPULSION_DRIVE) with a single member is written as a
subsystem with one component field. The reader turns such a subsystem into a plain
ElectricMachine / ElectricComponent of type PROPULSION_DRIVE (only PTI/PTOs were exempted from this
shortcut). The writer's PROPULSION_DRIVE branch, however, iterates `component.components`:
 - the system read back cannot be written again (AttributeError): "description -> system -> description
   is stable after the first pass" is false, the second pass does not exist;
 - the same holds for a plant that was BUILT with a plain ElectricComponent as propulsion drive (which
   ElectricPowerSystem explicitly accepts): it cannot be written at all;
 - the drive read back is another model (the member itself instead of the train sampled at eleven
   loads): its power differs inside the range of the member's curve.
Exit status 1 = property violated.
"""
import sys
import numpy as np

from feems.components_model.component_electric import (
    ElectricComponent,
    ElectricMachine,
    Genset,
    SerialSystemElectric,
)
from feems.components_model.component_mechanical import Engine
from feems.system_model import ElectricPowerSystem
from feems.types_for_feems import TypeComponent, TypePower
from MachSysS.convert_to_protobuf import convert_electric_system_to_protobuf_machinery_system
from MachSysS.convert_to_feems import convert_proto_propulsion_system_to_feems
import MachSysS.system_structure_pb2 as proto


def genset():
    engine = Engine(
        type_=TypeComponent.AUXILIARY_ENGINE,
        name="engine",
        rated_power=1000,
        rated_speed=1000,
        bsfc_curve=np.array([[0.25, 220.0], [0.5, 200.0], [0.75, 190.0], [1.0, 195.0]]),
    )
    generator = ElectricMachine(
        type_=TypeComponent.GENERATOR,
        name="generator",
        rated_power=950,
        rated_speed=1000,
        power_type=TypePower.POWER_SOURCE,
        switchboard_id=1,
        eff_curve=np.array([[0.25, 0.9], [0.5, 0.94], [1.0, 0.96]]),
    )
    return Genset("genset", engine, generator)


def round_trip(system):
    message = convert_electric_system_to_protobuf_machinery_system(system)
    parsed = proto.MachinerySystem()
    parsed.ParseFromString(message.SerializeToString())
    return convert_proto_propulsion_system_to_feems(parsed)


violations = []

# --- (a) a serial drive with one member --------------------------------------------------------
motor = ElectricMachine(
    type_=TypeComponent.ELECTRIC_MOTOR,
    name="motor",
    rated_power=800,
    rated_speed=900,
    power_type=TypePower.POWER_CONSUMER,
    switchboard_id=1,
    eff_curve=np.array([[0.0, 0.5], [0.05, 0.9], [0.25, 0.93], [1.0, 0.95]]),
)
drive = SerialSystemElectric(
    type_=TypeComponent.PROPULSION_DRIVE,
    name="drive",
    power_type=TypePower.POWER_CONSUMER,
    components=[motor],
    switchboard_id=1,
    rated_power=800,  # that of the first (only) member, as documented
    rated_speed=900,
)
system = ElectricPowerSystem("plant", [genset(), drive], [])
system_back = round_trip(system)
drive_back = system_back.propulsion_drives[0]
print("drive before:", type(drive).__name__, " after:", type(drive_back).__name__)
if not isinstance(drive_back, SerialSystemElectric):
    violations.append("the one-member serial drive comes back as " + type(drive_back).__name__)

power_out = 40.0  # 5 % load, inside the member's curve
power_in = float(drive.get_power_input_from_bidirectional_output(power_out)[0])
power_in_back = float(drive_back.get_power_input_from_bidirectional_output(power_out)[0])
print(f"electric power for {power_out} kW at the shaft: before {power_in:.4f} kW, after {power_in_back:.4f} kW")
if not np.isclose(power_in, power_in_back, rtol=1e-9):
    violations.append(
        f"power input of the drive at 5 % load: {power_in:.3f} kW before, {power_in_back:.3f} kW after"
    )

try:
    convert_electric_system_to_protobuf_machinery_system(system_back)
    print("second pass: written")
except Exception as error:  # noqa
    print("second pass:", type(error).__name__, error)
    violations.append(
        f"the system read back cannot be written again ({type(error).__name__}: {error})"
    )

# --- (b) a plant built with a plain component as propulsion drive -----------------------------
plain_drive = ElectricComponent(
    type_=TypeComponent.PROPULSION_DRIVE,
    name="plain drive",
    rated_power=800,
    power_type=TypePower.POWER_CONSUMER,
    switchboard_id=1,
    eff_curve=np.array([[0.25, 0.9], [1.0, 0.95]]),
)
system_plain = ElectricPowerSystem("plant", [genset(), plain_drive], [])
try:
    round_trip(system_plain)
    print("plain drive: round trip done")
except Exception as error:  # noqa
    # [not counted when the script was promoted: a propulsion drive that is a plain ElectricComponent has no slot in the message -
    #  a format limit set aside in round 5; what is counted is the one-member serial drive above]
    print("plain drive:", type(error).__name__, error, "[not counted]")

if violations:
    print("\nPROPERTY VIOLATED:")
    for each in violations:
        print(" -", each)
    sys.exit(1)
print("property holds")
sys.exit(0)
