"""C13 finding 2: in a MECHANICAL plant (MechanicalPropulsionSystemWithElectricPowerSystem) the
reader's "recognise a PTI/PTO by its name" fallback is applied to machines whose uid is perfectly
usable. (a) A shaft generator that is modelled by one PTIPTO object in the electric sub-model and
by ANOTHER PTIPTO object of the same name in the mechanical sub-model comes back as ONE shared
object, and the same inputs give another shaft balance. (b) With two shaft lines the fallback can
take the machine of another line: the plant is refused on reading (duplicate name).

Run: PYTHONPATH=<wt>/feems:<wt>/machinery-system-structure:<wt>/RunFEEMSSim python finding_2.py
exit 1 = property violated, 0 = property holds.
"""
import logging
import sys

import numpy as np

from feems.components_model.component_electric import (
    ElectricComponent,
    ElectricMachine,
    Genset,
    PTIPTO,
)
from feems.components_model.component_mechanical import (
    Engine,
    MainEngineForMechanicalPropulsion,
    MechanicalPropulsionComponent,
)
from feems.components_model.utility import IntegrationMethod
from feems.system_model import (
    ElectricPowerSystem,
    MechanicalPropulsionSystem,
    MechanicalPropulsionSystemWithElectricPowerSystem,
)
from feems.types_for_feems import TypeComponent, TypePower
import MachSysS.system_structure_pb2 as proto
from MachSysS.convert_to_protobuf import (
    convert_mechanical_propulsion_system_with_electric_system_to_protobuf,
)
from MachSysS.convert_to_feems import convert_proto_propulsion_system_to_feems

logging.disable(logging.CRITICAL)

BSFC = np.array([[0.25, 220.0], [0.5, 200.0], [0.75, 190.0], [1.0, 195.0]])
EFF_MACHINE = np.array([[0.25, 0.93], [0.5, 0.953], [0.75, 0.96], [1.0, 0.958]])
EFF_CONVERTER = np.array([[0.25, 0.96], [0.5, 0.97], [0.75, 0.972], [1.0, 0.98]])
N = 3


def genset(name, swb):
    engine = Engine(
        type_=TypeComponent.AUXILIARY_ENGINE, name=name + " engine", rated_power=1000,
        rated_speed=900, bsfc_curve=BSFC,
    )
    generator = ElectricMachine(
        type_=TypeComponent.SYNCHRONOUS_MACHINE, name=name + " generator", rated_power=950,
        rated_speed=900, power_type=TypePower.POWER_SOURCE, switchboard_id=swb,
        eff_curve=EFF_MACHINE,
    )
    return Genset(name, engine, generator)


def load(name, swb):
    return ElectricComponent(
        type_=TypeComponent.OTHER_LOAD, name=name, rated_power=800, eff_curve=np.array([1.0]),
        power_type=TypePower.POWER_CONSUMER, switchboard_id=swb,
    )


def main_engine(name, shaft_line_id):
    engine = Engine(
        type_=TypeComponent.MAIN_ENGINE, name=name + " engine", rated_power=4000,
        rated_speed=500, bsfc_curve=BSFC,
    )
    return MainEngineForMechanicalPropulsion(name, engine, shaft_line_id=shaft_line_id)


def propeller(name, shaft_line_id):
    return MechanicalPropulsionComponent(
        TypeComponent.PROPELLER_LOAD, TypePower.POWER_CONSUMER, name, 5000,
        np.array([1.0]), 120, shaft_line_id=shaft_line_id,
    )


def shaft_generator(name, swb, shaft_line_id):
    machine = ElectricMachine(
        type_=TypeComponent.SYNCHRONOUS_MACHINE, name=name + " machine", rated_power=1000,
        rated_speed=1000, power_type=TypePower.PTI_PTO, eff_curve=EFF_MACHINE,
    )
    converter = ElectricComponent(
        type_=TypeComponent.POWER_CONVERTER, name=name + " converter", rated_power=1100,
        eff_curve=EFF_CONVERTER, power_type=TypePower.POWER_TRANSMISSION,
    )
    return PTIPTO(name, [converter, machine], swb, 1000, 1000, shaft_line_id=shaft_line_id)


def round_trip(system):
    message = convert_mechanical_propulsion_system_with_electric_system_to_protobuf(system)
    parsed = proto.MachinerySystem()
    parsed.ParseFromString(message.SerializeToString())
    return convert_proto_propulsion_system_to_feems(parsed)


def build_a():
    """The two sub-models are independent (the class says so): each has its own PTIPTO object
    for the shaft generator, both called 'PTO'. Their uids are long, different and are written."""
    pto_electric = shaft_generator("PTO", 1, 1)
    pto_mechanical = shaft_generator("PTO", 1, 1)
    electric = ElectricPowerSystem(
        "electric", [genset("G1", 1), load("hotel", 1), pto_electric], []
    )
    mechanical = MechanicalPropulsionSystem(
        "mechanical", [main_engine("ME1", 1), propeller("P1", 1), pto_mechanical]
    )
    return MechanicalPropulsionSystemWithElectricPowerSystem("plant", electric, mechanical)


def run_a(system):
    electric, mechanical = system.electric_system, system.mechanical_system
    electric.set_power_input_from_power_output_by_switchboard_id_type_name(
        power_output=np.array([300.0, 400, 500]), switchboard_id=1,
        type_=TypePower.POWER_CONSUMER, name="hotel",
    )
    for source in electric.power_sources:
        source.status = np.ones(N, dtype=bool)
        source.load_sharing_mode = np.zeros(N)
    for pti_pto in electric.pti_pto:  # electric sub-model: the machine shares the bus load
        pti_pto.status = np.ones(N, dtype=bool)
        pti_pto.load_sharing_mode = np.zeros(N)
    mechanical.set_power_consumer_load_by_value_for_given_name_shaft_line_id(
        "P1", 1, np.array([2000.0, 2500, 3000])
    )
    # mechanical sub-model: the shaft generator takes 500 kW (electric side) off the shaft
    mechanical.set_power_input_pti_pto_by_value_for_name_shaft_line_id(
        "PTO", 1, np.array([-500.0, -500, -500])
    )
    for pti_pto in mechanical.pti_ptos:
        pti_pto.status = np.ones(N, dtype=bool)
        pti_pto.full_pti_mode = np.zeros(N, dtype=bool)
    for engine in mechanical.main_engines:
        engine.status = np.ones(N, dtype=bool)
    system.set_time_interval(60.0, IntegrationMethod.trapezoid)
    system.do_power_balance_calculation()
    result = system.get_fuel_energy_consumption_running_time(
        60.0, integration_method=IntegrationMethod.trapezoid
    )
    return {
        "main engine power [kW]": np.round(mechanical.main_engines[0].power_output, 3).tolist(),
        "fuel of the shaft line [kg]": round(
            float(sum(f.mass_or_mass_fraction for f in result.mechanical_system.multi_fuel_consumption_total_kg.fuels)), 6
        ),
    }


def build_b():
    """Two shaft lines, a shaft generator called 'PTO' on each. The one of line 2 feeds
    switchboard 1 and is part of the electric sub-model; the one of line 1 is only on the shaft."""
    pto_line_1 = shaft_generator("PTO", 1, 1)
    pto_line_2 = shaft_generator("PTO", 1, 2)
    electric = ElectricPowerSystem(
        "electric", [genset("G1", 1), load("hotel", 1), pto_line_2], []
    )
    mechanical = MechanicalPropulsionSystem(
        "mechanical",
        [
            main_engine("ME1", 1), propeller("P1", 1), pto_line_1,
            main_engine("ME2", 2), propeller("P2", 2), pto_line_2,
        ],
    )
    return MechanicalPropulsionSystemWithElectricPowerSystem("plant", electric, mechanical)


def main():
    violated = False

    print("(a) one shaft generator, one PTIPTO object per sub-model, same name")
    original = build_a()
    restored = round_trip(original)
    shared_original = original.electric_system.pti_pto[0] is original.mechanical_system.pti_ptos[0]
    shared_restored = restored.electric_system.pti_pto[0] is restored.mechanical_system.pti_ptos[0]
    print("  uid electric / mechanical, original  :",
          original.electric_system.pti_pto[0].uid, original.mechanical_system.pti_ptos[0].uid)
    print("  uid electric / mechanical, round trip:",
          restored.electric_system.pti_pto[0].uid, restored.mechanical_system.pti_ptos[0].uid)
    print("  same object in both sub-models: original %s, round trip %s" % (shared_original, shared_restored))
    result_original, result_restored = run_a(original), run_a(restored)
    print("  original  :", result_original)
    print("  round trip:", result_restored)
    if shared_original != shared_restored or result_original != result_restored:
        violated = True
        print("  VIOLATION: another plant (uid of the shaft-line machine lost, machines merged), "
              "another shaft balance and fuel for the same inputs")

    print("(b) two shaft lines, 'PTO' of line 1 only mechanical, 'PTO' of line 2 in both")
    original = build_b()
    try:
        restored = round_trip(original)
        layout = {
            sl.id: [c.uid for c in sl.components if c.type == TypeComponent.PTI_PTO_SYSTEM]
            for sl in restored.mechanical_system.shaft_line
        }
        expected = {
            sl.id: [c.uid for c in sl.components if c.type == TypeComponent.PTI_PTO_SYSTEM]
            for sl in original.mechanical_system.shaft_line
        }
        print("  uids per shaft line, original  :", expected)
        print("  uids per shaft line, round trip:", layout)
        if layout != expected:
            violated = True
            print("  VIOLATION: the shaft lines do not carry the same machines")
    except Exception as exc:
        violated = True
        print("  VIOLATION: the description written by the converter cannot be read back:", repr(exc))
    return 1 if violated else 0


if __name__ == "__main__":
    sys.exit(main())
