"""C13 finding 4: switchboards numbered 1..3 joined by a CHAIN of two bus-tie breakers - the one
layout the description is said to carry - round-trip only when the chain is listed as
[(1, 2), (2, 3)]. The breakers are addressed by their position (set_bus_tie_status((no, status)),
set_bus_tie_status_all(columns)); the reader always rebuilds [(1, 2), (2, 3)], so for a chain given
in another order, or running 1-3-2, "open breaker no. k" opens another breaker after the round trip.

Run: PYTHONPATH=<wt>/feems:<wt>/machinery-system-structure:<wt>/RunFEEMSSim python finding_4.py
exit 1 = property violated, 0 = property holds.
"""
import logging
import sys

import numpy as np

from feems.components_model.component_electric import ElectricComponent, ElectricMachine, Genset
from feems.components_model.component_mechanical import Engine
from feems.components_model.utility import IntegrationMethod
from feems.system_model import ElectricPowerSystem
from feems.types_for_feems import TypeComponent, TypePower
import MachSysS.system_structure_pb2 as proto
from MachSysS.convert_to_protobuf import convert_electric_system_to_protobuf_machinery_system
from MachSysS.convert_to_feems import convert_proto_propulsion_system_to_feems

logging.disable(logging.CRITICAL)
N = 3
BSFC = np.array([[0.25, 220.0], [0.5, 200.0], [0.75, 190.0], [1.0, 195.0]])
EFF = np.array([[0.25, 0.93], [0.5, 0.953], [0.75, 0.96], [1.0, 0.958]])


def genset(name, swb):
    engine = Engine(type_=TypeComponent.AUXILIARY_ENGINE, name=name + " engine", rated_power=1000,
                    rated_speed=900, bsfc_curve=BSFC)
    generator = ElectricMachine(type_=TypeComponent.SYNCHRONOUS_MACHINE, name=name + " generator",
                                rated_power=950, rated_speed=900, power_type=TypePower.POWER_SOURCE,
                                switchboard_id=swb, eff_curve=EFF)
    return Genset(name, engine, generator)


def load(name, swb):
    return ElectricComponent(type_=TypeComponent.OTHER_LOAD, name=name, rated_power=800,
                             eff_curve=np.array([1.0]), power_type=TypePower.POWER_CONSUMER,
                             switchboard_id=swb)


def build(connections):
    return ElectricPowerSystem(
        "plant",
        [genset("G1", 1), genset("G2", 2), genset("G3", 3),
         load("hotel 1", 1), load("hotel 2", 2), load("hotel 3", 3)],
        connections,
    )


def round_trip(system):
    message = convert_electric_system_to_protobuf_machinery_system(system)
    parsed = proto.MachinerySystem()
    parsed.ParseFromString(message.SerializeToString())
    return convert_proto_propulsion_system_to_feems(parsed)


def run(system, breaker_no):
    for swb, power in [(1, 600.0), (2, 300.0), (3, 100.0)]:
        system.set_power_input_from_power_output_by_switchboard_id_type_name(
            power_output=np.full(N, power), switchboard_id=swb,
            type_=TypePower.POWER_CONSUMER, name="hotel %i" % swb)
    for source in system.power_sources:
        source.status = np.ones(N, dtype=bool)
        source.load_sharing_mode = np.zeros(N)
    system.set_bus_tie_status([(breaker_no, np.zeros(N, dtype=bool))])  # open this breaker
    system.set_time_interval(60.0, IntegrationMethod.trapezoid)
    system.do_power_balance_calculation()
    result = system.get_fuel_energy_consumption_running_time()
    return (
        {g.name: np.round(g.power_output, 3).tolist()[0] for g in sorted(system.power_sources, key=lambda g: g.name)},
        round(float(sum(f.mass_or_mass_fraction for f in result.multi_fuel_consumption_total_kg.fuels)), 6),
    )


def main():
    violated = False
    for connections, breaker_no in [([(1, 2), (2, 3)], 1), ([(2, 3), (1, 2)], 1), ([(1, 3), (3, 2)], 2)]:
        original = build(connections)
        restored = round_trip(original)
        connections_restored = [tuple(b.switchboard_ids) for b in restored.bus_tie_breakers]
        result_original, result_restored = run(original, breaker_no), run(restored, breaker_no)
        ok = result_original == result_restored
        print("breakers %s -> %s, breaker no. %i open: %s" % (connections, connections_restored, breaker_no, "same" if ok else "VIOLATION"))
        print("   genset power [kW] / fuel [kg], original  :", result_original)
        print("   genset power [kW] / fuel [kg], round trip:", result_restored)
        violated |= not ok
    return 1 if violated else 0


if __name__ == "__main__":
    sys.exit(main())
