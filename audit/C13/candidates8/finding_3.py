"""C13 finding 3: a COGES whose COGAS carries only ONE of the two turbine power curves.
FEEMS accepts both cases and calculates with them (the split of the power is then simply not
reported). The writer crashes when only the gas turbine curve is given, and silently drops the
curve when only the steam turbine curve is given.

Run: PYTHONPATH=<wt>/feems:<wt>/machinery-system-structure:<wt>/RunFEEMSSim python finding_3.py
exit 1 = property violated, 0 = property holds.
"""
import logging
import sys

import numpy as np

from feems.components_model.component_electric import COGES, ElectricComponent, ElectricMachine
from feems.components_model.component_mechanical import COGAS
from feems.components_model.utility import IntegrationMethod
from feems.fuel import FuelOrigin, TypeFuel
from feems.system_model import ElectricPowerSystem
from feems.types_for_feems import TypeComponent, TypePower
import MachSysS.system_structure_pb2 as proto
from MachSysS.convert_to_protobuf import convert_electric_system_to_protobuf_machinery_system
from MachSysS.convert_to_feems import convert_proto_propulsion_system_to_feems

logging.disable(logging.CRITICAL)
N = 3
GAS = np.array([[0.0, 0.0], [0.5, 1800.0], [1.0, 3500.0]])
STEAM = np.array([[0.0, 0.0], [0.5, 700.0], [1.0, 1500.0]])


def build(gas_curve, steam_curve):
    cogas = COGAS(
        name="cogas", rated_power=5000, rated_speed=3000,
        eff_curve=np.array([[0.2, 0.30], [0.6, 0.45], [1.0, 0.50]]),
        gas_turbine_power_curve=gas_curve, steam_turbine_power_curve=steam_curve,
        fuel_type=TypeFuel.NATURAL_GAS, fuel_origin=FuelOrigin.FOSSIL,
    )
    generator = ElectricMachine(
        type_=TypeComponent.SYNCHRONOUS_MACHINE, name="generator", rated_power=4800,
        rated_speed=3000, power_type=TypePower.POWER_SOURCE, switchboard_id=1,
        eff_curve=np.array([[0.25, 0.93], [0.5, 0.953], [0.75, 0.96], [1.0, 0.958]]),
    )
    hotel = ElectricComponent(
        type_=TypeComponent.OTHER_LOAD, name="hotel", rated_power=4000, eff_curve=np.array([1.0]),
        power_type=TypePower.POWER_CONSUMER, switchboard_id=1,
    )
    return ElectricPowerSystem("plant", [COGES("COGES", cogas, generator), hotel], [])


def run(system):
    system.set_power_input_from_power_output_by_switchboard_id_type_name(
        power_output=np.array([1000.0, 2000, 3000]), switchboard_id=1,
        type_=TypePower.POWER_CONSUMER, name="hotel",
    )
    for source in system.power_sources:
        source.status = np.ones(N, dtype=bool)
        source.load_sharing_mode = np.zeros(N)
    system.set_time_interval(60.0, IntegrationMethod.trapezoid)
    system.do_power_balance_calculation()
    result = system.get_fuel_energy_consumption_running_time()
    return round(float(sum(f.mass_or_mass_fraction for f in result.multi_fuel_consumption_total_kg.fuels)), 6)


def round_trip(system):
    message = convert_electric_system_to_protobuf_machinery_system(system)
    parsed = proto.MachinerySystem()
    parsed.ParseFromString(message.SerializeToString())
    return convert_proto_propulsion_system_to_feems(parsed)


def same(a, b):
    return (a is None and b is None) or (a is not None and b is not None and np.array_equal(a, b))


def main():
    violated = False
    for label, gas, steam in [("gas turbine curve only", GAS, None), ("steam turbine curve only", None, STEAM)]:
        original = build(gas, steam)
        print("%s: FEEMS calculates the plant, fuel = %s kg" % (label, run(original)))
        try:
            restored = round_trip(original)
        except Exception as exc:
            violated = True
            print("  VIOLATION: the plant cannot be written:", repr(exc))
            continue
        cogas_original = original.power_sources[0].cogas
        cogas_restored = restored.power_sources[0].cogas
        kept = same(cogas_original.gas_turbine_power_curve, cogas_restored.gas_turbine_power_curve) and same(
            cogas_original.steam_turbine_power_curve, cogas_restored.steam_turbine_power_curve
        )
        print("  fuel after the round trip = %s kg; turbine curves kept: %s" % (run(restored), kept))
        if not kept:
            violated = True
            print("  VIOLATION: steam turbine curve before:",
                  None if cogas_original.steam_turbine_power_curve is None else cogas_original.steam_turbine_power_curve.tolist(),
                  "after:", cogas_restored.steam_turbine_power_curve)
    return 1 if violated else 0


if __name__ == "__main__":
    sys.exit(main())
