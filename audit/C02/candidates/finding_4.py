"""Finding 4 (C02, protobuf entry point): MachSysS.convert_to_feems builds the bus-tie breakers of every
plant it reads as the chain (1,2),(2,3),..,(n-1,n) of POSITIONS, using them as switchboard numbers.
(a) A plant whose switchboards are not numbered 1..n cannot be read at all (KeyError).
(b) A plant with another breaker set (here two disconnected pairs (1,2),(3,4)) comes back from its own
    protobuf message with other breakers, so switchboards that no chain of closed breakers links in the
    plant that was written are one bus in the plant that is read."""
import sys, logging
import numpy as np
logging.disable(logging.CRITICAL)
from feems.components_model.component_electric import ElectricMachine, ElectricComponent, Genset
from feems.components_model.component_mechanical import Engine
from feems.components_model.utility import IntegrationMethod
from feems.system_model import ElectricPowerSystem
from feems.types_for_feems import TypeComponent, TypePower, Power_kW, Speed_rpm, NOxCalculationMethod


def genset(swb, name, p=1000):
    bsfc = np.array([[1.00, 0.75, 0.50, 0.25, 0.10], [193.66, 188.995, 194.47, 211.4, 250]]).T
    eng = Engine(type_=TypeComponent.AUXILIARY_ENGINE, name="engine " + name, rated_power=Power_kW(p),
                 rated_speed=Speed_rpm(1500), bsfc_curve=bsfc,
                 nox_calculation_method=NOxCalculationMethod.TIER_2)
    gen = ElectricMachine(type_=TypeComponent.GENERATOR, name="generator " + name, rated_power=Power_kW(p),
                          rated_speed=Speed_rpm(1500), power_type=TypePower.POWER_SOURCE,
                          switchboard_id=swb, eff_curve=np.array([0.95]))
    return Genset(name=name, aux_engine=eng, generator=gen)


def consumer(swb, name, p=1000):
    return ElectricComponent(type_=TypeComponent.OTHER_LOAD, name=name, power_type=TypePower.POWER_CONSUMER,
                             rated_power=Power_kW(p), rated_speed=Speed_rpm(0), eff_curve=np.array([1.0]),
                             switchboard_id=swb)


def plant(swb_ids, breakers, loads_kw, n):
    """One 1000 kW genset and one consumer per switchboard; loads_kw[swb] is a constant load."""
    gs = {s: genset(s, "genset %d" % s) for s in swb_ids}
    ld = {s: consumer(s, "load %d" % s) for s in swb_ids}
    comps = [c for s in swb_ids for c in (gs[s], ld[s])]
    system = ElectricPowerSystem("plant", comps, breakers)
    for s in swb_ids:
        ld[s].set_power_input_from_output(np.full(n, float(loads_kw[s])))
        gs[s].status = np.ones(n)
        gs[s].load_sharing_mode = np.zeros(n)
    system.set_time_interval(60.0, IntegrationMethod.sum_with_time)
    return system, gs, ld


def reference_groups(swb_ids, breakers, closed):
    parent = {s: s for s in swb_ids}

    def find(x):
        while parent[x] != x:
            x = parent[x]
        return x

    for (a, b), c in zip(breakers, closed):
        if c:
            parent[find(a)] = find(b)
    groups = {}
    for s in swb_ids:
        groups.setdefault(find(s), []).append(s)
    return sorted(groups.values())


def expected_genset_power(swb_ids, breakers, status_matrix, loads_kw):
    """All gensets are equal, so in a group every genset carries the mean load of the group."""
    n = status_matrix.shape[0]
    exp = {s: np.zeros(n) for s in swb_ids}
    nbus = []
    for t in range(n):
        groups = reference_groups(swb_ids, breakers, status_matrix[t])
        nbus.append(len(groups))
        for g in groups:
            mean = sum(loads_kw[s] for s in g) / len(g)
            for s in g:
                exp[s][t] = mean
    return exp, nbus


def code_bus_count_per_step(system, n):
    idx = list(system.bus_configuration_change_index)
    out = []
    for t in range(n):
        i = max(k for k, start in enumerate(idx) if start <= t)
        out.append(system.no_bus[i])
    return out

from MachSysS.convert_to_protobuf import convert_electric_system_to_protobuf
from MachSysS.convert_to_feems import convert_proto_electric_system_to_feems

violated = False

# (a) switchboards 2 and 5, one breaker between them
system, _, _ = plant([2, 5], [(5, 2)], {2: 600.0, 5: 200.0}, 3)
print("(a) original: breakers", [tuple(b.switchboard_ids) for b in system.bus_tie_breakers],
      "grouping", system.switchboard2bus)
message = convert_electric_system_to_protobuf(system)
print("    switchboard ids in the message:", [s.switchboard_id for s in message.switchboards])
try:
    back = convert_proto_electric_system_to_feems(message)
    print("    read back: breakers", [tuple(b.switchboard_ids) for b in back.bus_tie_breakers],
          "grouping", back.switchboard2bus)
    if back.switchboard2bus != system.switchboard2bus:
        violated = True
except Exception as e:  # noqa
    print("    REFUSED on reading: %s: %r" % (type(e).__name__, e))
    violated = True

# (b) two disconnected pairs
SWB = [1, 2, 3, 4]
BREAKERS = [(1, 2), (3, 4)]
system, _, _ = plant(SWB, BREAKERS, {1: 600.0, 2: 200.0, 3: 100.0, 4: 100.0}, 3)
back = convert_proto_electric_system_to_feems(convert_electric_system_to_protobuf(system))
got_breakers = [tuple(b.switchboard_ids) for b in back.bus_tie_breakers]
print("(b) original: breakers", BREAKERS, "all closed -> no_bus", system.no_bus, system.switchboard2bus)
print("    read back: breakers", got_breakers, "all closed -> no_bus", back.no_bus, back.switchboard2bus)
ref = reference_groups(SWB, BREAKERS, [True, True])
groups_back = {}
for swb, bus in back.switchboard2bus[0].items():
    groups_back.setdefault(bus, []).append(swb)
if sorted(groups_back.values()) != ref:
    print("    switchboards 2 and 3 are one bus although no breaker of the written plant links them")
    violated = True

if violated:
    print("VIOLATED")
    sys.exit(1)
print("property holds")
sys.exit(0)
