"""Finding 3 (C02): the empty set of breakers is refused as soon as there are two switchboards. Two
switchboards without any bus-tie breaker are two buses (no chain of closed breakers links them); the
constructor raises ConfigurationError instead. The same plant with one permanently open breaker works."""
import sys, logging
import numpy as np
logging.disable(logging.CRITICAL)
from feems.components_model.component_electric import ElectricMachine, ElectricComponent, Genset
from feems.components_model.component_mechanical import Engine
from feems.components_model.utility import IntegrationMethod
from feems.system_model import ElectricPowerSystem
from feems.types_for_feems import TypeComponent, TypePower, Power_kW, Speed_rpm, NOxCalculationMethod


def genset(swb, name, p=1000):
    bsfc = np.array([[1.00, 0.75, 0.50, 0.25, 0.10], [193.66, 188.995, 194.47, 211.4, 250]]).T
    eng = Engine(type_=TypeComponent.AUXILIARY_ENGINE, name="engine " + name, rated_power=Power_kW(p),
                 rated_speed=Speed_rpm(1500), bsfc_curve=bsfc,
                 nox_calculation_method=NOxCalculationMethod.TIER_2)
    gen = ElectricMachine(type_=TypeComponent.GENERATOR, name="generator " + name, rated_power=Power_kW(p),
                          rated_speed=Speed_rpm(1500), power_type=TypePower.POWER_SOURCE,
                          switchboard_id=swb, eff_curve=np.array([0.95]))
    return Genset(name=name, aux_engine=eng, generator=gen)


def consumer(swb, name, p=1000):
    return ElectricComponent(type_=TypeComponent.OTHER_LOAD, name=name, power_type=TypePower.POWER_CONSUMER,
                             rated_power=Power_kW(p), rated_speed=Speed_rpm(0), eff_curve=np.array([1.0]),
                             switchboard_id=swb)


def plant(swb_ids, breakers, loads_kw, n):
    """One 1000 kW genset and one consumer per switchboard; loads_kw[swb] is a constant load."""
    gs = {s: genset(s, "genset %d" % s) for s in swb_ids}
    ld = {s: consumer(s, "load %d" % s) for s in swb_ids}
    comps = [c for s in swb_ids for c in (gs[s], ld[s])]
    system = ElectricPowerSystem("plant", comps, breakers)
    for s in swb_ids:
        ld[s].set_power_input_from_output(np.full(n, float(loads_kw[s])))
        gs[s].status = np.ones(n)
        gs[s].load_sharing_mode = np.zeros(n)
    system.set_time_interval(60.0, IntegrationMethod.sum_with_time)
    return system, gs, ld


def reference_groups(swb_ids, breakers, closed):
    parent = {s: s for s in swb_ids}

    def find(x):
        while parent[x] != x:
            x = parent[x]
        return x

    for (a, b), c in zip(breakers, closed):
        if c:
            parent[find(a)] = find(b)
    groups = {}
    for s in swb_ids:
        groups.setdefault(find(s), []).append(s)
    return sorted(groups.values())


def expected_genset_power(swb_ids, breakers, status_matrix, loads_kw):
    """All gensets are equal, so in a group every genset carries the mean load of the group."""
    n = status_matrix.shape[0]
    exp = {s: np.zeros(n) for s in swb_ids}
    nbus = []
    for t in range(n):
        groups = reference_groups(swb_ids, breakers, status_matrix[t])
        nbus.append(len(groups))
        for g in groups:
            mean = sum(loads_kw[s] for s in g) / len(g)
            for s in g:
                exp[s][t] = mean
    return exp, nbus


def code_bus_count_per_step(system, n):
    idx = list(system.bus_configuration_change_index)
    out = []
    for t in range(n):
        i = max(k for k, start in enumerate(idx) if start <= t)
        out.append(system.no_bus[i])
    return out

N = 3
SWB = [1, 2]
LOADS = {1: 600.0, 2: 200.0}
violated = False
try:
    system, gs, ld = plant(SWB, [], LOADS, N)
    system.do_power_balance_calculation()
    print("no_bus =", system.no_bus, " genset kW:", {s: gs[s].power_output.tolist() for s in SWB})
    violated = system.no_bus != [2] or not all(
        np.allclose(gs[s].power_output, LOADS[s]) for s in SWB)
except Exception as e:  # noqa
    print("REFUSED: %s: %s" % (type(e).__name__, e))
    violated = True

# control: identical connectivity expressed with an always-open breaker
system2, gs2, _ = plant(SWB, [(1, 2)], LOADS, N)
system2.set_bus_tie_status_all(np.zeros((N, 1), dtype=bool))
system2.do_power_balance_calculation()
print("control (one breaker, always open): no_bus =", system2.no_bus,
      " genset kW:", {s: gs2[s].power_output.tolist() for s in SWB})

if violated:
    print("VIOLATED: two switchboards and no breaker must be two separate buses")
    sys.exit(1)
print("property holds")
sys.exit(0)
