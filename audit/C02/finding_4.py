"""C02 finding 1: a plant whose switchboards are not numbered 1..n cannot be read back from
protobuf: the reader invents the bus-tie breakers (1,2),(2,3),.. from the COUNT of switchboards
instead of using their ids, so the breaker refers to a switchboard that does not exist (KeyError).

Run: PYTHONPATH=<wt>/feems:<wt>/machinery-system-structure:<wt>/RunFEEMSSim python finding_1.py
Exit status 1 = property violated (valid plant refused / grouping not available), 0 = holds.
"""
import logging
import sys
import warnings

import numpy as np

logging.disable(logging.CRITICAL)
warnings.filterwarnings("ignore")

from feems.components_model.component_electric import ElectricComponent, ElectricMachine, Genset
from feems.components_model.component_mechanical import Engine
from feems.components_model.utility import IntegrationMethod
from feems.system_model import ElectricPowerSystem
from feems.types_for_feems import TypeComponent, TypePower
from MachSysS.convert_to_feems import convert_proto_propulsion_system_to_feems
from MachSysS.convert_to_protobuf import convert_electric_system_to_protobuf_machinery_system

BSFC = np.array([[0.25, 0.5, 0.75, 1.0], [220.0, 200.0, 190.0, 195.0]]).T
EFF = np.array([[0.25, 0.5, 0.75, 1.0], [0.93, 0.95, 0.96, 0.96]]).T


def genset(name, power, swb):
    gen = ElectricMachine(
        type_=TypeComponent.GENERATOR, name="generator " + name, rated_power=power,
        rated_speed=1000, power_type=TypePower.POWER_SOURCE, switchboard_id=swb, eff_curve=EFF,
    )
    eng = Engine(
        type_=TypeComponent.AUXILIARY_ENGINE, name="engine " + name, rated_power=power / 0.96,
        rated_speed=1000, bsfc_curve=BSFC,
    )
    return Genset(name, eng, gen)


def load(name, swb):
    return ElectricComponent(
        type_=TypeComponent.OTHER_LOAD, name=name, rated_power=5000.0,
        power_type=TypePower.POWER_CONSUMER, switchboard_id=swb, eff_curve=np.array([1.0]),
    )


def groups(system, k):
    out = {}
    for swb, bus in system.switchboard2bus[k].items():
        out.setdefault(bus, set()).add(swb)
    return sorted(sorted(v) for v in out.values())


def run(system, status, loads):
    system.set_bus_tie_status([(1, status)])
    for consumer in system.other_load:
        consumer.set_power_input_from_output(loads[consumer.switchboard_id])
    for source in system.power_sources:
        source.status = np.ones(len(status), dtype=bool)
        source.load_sharing_mode = np.zeros(len(status))
    system.set_time_interval(60.0, IntegrationMethod.simpson)
    system.do_power_balance_calculation()
    return {s.switchboard_id: np.round(s.power_output, 6) for s in system.power_sources}


ids = (2, 5)  # e.g. switchboards named after the deck / fire zone they stand in
status = np.array([True, False, True])
loads = {2: np.array([100.0, 100.0, 100.0]), 5: np.array([300.0, 300.0, 300.0])}

original = ElectricPowerSystem(
    "plant",
    [genset("G2", 1000.0, 2), load("L2", 2), genset("G5", 1000.0, 5), load("L5", 5)],
    [(2, 5)],
)
out = run(original, status, loads)
print("direct API     : buses per configuration", original.no_bus,
      [groups(original, k) for k in range(len(original.no_bus))])
print("                 genset outputs", {k: v.tolist() for k, v in out.items()})
assert original.no_bus == [1, 2, 1]

message = convert_electric_system_to_protobuf_machinery_system(original)
print("protobuf       : switchboard ids in the message",
      [swb.switchboard_id for swb in message.electric_system.switchboards])
try:
    read_back = convert_proto_propulsion_system_to_feems(message)
except Exception as exc:  # noqa
    print("read from protobuf: REFUSED with %s: %s" % (type(exc).__name__, exc))
    print("VIOLATION: a valid two-switchboard plant (ids 2 and 5, one breaker) is refused by the "
          "protobuf entry point; no bus grouping can be obtained for it.")
    sys.exit(1)

out_back = run(read_back, status, loads)
print("read back      : breakers", [b.switchboard_ids for b in read_back.bus_tie_breakers],
      "buses", read_back.no_bus)
same = read_back.no_bus == original.no_bus and all(
    np.allclose(out[k], out_back[k]) for k in out
)
if not same:
    print("VIOLATION: the plant read back groups the switchboards differently")
    sys.exit(1)
print("property holds")
sys.exit(0)
