"""C02 finding 3: set_bus_tie_status refuses a call that gives one breaker a single value (a
constant position) and another breaker a series, although exactly this combination is accepted
when the two breakers are set in two calls (or assigned to the breakers), and a single value is
the documented way to say 'not operated'. The refused call also leaves the plant half updated.

Run: PYTHONPATH=<wt>/feems:<wt>/machinery-system-structure:<wt>/RunFEEMSSim python finding_3.py
Exit status 1 = property violated (valid status sequence refused), 0 = holds.
"""
import logging
import sys
import warnings

import numpy as np

logging.disable(logging.CRITICAL)
warnings.filterwarnings("ignore")

from feems.components_model.component_electric import ElectricComponent, ElectricMachine, Genset
from feems.components_model.component_mechanical import Engine
from feems.components_model.utility import IntegrationMethod
from feems.system_model import ElectricPowerSystem
from feems.types_for_feems import TypeComponent, TypePower

BSFC = np.array([[0.25, 0.5, 0.75, 1.0], [220.0, 200.0, 190.0, 195.0]]).T
EFF = np.array([[0.25, 0.5, 0.75, 1.0], [0.93, 0.95, 0.96, 0.96]]).T


def genset(name, power, swb):
    gen = ElectricMachine(
        type_=TypeComponent.GENERATOR, name="generator " + name, rated_power=power,
        rated_speed=1000, power_type=TypePower.POWER_SOURCE, switchboard_id=swb, eff_curve=EFF,
    )
    eng = Engine(
        type_=TypeComponent.AUXILIARY_ENGINE, name="engine " + name, rated_power=power / 0.96,
        rated_speed=1000, bsfc_curve=BSFC,
    )
    return Genset(name, eng, gen)


def load(name, swb):
    return ElectricComponent(
        type_=TypeComponent.OTHER_LOAD, name=name, rated_power=5000.0,
        power_type=TypePower.POWER_CONSUMER, switchboard_id=swb, eff_curve=np.array([1.0]),
    )


def make():
    comps = []
    for i in (1, 2, 3):
        comps += [genset("G%d" % i, 1000.0, i), load("L%d" % i, i)]
    system = ElectricPowerSystem("plant", comps, [(1, 2), (2, 3)])
    for source in system.power_sources:
        source.status = np.ones(1, dtype=bool)
    for consumer, kw in zip(system.other_load, (100.0, 200.0, 300.0)):
        consumer.set_power_input_from_output(np.full(4, kw))
    system.set_time_interval(60.0, IntegrationMethod.simpson)
    return system


def groups(system):
    return [
        sorted(sorted(s for s, b in m.items() if b == bus) for bus in set(m.values()))
        for m in system.switchboard2bus
    ]


series = np.array([True, False, False, True])  # breaker 1 is operated
constant = np.array([False])  # breaker 2 stays open for the whole series

# Expected by connectivity: step 0 {1,2},{3}; steps 1-2 {1},{2},{3}; step 3 {1,2},{3}
expected_no_bus = [2, 3, 2]

a = make()
a.set_bus_tie_status([(2, constant)])
a.set_bus_tie_status([(1, series)])
a.do_power_balance_calculation()
print("two calls : buses", a.no_bus, groups(a), "at steps", a.bus_configuration_change_index)
assert a.no_bus == expected_no_bus

b = make()
try:
    b.set_bus_tie_status([(1, series), (2, constant)])
    b.do_power_balance_calculation()
    print("one call  : buses", b.no_bus, groups(b), "at steps", b.bus_configuration_change_index)
except Exception as exc:  # noqa
    print("one call  : REFUSED with %s: %s" % (type(exc).__name__, exc))
    print("            state left behind: breaker 1 status", b.bus_tie_breakers[0].status,
          "breaker 2 status", b.bus_tie_breakers[1].status, "(breaker 1 was taken over, "
          "breaker 2 not: the next balance runs with breaker 2 CLOSED)")
    b.do_power_balance_calculation()
    print("            next balance groups", b.no_bus, groups(b))
    print("VIOLATION: the same legal status sequence is accepted in two calls and refused in one")
    sys.exit(1)

ok = b.no_bus == expected_no_bus and all(
    np.allclose(x.power_output, y.power_output) for x, y in zip(a.power_sources, b.power_sources)
)
if not ok:
    print("VIOLATION: the one-call result differs from connectivity")
    sys.exit(1)
print("property holds")
sys.exit(0)
