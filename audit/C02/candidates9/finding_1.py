"""C02 candidate 1 (borderline - see findings.txt): the default power management front end
(MachineryCalculation -> PmsLoadTableSimulationInterface.set_status) overwrites the status the
user gave to the bus-tie breakers with 'closed at every step'.  Two switchboards whose only
bus-tie breaker was declared OPEN are then balanced as one bus.
Exit 1 = the two switchboards are treated as one bus although no closed breaker links them."""
import sys
import numpy as np
from feems.components_model import Engine, ElectricMachine, Genset, ElectricComponent
from feems.system_model import ElectricPowerSystem
from feems.types_for_feems import (TypeComponent, Power_kW, Speed_rpm, TypePower, SwbId,
                                   NOxCalculationMethod)
from RunFeemsSim.machinery_calculation import MachineryCalculation

bsfc = np.array([[1.00, 0.75, 0.50, 0.25, 0.10], [193.66, 188.995, 194.47, 211.4, 250]]).T


def genset(swb):
    engine = Engine(type_=TypeComponent.AUXILIARY_ENGINE, name=f"engine {swb}",
                    rated_power=Power_kW(1053), rated_speed=Speed_rpm(1500), bsfc_curve=bsfc,
                    nox_calculation_method=NOxCalculationMethod.TIER_2)
    generator = ElectricMachine(type_=TypeComponent.GENERATOR, name=f"generator {swb}",
                                rated_power=Power_kW(1000), rated_speed=Speed_rpm(1500),
                                power_type=TypePower.POWER_SOURCE, switchboard_id=SwbId(swb),
                                eff_curve=np.array([0.95]))
    return Genset(name=f"genset {swb}", aux_engine=engine, generator=generator)


def other_load(swb):
    return ElectricComponent(type_=TypeComponent.OTHER_LOAD, name=f"load {swb}",
                             power_type=TypePower.POWER_CONSUMER, rated_power=Power_kW(2000),
                             rated_speed=Speed_rpm(0), eff_curve=np.array([1.0]),
                             switchboard_id=SwbId(swb))


g1, g2, l1, l2 = genset(1), genset(2), other_load(1), other_load(2)
system = ElectricPowerSystem("two switchboards", [g1, l1, g2, l2], [(1, 2)])
system.set_bus_tie_status([(1, np.array([False]))])  # the breaker is open
print("declared: breaker status", system.bus_tie_breakers[0].status, "-> buses", system.no_bus)

calculation = MachineryCalculation(system)  # default PMS: start/stop table of the plant
calculation.calculate_machinery_system_output_from_statistics(
    propulsion_power=np.array([0.0, 0.0]),
    frequency=np.array([10.0, 10.0]),
    auxiliary_power_kw=np.array([300.0, 1500.0]),  # split evenly over the two loads
)
print("after the calculation: breaker status", system.bus_tie_breakers[0].status,
      "-> buses", system.no_bus)
print("load swb 1", l1.power_input, " load swb 2", l2.power_input)
print("genset 1 status", np.asarray(g1.status), "output", g1.power_output)
print("genset 2 status", np.asarray(g2.status), "output", g2.power_output)

# No closed breaker was declared between 1 and 2: each switchboard is a bus of its own, so each
# genset carries the load of its own switchboard.
violated = False
if list(system.no_bus) != [2]:
    print("VIOLATION: reported buses", system.no_bus, "expected [2]")
    violated = True
if not (np.allclose(g1.power_output, l1.power_input) and np.allclose(g2.power_output, l2.power_input)):
    print("VIOLATION: the gensets do not carry the load of their own switchboard "
          "(power crosses the breaker that was declared open)")
    violated = True
sys.exit(1 if violated else 0)
