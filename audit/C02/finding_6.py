"""C02 candidate 2 (borderline - see findings.txt): with constant loads the length of the series
is that of the on/off series of the sources, but a bus-tie breaker series of ANOTHER length is
accepted (the check added for 'breaker series of another length than the load series' compares
with the breaker series itself in that case).  A shorter breaker series is silently continued
with its last position; a longer one reports bus configurations for steps that do not exist.
Exit 1 = the inconsistent input is accepted and a grouping is reported/used for time steps at
which no breaker position was declared (or that are not calculated)."""
import sys
import numpy as np
from feems.components_model import Engine, ElectricMachine, Genset, ElectricComponent
from feems.components_model.utility import IntegrationMethod
from feems.system_model import ElectricPowerSystem
from feems.types_for_feems import (TypeComponent, Power_kW, Speed_rpm, TypePower, SwbId,
                                   NOxCalculationMethod)

bsfc = np.array([[1.00, 0.75, 0.50, 0.25, 0.10], [193.66, 188.995, 194.47, 211.4, 250]]).T


def genset(swb):
    engine = Engine(type_=TypeComponent.AUXILIARY_ENGINE, name=f"engine {swb}",
                    rated_power=Power_kW(1053), rated_speed=Speed_rpm(1500), bsfc_curve=bsfc,
                    nox_calculation_method=NOxCalculationMethod.TIER_2)
    generator = ElectricMachine(type_=TypeComponent.GENERATOR, name=f"generator {swb}",
                                rated_power=Power_kW(1000), rated_speed=Speed_rpm(1500),
                                power_type=TypePower.POWER_SOURCE, switchboard_id=SwbId(swb),
                                eff_curve=np.array([0.95]))
    return Genset(name=f"genset {swb}", aux_engine=engine, generator=generator)


def other_load(swb):
    return ElectricComponent(type_=TypeComponent.OTHER_LOAD, name=f"load {swb}",
                             power_type=TypePower.POWER_CONSUMER, rated_power=Power_kW(2000),
                             rated_speed=Speed_rpm(0), eff_curve=np.array([1.0]),
                             switchboard_id=SwbId(swb))


def run(n_steps, breaker_series):
    g1, g2, l1, l2 = genset(1), genset(2), other_load(1), other_load(2)
    system = ElectricPowerSystem("two switchboards", [g1, l1, g2, l2], [(1, 2)])
    system.set_time_interval(1.0, IntegrationMethod.sum_with_time)
    l1.set_power_input_from_output(np.array([100.0]))  # constant loads: one value each
    l2.set_power_input_from_output(np.array([200.0]))
    for g in (g1, g2):
        g.status = np.ones(n_steps, dtype=bool)  # the series has n_steps steps
    system.set_bus_tie_status([(1, breaker_series)])
    system.do_power_balance_calculation()
    return system, g1, g2


violated = False
for series in (np.array([True, False]), np.array([True, False, True, False, True, False])):
    try:
        system, g1, g2 = run(4, series)
    except Exception as error:  # a refusal is what the length check promises
        print(len(series), "breaker values for 4 steps: refused,", type(error).__name__)
        continue
    print(len(series), "breaker values for 4 steps: ACCEPTED; buses per configuration",
          system.no_bus, "starting at steps", system.bus_configuration_change_index)
    print("   genset 1", g1.power_output, " genset 2", g2.power_output)
    violated = True
# for reference: the same mismatch next to a load SERIES is refused
sys.exit(1 if violated else 0)
