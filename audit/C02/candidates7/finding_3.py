"""C02 finding 3: the set of bus-tie breakers does not survive the protobuf description of the plant.

convert_electric_system_to_protobuf() writes no breaker (the BusBreaker message of
system_structure.proto is never used) and convert_feems_switchboards_to_feems_electric_power_system()
invents the chain (1,2),(2,3),.. on reading.  For every plant whose breakers are not exactly that
chain the plant read back groups its switchboards differently from the plant that was written:
 a) disconnected pairs (1,2),(3,4): two buses become one (a breaker (2,3) appears);
 b) a star around switchboard 2, (2,1),(2,3),(2,4): same number of breakers, so the same status table
    is accepted, but column 2 now operates (2,3) of a chain: opening it splits {1,2}|{3,4} instead of
    {3}|{1,2,4}.
The genset loads of the balance differ accordingly.

Exit status 1: the plant read back groups differently from the plant written; 0: same grouping.
"""
import logging
import sys

import numpy as np

logging.disable(logging.CRITICAL)

from feems.components_model.component_electric import ElectricComponent, ElectricMachine, Genset
from feems.components_model.component_mechanical import Engine
from feems.components_model.utility import IntegrationMethod
from feems.system_model import ElectricPowerSystem
from feems.types_for_feems import NOxCalculationMethod, TypeComponent, TypePower
from MachSysS.convert_to_feems import convert_proto_propulsion_system_to_feems
from MachSysS.convert_to_protobuf import convert_electric_system_to_protobuf_machinery_system

EFF = np.array([[0.25, 0.9], [0.5, 0.93], [0.75, 0.95], [1.0, 0.96]])
BSFC = np.array([[0.1, 260.0], [0.25, 230.0], [0.5, 205.0], [0.75, 195.0], [1.0, 200.0]])
SWB = [1, 2, 3, 4]
LOAD = {1: 100.0, 2: 200.0, 3: 300.0, 4: 400.0}


def genset(name, rated, swb):
    gen = ElectricMachine(
        type_=TypeComponent.GENERATOR, name="generator " + name, rated_power=rated, rated_speed=1000,
        power_type=TypePower.POWER_SOURCE, switchboard_id=swb, eff_curve=EFF,
    )
    eng = Engine(
        type_=TypeComponent.AUXILIARY_ENGINE, name="engine " + name, rated_power=rated / 0.96,
        rated_speed=1000, bsfc_curve=BSFC, nox_calculation_method=NOxCalculationMethod.TIER_2,
    )
    return Genset(name, eng, gen)


def load(name, swb):
    return ElectricComponent(
        type_=TypeComponent.OTHER_LOAD, name=name, rated_power=500.0,
        eff_curve=np.array([[0.0, 1.0], [1.0, 1.0]]), power_type=TypePower.POWER_CONSUMER,
        switchboard_id=swb,
    )


def groups(system, config=0):
    res = {}
    for swb, bus in system.switchboard2bus[config].items():
        res.setdefault(bus, set()).add(swb)
    return sorted(sorted(g) for g in res.values())


def balance(system, status):
    n = status.shape[0]
    for s in SWB:
        system.set_power_input_from_power_output_by_switchboard_id_type_name(
            np.full(n, LOAD[s]), s, TypePower.POWER_CONSUMER, f"load {s}"
        )
        system.set_status_by_switchboard_id_power_type(
            s, TypePower.POWER_SOURCE, np.ones((n, 1), dtype=bool)
        )
        system.set_load_sharing_mode_power_sources_by_switchboard_id_power_type(
            s, TypePower.POWER_SOURCE, np.zeros((n, 1))
        )
    system.set_time_interval(1.0, IntegrationMethod.sum_with_time)
    system.set_bus_tie_status_all(status)
    system.do_power_balance_calculation()
    return {
        s: np.round(
            system.switchboards[s].component_by_power_type[TypePower.POWER_SOURCE.value][0].power_output, 3
        )
        for s in SWB
    }


def build(breakers):
    comps = []
    for s in SWB:
        comps += [genset(f"genset {s}", 1000.0, s), load(f"load {s}", s)]
    return ElectricPowerSystem("plant", comps, breakers)


violated = False
cases = {
    "a) disconnected pairs": ([(1, 2), (3, 4)], None),
    "b) star around 2, second breaker open": ([(2, 1), (2, 3), (2, 4)], np.array([[True, False, True]])),
}
for title, (breakers, status) in cases.items():
    written = build(breakers)
    back = convert_proto_propulsion_system_to_feems(
        convert_electric_system_to_protobuf_machinery_system(written)
    )
    read_breakers = [tuple(b.switchboard_ids) for b in back.bus_tie_breakers]
    print(title)
    print(f"   written  : breakers {breakers}")
    print(f"   read back: breakers {read_breakers}")
    if status is None:
        g_w, g_b = groups(written), groups(back)
        print(f"   all closed: buses written {g_w} ({written.no_bus[0]}), read back {g_b} ({back.no_bus[0]})")
    else:
        p_w, p_b = balance(written, status), balance(back, status)
        g_w, g_b = groups(written), groups(back)
        print(f"   status table {status.astype(int).tolist()}: buses written {g_w}, read back {g_b}")
        print(f"   genset kW written  : { {s: float(v[0]) for s, v in p_w.items()} }")
        print(f"   genset kW read back: { {s: float(v[0]) for s, v in p_b.items()} }")
    if g_w != g_b:
        violated = True

print("PROPERTY VIOLATED (grouping changed by the protobuf description)" if violated else "property holds")
sys.exit(1 if violated else 0)
