"""C02 finding 2: a breaker operated mid-series is silently ignored when every other series of the
plant is a single value.

Two switchboards, one genset and one constant load each, all given as ONE-element arrays (constant
plant); the bus-tie breaker is closed for two steps and open for two.  validate_inputs_before_
power_balance_calculation() takes the length of the series from the consumers, the status of the
sources and the sharing modes, NOT from the breakers, and its length test for the breakers is
skipped when that length is 1 (`number_points > 1 and ...`).  The balance then returns ONE step,
calculated with the first configuration only, while no_bus reports two configurations: the opening
of the breaker at step 2 never takes effect, and nothing is refused.  The same breaker series next
to a 3-step plant IS refused (InputError), and the same constant loads next to 4-step source status
series ARE balanced step by step - so the property demands either of the two here as well.

Exit status 1: property violated; 0: holds (4 steps with the split from step 2, or a refusal).
"""
import logging
import sys

import numpy as np

logging.disable(logging.CRITICAL)

from feems.components_model.component_electric import ElectricComponent, ElectricMachine, Genset
from feems.components_model.component_mechanical import Engine
from feems.components_model.utility import IntegrationMethod
from feems.exceptions import InputError
from feems.system_model import ElectricPowerSystem
from feems.types_for_feems import NOxCalculationMethod, TypeComponent, TypePower

EFF = np.array([[0.25, 0.9], [0.5, 0.93], [0.75, 0.95], [1.0, 0.96]])
BSFC = np.array([[0.1, 260.0], [0.25, 230.0], [0.5, 205.0], [0.75, 195.0], [1.0, 200.0]])
RATED = {1: 1000.0, 2: 1100.0}
LOAD = {1: 100.0, 2: 300.0}


def genset(name, rated, swb):
    gen = ElectricMachine(
        type_=TypeComponent.GENERATOR, name="generator " + name, rated_power=rated, rated_speed=1000,
        power_type=TypePower.POWER_SOURCE, switchboard_id=swb, eff_curve=EFF,
    )
    eng = Engine(
        type_=TypeComponent.AUXILIARY_ENGINE, name="engine " + name, rated_power=rated / 0.96,
        rated_speed=1000, bsfc_curve=BSFC, nox_calculation_method=NOxCalculationMethod.TIER_2,
    )
    return Genset(name, eng, gen)


def load(name, swb):
    return ElectricComponent(
        type_=TypeComponent.OTHER_LOAD, name=name, rated_power=500.0,
        eff_curve=np.array([[0.0, 1.0], [1.0, 1.0]]), power_type=TypePower.POWER_CONSUMER,
        switchboard_id=swb,
    )


def plant(n_status):
    comps = []
    for s in (1, 2):
        comps += [genset(f"genset {s}", RATED[s], s), load(f"load {s}", s)]
    system = ElectricPowerSystem("plant", comps, [(1, 2)])
    for s in (1, 2):
        system.set_power_input_from_power_output_by_switchboard_id_type_name(
            np.array([LOAD[s]]), s, TypePower.POWER_CONSUMER, f"load {s}"
        )
        system.set_status_by_switchboard_id_power_type(
            s, TypePower.POWER_SOURCE, np.ones((n_status, 1), dtype=bool)
        )
        system.set_load_sharing_mode_power_sources_by_switchboard_id_power_type(
            s, TypePower.POWER_SOURCE, np.zeros((n_status, 1))
        )
    system.set_time_interval(1.0, IntegrationMethod.sum_with_time)
    return system


def loads_of_gensets(system):
    return {
        s: system.switchboards[s].component_by_power_type[TypePower.POWER_SOURCE.value][0].power_output
        / RATED[s]
        for s in (1, 2)
    }


breaker = np.array([[True], [True], [False], [False]])
joined = (LOAD[1] + LOAD[2]) / (RATED[1] + RATED[2])
expected = {
    s: np.where(breaker[:, 0], joined, LOAD[s] / RATED[s]) for s in (1, 2)
}
print("breaker (1,2):", breaker[:, 0].astype(int), " expected genset loads:")
for s in (1, 2):
    print(f"   switchboard {s}: {np.round(expected[s], 4)}")

# reference: the same constant loads, source status given for the four steps -> step by step
ref = plant(n_status=4)
ref.set_bus_tie_status_all(breaker)
ref.do_power_balance_calculation()
print("constant loads, 4-step source status (accepted, for comparison):")
for s, v in loads_of_gensets(ref).items():
    print(f"   switchboard {s}: {np.round(v, 4)}")

system = plant(n_status=1)
system.set_bus_tie_status_all(breaker)
violated = False
try:
    system.do_power_balance_calculation()
except InputError as exc:
    print("constant plant, 4-step breaker: refused:", exc)
else:
    got = loads_of_gensets(system)
    print("constant plant (single values), 4-step breaker series: accepted; no_bus =", system.no_bus,
          "change index =", system.bus_configuration_change_index)
    for s, v in got.items():
        print(f"   switchboard {s}: {np.round(v, 4)}   ({v.size} step(s))")
    for s in (1, 2):
        if got[s].size != 4 or not np.allclose(got[s], expected[s], rtol=1e-9):
            violated = True
    if violated:
        print("   -> the opening of the breaker at step 2 has no effect on the result")

print("PROPERTY VIOLATED" if violated else "property holds")
sys.exit(1 if violated else 0)
