"""C02 finding 1: a plant whose switchboards are not numbered 1..n cannot be read from protobuf.

convert_feems_switchboards_to_feems_electric_power_system() (MachSysS/convert_to_feems.py)
declares the bus-tie breakers by POSITION, (1,2),(2,3),.., whatever the numbers of the switchboards
are.  Two switchboards 1 and 3 joined by the breaker (1,3) are a legal ElectricPowerSystem; written to
protobuf and read back (or read from a message that was composed by hand) the breaker becomes (1,2)
and the constructor fails with KeyError(2).

Exit status 1: property violated (plant refused, or grouping differs from connectivity); 0: holds.
"""
import logging
import sys

import numpy as np

logging.disable(logging.CRITICAL)

from feems.components_model.component_electric import ElectricComponent, ElectricMachine, Genset
from feems.components_model.component_mechanical import Engine
from feems.system_model import ElectricPowerSystem
from feems.types_for_feems import NOxCalculationMethod, TypeComponent, TypePower
from MachSysS.convert_to_feems import convert_proto_propulsion_system_to_feems
from MachSysS.convert_to_protobuf import convert_electric_system_to_protobuf_machinery_system

EFF = np.array([[0.25, 0.9], [0.5, 0.93], [0.75, 0.95], [1.0, 0.96]])
BSFC = np.array([[0.1, 260.0], [0.25, 230.0], [0.5, 205.0], [0.75, 195.0], [1.0, 200.0]])


def genset(name, rated, swb):
    gen = ElectricMachine(
        type_=TypeComponent.GENERATOR, name="generator " + name, rated_power=rated, rated_speed=1000,
        power_type=TypePower.POWER_SOURCE, switchboard_id=swb, eff_curve=EFF,
    )
    eng = Engine(
        type_=TypeComponent.AUXILIARY_ENGINE, name="engine " + name, rated_power=rated / 0.96,
        rated_speed=1000, bsfc_curve=BSFC, nox_calculation_method=NOxCalculationMethod.TIER_2,
    )
    return Genset(name, eng, gen)


def load(name, swb):
    return ElectricComponent(
        type_=TypeComponent.OTHER_LOAD, name=name, rated_power=500.0,
        eff_curve=np.array([[0.0, 1.0], [1.0, 1.0]]), power_type=TypePower.POWER_CONSUMER,
        switchboard_id=swb,
    )


def groups(system, step_config):
    """switchboards per bus for one configuration"""
    res = {}
    for swb, bus in system.switchboard2bus[step_config].items():
        res.setdefault(bus, set()).add(swb)
    return sorted(sorted(g) for g in res.values())


violated = False
for swb_ids in ([1, 3], [2, 3], [1, 2, 4]):
    comps = []
    for s in swb_ids:
        comps += [genset(f"genset {s}", 1000.0, s), load(f"load {s}", s)]
    breakers = [(a, b) for a, b in zip(swb_ids[:-1], swb_ids[1:])]  # a plain chain, by number
    direct = ElectricPowerSystem("plant", comps, breakers)
    print(f"switchboards {swb_ids}, breakers {breakers}")
    print(f"  built directly     : accepted, buses with all breakers closed: {groups(direct, 0)}")
    message = convert_electric_system_to_protobuf_machinery_system(direct)
    try:
        back = convert_proto_propulsion_system_to_feems(message)
    except Exception as exc:  # noqa
        print(f"  read from protobuf : REFUSED with {exc!r}")
        violated = True
        continue
    read_breakers = [tuple(b.switchboard_ids) for b in back.bus_tie_breakers]
    print(f"  read from protobuf : breakers {read_breakers}, buses {groups(back, 0)}")
    if groups(back, 0) != groups(direct, 0):
        violated = True
    # every breaker open: every switchboard its own bus, in both
    n_steps = 2
    back.set_bus_tie_status_all(np.zeros((n_steps, len(read_breakers)), dtype=bool))
    if back.no_bus != [len(swb_ids)]:
        violated = True

print("PROPERTY VIOLATED" if violated else "property holds")
sys.exit(1 if violated else 0)
