"""C02 finding 4 (minor): the reported number of buses is stale after a breaker status was assigned
to the breaker itself or changed in place in the status table.

Since the repair "a bus-tie breaker status assigned to the breaker itself is ignored by the power
balance" the balance works the buses out again, so such an assignment is a supported way to operate a
breaker.  Everything else that reports the grouping - no_bus, switchboard2bus,
bus_configuration_change_index, get_sum_power_out_rated_buses_by_power_type() and the other per-bus
sums - still shows the grouping of the last set_bus_tie_status*() call until a balance has been run.

Exit status 1: the reported number of buses differs from the number of groups; 0: it agrees.
"""
import logging
import sys

import numpy as np

logging.disable(logging.CRITICAL)

from feems.components_model.component_electric import ElectricComponent, ElectricMachine, Genset
from feems.components_model.component_mechanical import Engine
from feems.system_model import ElectricPowerSystem
from feems.types_for_feems import NOxCalculationMethod, TypeComponent, TypePower

EFF = np.array([[0.25, 0.9], [0.5, 0.93], [0.75, 0.95], [1.0, 0.96]])
BSFC = np.array([[0.1, 260.0], [0.25, 230.0], [0.5, 205.0], [0.75, 195.0], [1.0, 200.0]])


def genset(name, rated, swb):
    gen = ElectricMachine(
        type_=TypeComponent.GENERATOR, name="generator " + name, rated_power=rated, rated_speed=1000,
        power_type=TypePower.POWER_SOURCE, switchboard_id=swb, eff_curve=EFF,
    )
    eng = Engine(
        type_=TypeComponent.AUXILIARY_ENGINE, name="engine " + name, rated_power=rated / 0.96,
        rated_speed=1000, bsfc_curve=BSFC, nox_calculation_method=NOxCalculationMethod.TIER_2,
    )
    return Genset(name, eng, gen)


def load(name, swb):
    return ElectricComponent(
        type_=TypeComponent.OTHER_LOAD, name=name, rated_power=500.0,
        eff_curve=np.array([[0.0, 1.0], [1.0, 1.0]]), power_type=TypePower.POWER_CONSUMER,
        switchboard_id=swb,
    )


comps = []
for s in (1, 2):
    comps += [genset(f"genset {s}", 1000.0 * s, s), load(f"load {s}", s)]
system = ElectricPowerSystem("plant", comps, [(1, 2)])
violated = False

print("breaker closed (default): no_bus", system.no_bus)
system.bus_tie_breakers[0].status = np.array([False])
rated = system.get_sum_power_out_rated_buses_by_power_type(TypePower.POWER_SOURCE)
print("breaker.status = [False] : no_bus", system.no_bus, " switchboard2bus", system.switchboard2bus,
      " rated power per bus", {k: v.tolist() for k, v in rated.items()})
if system.no_bus != [2]:
    violated = True

table = np.ones((3, 1), dtype=bool)
system.set_bus_tie_status_all(table)
table[1:, 0] = False  # opened from step 1 on, in the table that was handed over
print("table changed in place    : no_bus", system.no_bus, " change index",
      system.bus_configuration_change_index, " (expected [1, 2] and [0, 1])")
if system.no_bus != [1, 2] or list(system.bus_configuration_change_index) != [0, 1]:
    violated = True

print("PROPERTY VIOLATED (reported number of buses is stale)" if violated else "property holds")
sys.exit(1 if violated else 0)
