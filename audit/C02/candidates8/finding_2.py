"""C02 finding 2: the protobuf entry point does not keep the set of bus-tie breakers. The reader
replaces whatever was declared (star, ring, other order) by the chain (1,2),(2,3),..; the same
breaker status table then gives another grouping of the switchboards, another number of buses
and other genset loads than connectivity through the declared breakers demands.

Run: PYTHONPATH=<wt>/feems:<wt>/machinery-system-structure:<wt>/RunFEEMSSim python finding_2.py
Exit status 1 = property violated, 0 = holds.
"""
import logging
import sys
import warnings

import numpy as np

logging.disable(logging.CRITICAL)
warnings.filterwarnings("ignore")

from feems.components_model.component_electric import ElectricComponent, ElectricMachine, Genset
from feems.components_model.component_mechanical import Engine
from feems.components_model.utility import IntegrationMethod
from feems.system_model import ElectricPowerSystem
from feems.types_for_feems import TypeComponent, TypePower
from MachSysS.convert_to_feems import convert_proto_propulsion_system_to_feems
from MachSysS.convert_to_protobuf import convert_electric_system_to_protobuf_machinery_system

BSFC = np.array([[0.25, 0.5, 0.75, 1.0], [220.0, 200.0, 190.0, 195.0]]).T
EFF = np.array([[0.25, 0.5, 0.75, 1.0], [0.93, 0.95, 0.96, 0.96]]).T


def genset(name, power, swb):
    gen = ElectricMachine(
        type_=TypeComponent.GENERATOR, name="generator " + name, rated_power=power,
        rated_speed=1000, power_type=TypePower.POWER_SOURCE, switchboard_id=swb, eff_curve=EFF,
    )
    eng = Engine(
        type_=TypeComponent.AUXILIARY_ENGINE, name="engine " + name, rated_power=power / 0.96,
        rated_speed=1000, bsfc_curve=BSFC,
    )
    return Genset(name, eng, gen)


def load(name, swb):
    return ElectricComponent(
        type_=TypeComponent.OTHER_LOAD, name=name, rated_power=5000.0,
        power_type=TypePower.POWER_CONSUMER, switchboard_id=swb, eff_curve=np.array([1.0]),
    )


def reference_groups(ids, breakers, closed):
    """Connected components of the graph (switchboards, closed breakers)."""
    parent = {i: i for i in ids}

    def find(x):
        while parent[x] != x:
            x = parent[x]
        return x

    for (a, b), c in zip(breakers, closed):
        if c:
            parent[find(a)] = find(b)
    out = {}
    for i in ids:
        out.setdefault(find(i), set()).add(i)
    return sorted(sorted(v) for v in out.values())


def groups_at(system, t, n_points):
    change = list(system.bus_configuration_change_index) + [n_points]
    k = max(j for j in range(len(change) - 1) if change[j] <= t)
    out = {}
    for swb, bus in system.switchboard2bus[k].items():
        out.setdefault(bus, set()).add(swb)
    return sorted(sorted(v) for v in out.values()), system.no_bus[k]


def make(breakers):
    comps = []
    for i in (1, 2, 3):
        comps += [genset("G%d" % i, 1000.0, i), load("L%d" % i, i)]
    return ElectricPowerSystem("plant", comps, breakers)


def run(system, table, loads):
    n = table.shape[0]
    system.set_bus_tie_status_all(table)
    for consumer in system.other_load:
        consumer.set_power_input_from_output(np.full(n, loads[consumer.switchboard_id]))
    for source in system.power_sources:
        source.status = np.ones(n, dtype=bool)
        source.load_sharing_mode = np.zeros(n)
    system.set_time_interval(60.0, IntegrationMethod.simpson)
    system.do_power_balance_calculation()
    return {s.switchboard_id: np.round(s.power_output, 6).tolist() for s in system.power_sources}


loads = {1: 100.0, 2: 200.0, 3: 600.0}
violations = 0
cases = {
    # a star around switchboard 3; step 1: second breaker (3,2) opened
    "star (1,3),(3,2)": ([(1, 3), (3, 2)], np.array([[1, 1], [1, 0], [0, 1]], dtype=bool)),
    # the usual chain, declared in the other order; step 1: first declared breaker (2,3) opened
    "chain declared (2,3),(1,2)": ([(2, 3), (1, 2)], np.array([[1, 1], [0, 1]], dtype=bool)),
    # a ring; opening any ONE breaker of a ring leaves one bus
    "ring (1,2),(2,3),(3,1)": (
        [(1, 2), (2, 3), (3, 1)],
        np.array([[1, 1, 1], [0, 1, 1], [1, 0, 1]], dtype=bool),
    ),
}
for name, (breakers, table) in cases.items():
    original = make(breakers)
    out = run(original, table, loads)
    read_back = convert_proto_propulsion_system_to_feems(
        convert_electric_system_to_protobuf_machinery_system(original)
    )
    out_back = run(read_back, table, loads)
    print(name)
    print("   breakers declared:", breakers, "  breakers after protobuf:",
          [tuple(b.switchboard_ids) for b in read_back.bus_tie_breakers])
    for t in range(table.shape[0]):
        ref = reference_groups((1, 2, 3), breakers, table[t])
        got, no_bus = groups_at(original, t, table.shape[0])
        got_back, no_bus_back = groups_at(read_back, t, table.shape[0])
        assert got == ref and no_bus == len(ref), "direct API wrong?!"
        flag = ""
        if got_back != ref or no_bus_back != len(ref):
            violations += 1
            flag = "   <-- VIOLATION"
        print("   step %d status %s: connectivity %s (%d buses) | direct API %s | via protobuf %s "
              "(%d buses)%s" % (t, table[t].astype(int).tolist(), ref, len(ref), got, got_back,
                                no_bus_back, flag))
    print("   genset kW direct      :", out)
    print("   genset kW via protobuf:", out_back)

# A plant whose breakers never connect everything: switchboards 1-2 tied, 3-4 tied, nothing between
# 2 and 3. Nothing is operated at all (every breaker keeps its default: closed).
comps = []
for i in (1, 2, 3, 4):
    comps += [genset("G%d" % i, 1000.0, i), load("L%d" % i, i)]
pairs = ElectricPowerSystem("two pairs", comps, [(1, 2), (3, 4)])
pairs_back = convert_proto_propulsion_system_to_feems(
    convert_electric_system_to_protobuf_machinery_system(pairs)
)
ref = reference_groups((1, 2, 3, 4), [(1, 2), (3, 4)], [True, True])
got, no_bus = groups_at(pairs, 0, 1)
got_back, no_bus_back = groups_at(pairs_back, 0, 1)
flag = ""
if got_back != ref or no_bus_back != len(ref):
    violations += 1
    flag = "   <-- VIOLATION"
print("disconnected pairs (1,2),(3,4), all closed: connectivity %s (%d buses) | direct API %s (%d) "
      "| via protobuf %s (%d buses), breakers %s%s" % (
          ref, len(ref), got, no_bus, got_back, no_bus_back,
          [tuple(b.switchboard_ids) for b in pairs_back.bus_tie_breakers], flag))

if violations:
    print("VIOLATION: %d time steps are grouped differently from connectivity through the "
          "declared closed breakers once the plant has been through protobuf" % violations)
    sys.exit(1)
print("property holds")
sys.exit(0)
