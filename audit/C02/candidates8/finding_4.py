"""C02 finding 4: the reported number of buses (no_bus), the switchboard-to-bus map and the public
per-bus sums are only refreshed by set_bus_tie_status / set_bus_tie_status_all and by the power
balance. A breaker status that is assigned to the breaker itself, or a status table that is
updated in place after it was handed to set_bus_tie_status_all (the plant keeps VIEWS of its
columns) - both are honoured by the power balance since the earlier repairs - is not reflected in
what the plant reports until a balance has been run: at those time steps the plant reports a
grouping that is not the connectivity through the closed breakers.

Run: PYTHONPATH=<wt>/feems:<wt>/machinery-system-structure:<wt>/RunFEEMSSim python finding_4.py
Exit status 1 = property violated, 0 = holds.
"""
import logging
import sys
import warnings

import numpy as np

logging.disable(logging.CRITICAL)
warnings.filterwarnings("ignore")

from feems.components_model.component_electric import ElectricComponent, ElectricMachine, Genset
from feems.components_model.component_mechanical import Engine
from feems.components_model.utility import IntegrationMethod
from feems.system_model import ElectricPowerSystem
from feems.types_for_feems import TypeComponent, TypePower

BSFC = np.array([[0.25, 0.5, 0.75, 1.0], [220.0, 200.0, 190.0, 195.0]]).T
EFF = np.array([[0.25, 0.5, 0.75, 1.0], [0.93, 0.95, 0.96, 0.96]]).T


def genset(name, power, swb):
    gen = ElectricMachine(
        type_=TypeComponent.GENERATOR, name="generator " + name, rated_power=power,
        rated_speed=1000, power_type=TypePower.POWER_SOURCE, switchboard_id=swb, eff_curve=EFF,
    )
    eng = Engine(
        type_=TypeComponent.AUXILIARY_ENGINE, name="engine " + name, rated_power=power / 0.96,
        rated_speed=1000, bsfc_curve=BSFC,
    )
    return Genset(name, eng, gen)


def load(name, swb):
    return ElectricComponent(
        type_=TypeComponent.OTHER_LOAD, name=name, rated_power=5000.0,
        power_type=TypePower.POWER_CONSUMER, switchboard_id=swb, eff_curve=np.array([1.0]),
    )


def make(n_points):
    comps = []
    for i in (1, 2):
        comps += [genset("G%d" % i, 1000.0, i), load("L%d" % i, i)]
    system = ElectricPowerSystem("plant", comps, [(1, 2)])
    for source in system.power_sources:
        source.status = np.ones(1, dtype=bool)
    for consumer, kw in zip(system.other_load, (100.0, 300.0)):
        consumer.set_power_input_from_output(np.full(n_points, kw))
    system.set_time_interval(60.0, IntegrationMethod.simpson)
    return system


violations = 0

# (a) status assigned to the breaker itself
a = make(3)
a.bus_tie_breakers[0].status = np.array([True, False, False])
consumers = a.get_sum_power_in_buses_by_power_type(TypePower.POWER_CONSUMER)
print("(a) breaker opened from step 1 by assignment to the breaker")
print("    reported before a balance: no_bus", a.no_bus, " consumer kW per bus",
      {k: v.tolist() for k, v in consumers.items()})
if a.no_bus != [1, 2]:
    violations += 1
    print("    <-- VIOLATION: connectivity says 1 bus at step 0 and 2 buses from step 1")
a.do_power_balance_calculation()
print("    reported after the balance: no_bus", a.no_bus, " consumer kW per bus",
      {k: v.tolist() for k, v in
       a.get_sum_power_in_buses_by_power_type(TypePower.POWER_CONSUMER).items()})

# (b) the status table handed to set_bus_tie_status_all is updated in place afterwards
b = make(3)
table = np.ones((3, 1), dtype=bool)
b.set_bus_tie_status_all(table)
table[2, 0] = False  # the plant holds a view of this column: its breaker status changes with it
print("(b) status table updated in place after set_bus_tie_status_all: breaker status held by "
      "the plant is", b.bus_tie_breakers[0].status.tolist())
print("    reported before a balance: no_bus", b.no_bus,
      " change index", b.bus_configuration_change_index)
if b.no_bus != [1, 2]:
    violations += 1
    print("    <-- VIOLATION: the breaker status of the plant says 2 buses at step 2")
b.do_power_balance_calculation()
print("    reported after the balance: no_bus", b.no_bus,
      " change index", b.bus_configuration_change_index)

if violations:
    print("VIOLATION: the reported grouping does not follow the breaker status (%d cases)"
          % violations)
    sys.exit(1)
print("property holds")
sys.exit(0)
