"""C10 finding 3 - a consumer whose component type is not OTHER_LOAD / PROPULSION_DRIVE (here a pump
motor typed ELECTRIC_MOTOR) is accepted by ElectricPowerSystem as one of its `other_load`s and is
balanced (the gensets burn fuel for it), but the totals of the plant are refused with a TypeError:
the auxiliary energy and every other total cannot be formed. The same happens on a shaft line.

exit 1 = property violated, exit 0 = property holds
"""
import logging
import sys

import numpy as np
from scipy.integrate import trapezoid

from feems.components_model.component_electric import ElectricComponent, ElectricMachine, Genset
from feems.components_model.component_mechanical import (
    Engine,
    MainEngineForMechanicalPropulsion,
    MechanicalPropulsionComponent,
)
from feems.components_model.node import get_fuel_emission_energy_balance_for_component
from feems.components_model.utility import IntegrationMethod
from feems.system_model import ElectricPowerSystem, MechanicalPropulsionSystem
from feems.types_for_feems import TypeComponent, TypePower

logging.disable(logging.CRITICAL)

BSFC = np.array([[0.25, 220.0], [0.5, 200.0], [0.75, 190.0], [1.0, 195.0]])
EFF = np.array([[0.25, 0.90], [0.5, 0.94], [0.75, 0.96], [1.0, 0.965]])
N = 4
violated = False

# ---------------------------------------------------------------- electric plant
engine = Engine(type_=TypeComponent.AUXILIARY_ENGINE, name="aux", rated_power=1100.0,
                rated_speed=900.0, bsfc_curve=BSFC)
generator = ElectricMachine(type_=TypeComponent.GENERATOR, name="gen", rated_power=1000.0,
                            rated_speed=900.0, power_type=TypePower.POWER_SOURCE,
                            switchboard_id=1, eff_curve=EFF)
genset = Genset("G1", engine, generator)
hotel = ElectricComponent(type_=TypeComponent.OTHER_LOAD, name="hotel", rated_power=300.0,
                          eff_curve=np.array([1.0]), power_type=TypePower.POWER_CONSUMER,
                          switchboard_id=1)
pump = ElectricMachine(type_=TypeComponent.ELECTRIC_MOTOR, name="cargo pump", rated_power=400.0,
                       rated_speed=1800.0, power_type=TypePower.POWER_CONSUMER, switchboard_id=1,
                       eff_curve=EFF)
system = ElectricPowerSystem("plant", [genset, hotel, pump], [])
print("ElectricPowerSystem accepted the pump motor; other_load =",
      [c.name for c in system.other_load])
hotel.set_power_input_from_output(np.linspace(50.0, 200.0, N))
pump.set_power_input_from_output(np.linspace(100.0, 300.0, N))
genset.status = np.ones(N, dtype=bool)
system.set_time_interval(60.0, IntegrationMethod.trapezoid)
system.do_power_balance_calculation()
print("power balance done; genset power [kW] =", np.round(genset.power_output, 2),
      " = hotel + pump input =", np.round(hotel.power_input + pump.power_input, 2))
fuel_genset = get_fuel_emission_energy_balance_for_component(
    genset, 60.0, IntegrationMethod.trapezoid).fuel_consumption_total_kg
print(f"per-component figure of the genset: {fuel_genset:.4f} kg fuel")
try:
    res = system.get_fuel_energy_consumption_running_time()
    aux_expected = trapezoid(hotel.power_output + pump.power_output) * 60.0 / 1000
    print(f"totals: fuel {res.fuel_consumption_total_kg:.4f} kg, auxiliary energy "
          f"{res.energy_consumption_auxiliary_total_mj:.3f} MJ (consumers deliver {aux_expected:.3f} MJ)")
    if not np.isclose(res.fuel_consumption_total_kg, fuel_genset) or not np.isclose(
            res.energy_consumption_auxiliary_total_mj, aux_expected, rtol=1e-3):
        violated = True
except Exception as exc:  # noqa
    print(f"system totals REFUSED: {type(exc).__name__}: {exc}")
    violated = True

# ---------------------------------------------------------------- shaft line
main_engine = MainEngineForMechanicalPropulsion(
    "ME", Engine(type_=TypeComponent.MAIN_ENGINE, name="me", rated_power=3000.0, rated_speed=500.0,
                 bsfc_curve=BSFC), shaft_line_id=1)
propeller = MechanicalPropulsionComponent(TypeComponent.PROPELLER_LOAD, TypePower.POWER_CONSUMER,
                                          "propeller", 3000.0, np.array([1.0]), 150.0, shaft_line_id=1)
shaft_pump = MechanicalPropulsionComponent(TypeComponent.NONE, TypePower.POWER_CONSUMER,
                                           "shaft driven pump", 300.0, np.array([0.9]), 500.0,
                                           shaft_line_id=1)
mech = MechanicalPropulsionSystem("mech", [main_engine, propeller, shaft_pump])
print("MechanicalPropulsionSystem accepted the shaft driven pump; mechanical_loads =",
      [c.name for c in mech.mechanical_loads])
propeller.set_power_input_from_output(np.linspace(500.0, 2000.0, N))
shaft_pump.set_power_input_from_output(np.linspace(50.0, 200.0, N))
main_engine.status = np.ones(N, dtype=bool)
mech.set_time_interval(60.0, IntegrationMethod.trapezoid)
mech.do_power_balance()
print("shaft balance done; main engine power [kW] =", np.round(main_engine.power_output, 2))
try:
    res = mech.get_fuel_energy_consumption_running_time()
    print(f"totals: fuel {res.fuel_consumption_total_kg:.4f} kg")
except Exception as exc:  # noqa
    print(f"mechanical totals REFUSED: {type(exc).__name__}: {exc}")
    violated = True

if violated:
    print("VIOLATED: plants that the system constructors accept and the power balance serves have "
          "no totals at all (TypeError), so they cannot equal the sum of the component figures.")
    sys.exit(1)
print("property holds")
sys.exit(0)
