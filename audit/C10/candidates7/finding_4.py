"""C10 finding 4 - a species that only some components emit (CO: only the genset on switchboard 1 has
a CO curve). FEEMSResult.total_emission_kg is declared Optional[DefaultDict[EmissionType, float]] and
every per-component result is such a defaultdict (a species that is not emitted reads 0.0). The
merge of results turns it into a plain dict that holds only the keys met so far, and a node with a
single engine hands on the defaultdict of that engine itself. So the total of the species
 - reads 0.0 from a switchboard with ONE engine that does not emit it,
 - is missing (KeyError) from a switchboard with TWO such engines, and from the system for any
   species that no component emits,
and "system total == sum over the switchboards == sum of the component figures", evaluated through
the declared mapping, fails for the species.

exit 1 = property violated, exit 0 = property holds
"""
import logging
import sys

import numpy as np

from feems.components_model.component_electric import ElectricComponent, ElectricMachine, Genset
from feems.components_model.component_mechanical import Engine
from feems.components_model.node import get_fuel_emission_energy_balance_for_component
from feems.components_model.utility import IntegrationMethod
from feems.system_model import ElectricPowerSystem
from feems.types_for_feems import (
    EmissionCurve,
    EmissionCurvePoint,
    EmissionType,
    TypeComponent,
    TypePower,
)

logging.disable(logging.CRITICAL)

BSFC = np.array([[0.25, 220.0], [0.5, 200.0], [0.75, 190.0], [1.0, 195.0]])
EFF = np.array([[0.25, 0.90], [0.5, 0.94], [0.75, 0.96], [1.0, 0.965]])
CO = EmissionCurve(
    points_per_kwh=[EmissionCurvePoint(0.25, 3.0), EmissionCurvePoint(0.5, 2.0),
                    EmissionCurvePoint(1.0, 1.0)],
    emission=EmissionType.CO,
)
N = 4
DT = 60.0
METHOD = IntegrationMethod.trapezoid


def genset(name, swb, curves=None):
    engine = Engine(type_=TypeComponent.AUXILIARY_ENGINE, name=name + " engine", rated_power=1100.0,
                    rated_speed=900.0, bsfc_curve=BSFC, emissions_curves=curves)
    generator = ElectricMachine(type_=TypeComponent.GENERATOR, name=name + " generator",
                                rated_power=1000.0, rated_speed=900.0,
                                power_type=TypePower.POWER_SOURCE, switchboard_id=swb, eff_curve=EFF)
    return Genset(name, engine, generator)


g1 = genset("G1 (CO curve)", 1, [CO])
g2 = genset("G2", 2)
g3 = genset("G3", 2)
load = ElectricComponent(type_=TypeComponent.OTHER_LOAD, name="hotel", rated_power=2000.0,
                         eff_curve=np.array([1.0]), power_type=TypePower.POWER_CONSUMER,
                         switchboard_id=1)
gensets = [g1, g2, g3]
system = ElectricPowerSystem("plant", [g1, g2, g3, load], [(1, 2)])
load.set_power_input_from_output(np.linspace(300.0, 1500.0, N))
for g in gensets:
    g.status = np.ones(N, dtype=bool)
system.set_time_interval(DT, METHOD)
system.do_power_balance_calculation()

total = system.get_fuel_energy_consumption_running_time()
per_switchboard = {
    swb_id: swb.get_fuel_energy_consumption_running_time(DT, METHOD)
    for swb_id, swb in system.switchboards.items()
}
per_component = {g.name: get_fuel_emission_energy_balance_for_component(g, DT, METHOD) for g in gensets}

violated = False
for species in (EmissionType.NOX, EmissionType.CO, EmissionType.PM):
    print(f"--- {species.name}")
    component_sum = 0.0
    for name, res in per_component.items():
        value = res.total_emission_kg[species]
        print(f"    component {name:14s} {type(res.total_emission_kg).__name__:11s} {value:.6f} kg")
        component_sum += value
    switchboard_sum = 0.0
    for swb_id, res in per_switchboard.items():
        try:
            value = res.total_emission_kg[species]
            print(f"    switchboard {swb_id}            {type(res.total_emission_kg).__name__:11s} {value:.6f} kg")
            switchboard_sum += value
        except KeyError:
            print(f"    switchboard {swb_id}            {type(res.total_emission_kg).__name__:11s} KeyError")
            switchboard_sum = None
            break
    try:
        system_total = total.total_emission_kg[species]
        print(f"    system                   {type(total.total_emission_kg).__name__:11s} {system_total:.6f} kg")
    except KeyError:
        system_total = None
        print(f"    system                   {type(total.total_emission_kg).__name__:11s} KeyError")
    holds = (
        system_total is not None
        and switchboard_sum is not None
        and np.isclose(system_total, switchboard_sum)
        and np.isclose(system_total, component_sum)
    )
    print(f"    sum of the component figures {component_sum:.6f} kg -> "
          f"system total == sum over switchboards == sum over components: {holds}")
    violated |= not holds

if violated:
    print("VIOLATED: the total of a species that only some (or none) of the components emit cannot be "
          "read from the node / system result although every component result reports it (0.0); "
          "whether it can depends on how many engines the node has.")
    sys.exit(1)
print("property holds")
sys.exit(0)
