"""C10 finding 1 - the totals of a combined system (HybridPropulsionSystem,
MechanicalPropulsionSystemWithElectricPowerSystem) are not the sum of the figures of its own
switchboards and shaft lines on the time base the system holds.

set_time_interval(60 s, trapezoid) stores the time base on the system and on both sub-systems, and
ElectricPowerSystem / MechanicalPropulsionSystem report their totals on that stored time base. The
combined systems' get_fuel_energy_consumption_running_time ignores it: it takes the time interval
again and silently falls back to Simpson's rule (its default argument), re-setting both sub-systems
behind the caller's back. On top of that the second positional parameter of
MechanicalPropulsionSystemWithElectricPowerSystem.get_fuel_energy_consumption_running_time is the
unused `nox_emission_criteria`, so the call (dt, IntegrationMethod.trapezoid) that HybridPropulsionSystem
serves with the trapezoid rule is integrated with Simpson's rule there, without any complaint.

Checked: system total of every fuel kind / CO2eq / species / propulsion and auxiliary energy ==
sum over the switchboards and shaft lines, evaluated with system.time_interval_s and
system.integration_method.

exit 1 = property violated, exit 0 = property holds
"""
import logging
import sys

import numpy as np

from feems.components_model.component_electric import (
    PTIPTO,
    ElectricComponent,
    ElectricMachine,
    Genset,
)
from feems.components_model.component_mechanical import (
    Engine,
    MainEngineForMechanicalPropulsion,
    MechanicalPropulsionComponent,
)
from feems.components_model.utility import IntegrationMethod
from feems.system_model import (
    ElectricPowerSystem,
    HybridPropulsionSystem,
    MechanicalPropulsionSystem,
    MechanicalPropulsionSystemWithElectricPowerSystem,
)
from feems.types_for_feems import TypeComponent, TypePower

logging.disable(logging.CRITICAL)

BSFC = np.array([[0.25, 220.0], [0.5, 200.0], [0.75, 190.0], [1.0, 195.0]])
EFF = np.array([[0.25, 0.90], [0.5, 0.94], [0.75, 0.96], [1.0, 0.965]])
N = 6
DT = 60.0


def build(kind: str):
    engine = Engine(type_=TypeComponent.AUXILIARY_ENGINE, name="aux", rated_power=1100.0,
                    rated_speed=900.0, bsfc_curve=BSFC)
    generator = ElectricMachine(type_=TypeComponent.GENERATOR, name="gen", rated_power=1000.0,
                                rated_speed=900.0, power_type=TypePower.POWER_SOURCE,
                                switchboard_id=1, eff_curve=EFF)
    genset = Genset("G1", engine, generator)
    hotel = ElectricComponent(type_=TypeComponent.OTHER_LOAD, name="hotel", rated_power=300.0,
                              eff_curve=np.array([1.0]), power_type=TypePower.POWER_CONSUMER,
                              switchboard_id=1)
    main_engine = MainEngineForMechanicalPropulsion(
        "ME", Engine(type_=TypeComponent.MAIN_ENGINE, name="me", rated_power=3000.0,
                     rated_speed=500.0, bsfc_curve=BSFC), shaft_line_id=1)
    propeller = MechanicalPropulsionComponent(TypeComponent.PROPELLER_LOAD, TypePower.POWER_CONSUMER,
                                              "propeller", 3000.0, np.array([1.0]), 150.0,
                                              shaft_line_id=1)
    electric, mechanical = [genset, hotel], [main_engine, propeller]
    pti_pto = None
    if kind == "hybrid":
        pti_pto = PTIPTO(
            "PTI/PTO",
            [ElectricComponent(type_=TypeComponent.POWER_CONVERTER, name="conv", rated_power=500.0,
                               eff_curve=EFF, power_type=TypePower.PTI_PTO, switchboard_id=1),
             ElectricMachine(type_=TypeComponent.SYNCHRONOUS_MACHINE, name="machine",
                             rated_power=500.0, rated_speed=1000.0, power_type=TypePower.PTI_PTO,
                             switchboard_id=1, eff_curve=EFF)],
            switchboard_id=1, rated_power=500.0, rated_speed=1000.0, shaft_line_id=1)
        electric.append(pti_pto)
        mechanical.append(pti_pto)
    electric_system = ElectricPowerSystem("electric", electric, [])
    mechanical_system = MechanicalPropulsionSystem("mechanical", mechanical)
    if kind == "hybrid":
        system = HybridPropulsionSystem("hybrid", electric_system, mechanical_system)
    else:
        system = MechanicalPropulsionSystemWithElectricPowerSystem(
            "mechanical with electric", electric_system, mechanical_system)
    hotel.set_power_input_from_output(np.array([50.0, 250.0, 100.0, 280.0, 60.0, 200.0]))
    genset.status = np.ones(N, dtype=bool)
    propeller.set_power_input_from_output(np.array([500.0, 2500.0, 800.0, 2000.0, 600.0, 2800.0]))
    main_engine.status = np.ones(N, dtype=bool)
    if pti_pto is not None:
        pti_pto.status = np.ones(N, dtype=bool)
        pti_pto.load_sharing_mode = np.ones(N)
        pti_pto.full_pti_mode = np.zeros(N, dtype=bool)
        pti_pto.set_power_input_from_output(np.array([100.0, -100.0, 50.0, 0.0, 20.0, -30.0]))
    return system


def figures(res):
    out = {}
    for fuel in res.multi_fuel_consumption_total_kg.fuels:
        key = f"fuel {fuel.fuel_type.name} [kg]"
        out[key] = out.get(key, 0.0) + fuel.mass_or_mass_fraction
    out["CO2eq tank-to-wake [kg]"] = res.co2_emission_total_kg.tank_to_wake_kg_or_gco2eq_per_gfuel
    for species, value in (res.total_emission_kg or {}).items():
        out[f"{species.name} [kg]"] = value
    out["propulsion energy [MJ]"] = res.energy_consumption_propulsion_total_mj
    out["auxiliary energy [MJ]"] = res.energy_consumption_auxiliary_total_mj
    return out


def node_sum(system):
    """Sum over the switchboards and the shaft lines on the time base the system holds"""
    total = {}
    for switchboard in system.electric_system.switchboards.values():
        res = switchboard.get_fuel_energy_consumption_running_time(
            system.time_interval_s, system.integration_method)
        for key, value in figures(res).items():
            total[key] = total.get(key, 0.0) + value
    for shaft_line in system.mechanical_system.shaft_line:
        res = shaft_line.get_fuel_calculation_running_hours(
            system.time_interval_s, system.integration_method)
        for key, value in figures(res).items():
            total[key] = total.get(key, 0.0) + value
    return total


def system_total(result):
    total = {}
    for res in (result.electric_system, result.mechanical_system):
        for key, value in figures(res).items():
            total[key] = total.get(key, 0.0) + value
    return total


def compare(label, total, nodes):
    bad = False
    print(f"  {label}")
    for key in sorted(set(total) | set(nodes)):
        x, y = total.get(key, 0.0), nodes.get(key, 0.0)
        same = np.isclose(x, y, rtol=1e-9, atol=1e-12)
        bad |= not same
        print(f"    {key:26s} system {x:14.6f}   sum over nodes {y:14.6f}"
              f"{'' if same else f'   <-- {100 * (x - y) / y:+.2f} %'}")
    return bad


violated = False
for kind in ("hybrid", "mechanical with electric"):
    print(f"=== {kind}")
    system = build(kind)
    system.set_time_interval(DT, IntegrationMethod.trapezoid)
    system.do_power_balance_calculation()
    nodes = node_sum(system)
    print(f"  time base held by the system: {system.time_interval_s} s, {system.integration_method.name}; "
          f"by its electric system: {system.electric_system.integration_method.name}")
    # (a) the time interval only: the method that was set is not used
    result = system.get_fuel_energy_consumption_running_time(DT)
    violated |= compare("(a) get_fuel_energy_consumption_running_time(60.0)", system_total(result), nodes)
    print(f"      afterwards the system still says {system.integration_method.name}, its sub-systems say "
          f"{system.electric_system.integration_method.name} / {system.mechanical_system.integration_method.name}")
    # (b) the same positional call on both classes
    system.set_time_interval(DT, IntegrationMethod.trapezoid)
    result = system.get_fuel_energy_consumption_running_time(DT, IntegrationMethod.trapezoid)
    violated |= compare("(b) get_fuel_energy_consumption_running_time(60.0, IntegrationMethod.trapezoid)",
                        system_total(result), nodes)
    # (c) per-sample time intervals
    intervals = np.array([30.0, 60.0, 90.0, 30.0, 60.0, 90.0])
    system.set_time_interval(intervals, IntegrationMethod.sum_with_time)
    try:
        result = system.get_fuel_energy_consumption_running_time(intervals)
        violated |= compare("(c) per-sample intervals set with sum_with_time, then "
                            "get_fuel_energy_consumption_running_time(intervals)",
                            system_total(result), node_sum(system))
    except Exception as exc:  # noqa
        print(f"  (c) per-sample intervals set with sum_with_time, then "
              f"get_fuel_energy_consumption_running_time(intervals): REFUSED, "
              f"{type(exc).__name__}: {exc}")
        violated = True

if violated:
    print("VIOLATED: the totals of the combined system are not the sum over its switchboards and "
          "shaft lines on the time base it was given with set_time_interval.")
    sys.exit(1)
print("property holds")
sys.exit(0)
