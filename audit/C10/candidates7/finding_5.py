"""C10 finding 5 (lowest confidence - may be called a design decision) - with the public entry point
feems.runsimulation.run_simulation + EqualEngineSizeAllClosedSimulationInterface the totals of one
and the same plant and load series depend on the order in which the (equal-size) gensets were
listed when the system was built: the interface starts "the first n gensets" by list position, and
Switchboard.set_status_components_by_power_type hands the columns of the status table to the
components in list order. Two gensets of the same size but of different fuel kinds / emission
curves therefore swap roles when the list is permuted.

exit 1 = property violated, exit 0 = property holds
"""
import logging
import sys

import numpy as np

from feems.components_model.component_electric import ElectricComponent, ElectricMachine, Genset
from feems.components_model.component_mechanical import Engine
from feems.components_model.utility import IntegrationMethod
from feems.fuel import TypeFuel
from feems.runsimulation import EqualEngineSizeAllClosedSimulationInterface, run_simulation
from feems.system_model import ElectricPowerSystem
from feems.types_for_feems import (
    EmissionCurve,
    EmissionCurvePoint,
    EmissionType,
    TypeComponent,
    TypePower,
)

logging.disable(logging.CRITICAL)

BSFC = np.array([[0.25, 220.0], [0.5, 200.0], [0.75, 190.0], [1.0, 195.0]])
EFF = np.array([[0.25, 0.90], [0.5, 0.94], [0.75, 0.96], [1.0, 0.965]])
CO = EmissionCurve(
    points_per_kwh=[EmissionCurvePoint(0.25, 3.0), EmissionCurvePoint(0.5, 2.0),
                    EmissionCurvePoint(1.0, 1.0)],
    emission=EmissionType.CO,
)


def genset(name, fuel, curves=None):
    engine = Engine(type_=TypeComponent.AUXILIARY_ENGINE, name=name + " engine", rated_power=1100.0,
                    rated_speed=900.0, bsfc_curve=BSFC, fuel_type=fuel, emissions_curves=curves)
    generator = ElectricMachine(type_=TypeComponent.GENERATOR, name=name + " generator",
                                rated_power=1000.0, rated_speed=900.0,
                                power_type=TypePower.POWER_SOURCE, switchboard_id=1, eff_curve=EFF)
    return Genset(name, engine, generator)


def totals(order):
    components = [
        genset("G diesel", TypeFuel.DIESEL),
        genset("G methanol", TypeFuel.METHANOL, [CO]),
        ElectricComponent(type_=TypeComponent.OTHER_LOAD, name="hotel", rated_power=900.0,
                          eff_curve=np.array([1.0]), power_type=TypePower.POWER_CONSUMER,
                          switchboard_id=1),
    ]
    components = [components[i] for i in order]
    system = ElectricPowerSystem("plant", components, [])
    hotel = next(c for c in components if c.name == "hotel")
    hotel.set_power_input_from_output(np.array([100.0, 300.0, 500.0, 700.0]))
    system.set_time_interval(600.0, IntegrationMethod.trapezoid)
    interface = EqualEngineSizeAllClosedSimulationInterface(
        swb2n_gensets={1: 2}, rated_power_gensets=1000.0, n_bus_ties=0,
        maximum_allowable_genset_load_percentage=0.8,
    )
    run_simulation(system, interface)
    res = system.get_fuel_energy_consumption_running_time()
    out = {
        f"fuel {fuel.fuel_type.name} [kg]": fuel.mass_or_mass_fraction
        for fuel in res.multi_fuel_consumption_total_kg.fuels
    }
    out["CO2eq tank-to-wake [kg]"] = res.co2_emission_total_kg.tank_to_wake_kg_or_gco2eq_per_gfuel
    for species, value in res.total_emission_kg.items():
        out[f"{species.name} [kg]"] = value
    out["genset running hours"] = res.running_hours_genset_total_hr
    return out


a = totals([0, 1, 2])
b = totals([1, 0, 2])
violated = False
print(f"{'total':28s} {'listed diesel, methanol':>24s} {'listed methanol, diesel':>24s}")
for key in sorted(set(a) | set(b)):
    x, y = a.get(key, 0.0), b.get(key, 0.0)
    same = np.isclose(x, y, rtol=1e-9, atol=1e-12)
    violated |= not same
    print(f"{key:28s} {x:24.6f} {y:24.6f} {'' if same else '  <-- differs'}")
if violated:
    print("VIOLATED: the totals depend on the order of the component list.")
    sys.exit(1)
print("property holds")
sys.exit(0)
