"""C10 finding 3: with IMO fuel factors the totals of a plant with several fuel kinds are refused
when one LNG engine carries EngineCycleType.NONE.

EngineCycleType.NONE (value 0) is a legal member of the enum and is what the protobuf converter
(MachSysS.convert_to_feems) hands to Engine() when the message leaves engine_cycle_type unset.
With FuelSpecifiedBy.IMO the greenhouse-gas factor of a fuel does not depend on the consumer class
(FuelByMassFraction.get_kg_co2_per_kg_fuel sets fuel_consumer_class = None for IMO), the fuel
flow, the NOx figure and the running hours of the engine are all computable - and for every other
cycle type the IMO totals are identical.  Nevertheless
get_fuel_emission_energy_balance_for_component() evaluates
component.aux_engine.fuel_consumer_type_fuel_eu_maritime unconditionally, and that property raises
ValueError for an LNG engine of cycle type NONE.  The whole system total is lost.

Property C10: the totals reported for a system equal the sums of the per-component figures, for
all plants with several fuel kinds.  Here the per-component figures exist, the total does not.
Exit status 1 = violated.
"""
import logging
import sys

import numpy as np

logging.disable(logging.CRITICAL)

from feems.components_model import Engine, ElectricMachine, Genset, ElectricComponent
from feems.components_model.utility import IntegrationMethod, integrate_multi_fuel_consumption
from feems.fuel import TypeFuel, FuelSpecifiedBy
from feems.system_model import ElectricPowerSystem
from feems.types_for_feems import TypeComponent, TypePower, NOxCalculationMethod, EngineCycleType

N = 4
DT = 60.0
BSFC = np.array([[1.00, 0.75, 0.50, 0.25, 0.10], [193.66, 188.995, 194.47, 211.4, 250]]).T


def genset(name, fuel, cycle):
    engine = Engine(
        type_=TypeComponent.AUXILIARY_ENGINE,
        name=name + " engine",
        rated_power=1000,
        rated_speed=1500,
        bsfc_curve=BSFC,
        fuel_type=fuel,
        nox_calculation_method=NOxCalculationMethod.TIER_2,
        engine_cycle_type=cycle,
    )
    generator = ElectricMachine(
        type_=TypeComponent.GENERATOR,
        name=name + " generator",
        rated_power=1000,
        rated_speed=1500,
        power_type=TypePower.POWER_SOURCE,
        switchboard_id=1,
        eff_curve=np.array([0.95]),
    )
    return Genset(name=name, aux_engine=engine, generator=generator)


def build(cycle_of_lng_engine):
    g1 = genset("g1", TypeFuel.DIESEL, EngineCycleType.DIESEL)
    g2 = genset("g2", TypeFuel.NATURAL_GAS, cycle_of_lng_engine)
    load = ElectricComponent(
        type_=TypeComponent.OTHER_LOAD,
        name="l1",
        power_type=TypePower.POWER_CONSUMER,
        rated_power=2000,
        eff_curve=np.array([1.0]),
        switchboard_id=1,
    )
    system = ElectricPowerSystem("plant", [g1, g2, load], [])
    load.set_power_input_from_output(np.linspace(200.0, 900.0, N))
    for source in system.power_sources:
        source.status = np.ones(N, dtype=bool)
        source.load_sharing_mode = np.zeros(N)
    system.set_time_interval(DT, IntegrationMethod.trapezoid)
    system.do_power_balance_calculation()
    return system, [g1, g2]


def fuel_by_kind(fuel_consumption):
    out = {}
    for fuel in fuel_consumption.fuels:
        key = (fuel.fuel_type.name, fuel.origin.name)
        out[key] = out.get(key, 0.0) + float(fuel.mass_or_mass_fraction)
    return out


# Reference: IMO totals for the cycle types that are accepted - they are all the same
reference = None
for cycle in (EngineCycleType.DIESEL, EngineCycleType.OTTO, EngineCycleType.LEAN_BURN_SPARK_IGNITION):
    system, _ = build(cycle)
    res = system.get_fuel_energy_consumption_running_time(fuel_specified_by=FuelSpecifiedBy.IMO)
    figures = (
        fuel_by_kind(res.multi_fuel_consumption_total_kg),
        round(float(res.co2_emission_total_kg.tank_to_wake_kg_or_gco2eq_per_gfuel), 9),
    )
    print(f"IMO, LNG engine cycle {cycle.name:26s}: {figures}")
    if reference is None:
        reference = figures
    assert figures == reference, "IMO totals should not depend on the cycle type"

# The plant under test
system, gensets = build(EngineCycleType.NONE)
per_component = {}
for g in gensets:  # the per-component figures are there
    run_point = g.get_fuel_cons_load_bsfc_from_power_out_generator_kw(
        fuel_specified_by=FuelSpecifiedBy.IMO
    )
    mass = integrate_multi_fuel_consumption(
        run_point.engine.fuel_flow_rate_kg_per_s, DT, IntegrationMethod.trapezoid
    )
    for key, value in fuel_by_kind(mass).items():
        per_component[key] = per_component.get(key, 0.0) + value
print(f"IMO, LNG engine cycle NONE: sum of the per-component fuel masses {per_component}")

try:
    res = system.get_fuel_energy_consumption_running_time(fuel_specified_by=FuelSpecifiedBy.IMO)
except Exception as exc:  # noqa
    print(f"IMO, LNG engine cycle NONE: system total REFUSED - {type(exc).__name__}: {exc}")
    print("C10 VIOLATED: the per-component figures exist and add up, the system total does not exist.")
    sys.exit(1)

total = fuel_by_kind(res.multi_fuel_consumption_total_kg)
print(f"IMO, LNG engine cycle NONE: system total {total}")
ok = all(abs(total.get(k, 0.0) - v) <= 1e-9 * max(1.0, abs(v)) for k, v in per_component.items())
if not ok:
    print("C10 VIOLATED: total differs from the sum of the components.")
    sys.exit(1)
print("C10 holds on this input.")
sys.exit(0)
