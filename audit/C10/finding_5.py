"""C10 finding 2 - a shaft line that lists its gearbox as a component of its own (the shape that
MachSysS.convert_to_feems builds and that the MechanicalPropulsionSystem docstring allows) cannot be
calculated for a load series: the system total / sum over shaft lines cannot be formed.

exit 1 = property violated (plant refused or totals differ), exit 0 = property holds
"""
import logging
import sys

import numpy as np

from feems.components_model.component_mechanical import (
    Engine,
    MainEngineForMechanicalPropulsion,
    MechanicalPropulsionComponent,
)
from feems.components_model.node import get_fuel_emission_energy_balance_for_component
from feems.components_model.utility import IntegrationMethod
from feems.system_model import MechanicalPropulsionSystem
from feems.types_for_feems import TypeComponent, TypePower

logging.disable(logging.CRITICAL)

BSFC = np.array([[0.25, 220.0], [0.5, 200.0], [0.75, 190.0], [1.0, 195.0]])


def build(with_gearbox: bool):
    engine = Engine(
        type_=TypeComponent.MAIN_ENGINE, name="ME engine", rated_power=3000.0, rated_speed=500.0,
        bsfc_curve=BSFC,
    )
    main_engine = MainEngineForMechanicalPropulsion("ME", engine, shaft_line_id=1)
    gearbox = MechanicalPropulsionComponent(
        type_=TypeComponent.GEARBOX, power_type=TypePower.POWER_TRANSMISSION, name="GB",
        rated_power=3000.0, eff_curve=np.array([0.98]), rated_speed=500.0, shaft_line_id=1,
    )
    propeller = MechanicalPropulsionComponent(
        type_=TypeComponent.PROPELLER_LOAD, power_type=TypePower.POWER_CONSUMER, name="P",
        rated_power=3000.0, eff_curve=np.array([1.0]), rated_speed=150.0, shaft_line_id=1,
    )
    components = [main_engine, gearbox, propeller] if with_gearbox else [main_engine, propeller]
    return MechanicalPropulsionSystem("mech", components), main_engine, propeller, components


def totals(with_gearbox: bool, n: int):
    system, main_engine, propeller, components = build(with_gearbox)
    propeller.set_power_input_from_output(np.linspace(500.0, 2500.0, n))
    main_engine.status = np.ones(n, dtype=bool)
    system.set_time_interval(60.0, IntegrationMethod.trapezoid)
    system.do_power_balance()
    res = system.get_fuel_energy_consumption_running_time()
    per_component = [
        get_fuel_emission_energy_balance_for_component(c, 60.0, IntegrationMethod.trapezoid)
        for c in components
        if c.power_type != TypePower.POWER_TRANSMISSION
    ]
    fuel_sum = sum(r.fuel_consumption_total_kg for r in per_component)
    prop_sum = sum(r.energy_consumption_propulsion_total_mj for r in per_component)
    ok = np.isclose(res.fuel_consumption_total_kg, fuel_sum) and np.isclose(
        res.energy_consumption_propulsion_total_mj, prop_sum
    )
    return res.fuel_consumption_total_kg, res.energy_consumption_propulsion_total_mj, ok


violated = False
for with_gearbox, n in [(False, 5), (True, 1), (True, 5)]:
    label = f"gearbox listed on the shaft line: {with_gearbox}, series length {n}"
    try:
        fuel, propulsion, ok = totals(with_gearbox, n)
        print(f"{label}: fuel {fuel:.4f} kg, propulsion energy {propulsion:.2f} MJ, "
              f"total == sum of component figures: {ok}")
        violated |= not ok
    except Exception as exc:  # noqa
        print(f"{label}: REFUSED with {type(exc).__name__}: {str(exc).splitlines()[0]}")
        for line in str(exc).splitlines()[1:]:
            print("      " + line)
        violated = True

if violated:
    print("VIOLATED: the plant with the gearbox listed on the shaft line is balanced for one sample "
          "but refused for a series (the idle gearbox keeps its single-value power input and is "
          "checked as if it were a load), so no totals can be formed for it.")
    sys.exit(1)
print("property holds")
sys.exit(0)
