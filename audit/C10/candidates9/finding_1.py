"""C10 finding 1: with the load-dependent start/stop table (run_simulation +
PmsLoadTableSimulationInterface, the default PMS of MachineryCalculation) the system totals
depend on the order in which three CONSUMERS were listed when the system was built.

The plant, the names, the load series, the statuses interface and the time base are the same in
every run; only the position of the three loads in the component list differs.  The bus load is
summed in listing order (Switchboard.get_sum_power_input_by_power_type, reached through
ElectricPowerSystem.get_sum_consumption_kw_sources_switchboard), so it is 800.0 kW in some
orders and 799.9999999999999 kW in others; 800 kW is a threshold of the start/stop table
(80 % of the 1000 kW set), np.digitize puts the two values into different rows, other
generating sets are started, and total fuel, CO2 and NOx differ by several per cent.

Exit status 1 = property violated (totals depend on the listing order), 0 = holds.
"""
import itertools
import logging
import sys
import warnings

import numpy as np

logging.disable(logging.CRITICAL)
warnings.filterwarnings("ignore")

from feems.components_model.component_electric import (  # noqa: E402
    ElectricComponent,
    ElectricMachine,
    Genset,
)
from feems.components_model.component_mechanical import Engine  # noqa: E402
from feems.components_model.utility import IntegrationMethod  # noqa: E402
from feems.fuel import TypeFuel  # noqa: E402
from feems.runsimulation import run_simulation  # noqa: E402
from feems.system_model import ElectricPowerSystem  # noqa: E402
from feems.types_for_feems import EmissionType, TypeComponent, TypePower  # noqa: E402
from RunFeemsSim.pms_basic import (  # noqa: E402
    PmsLoadTable,
    PmsLoadTableSimulationInterface,
    get_min_load_table_dict_from_feems_system,
)

BSFC = np.array([[0.25, 0.5, 0.75, 1.0], [280.0, 220.0, 200.0, 210.0]]).T
EFF_GEN = np.array([[1.0, 0.75, 0.5, 0.25], [0.9585, 0.9595, 0.9534, 0.9299]]).T


def genset(name, rated_kw, fuel):
    engine = Engine(
        type_=TypeComponent.AUXILIARY_ENGINE,
        name=name + " engine",
        rated_power=rated_kw * 1.05,
        rated_speed=900.0,
        bsfc_curve=BSFC,
        fuel_type=fuel,
    )
    generator = ElectricMachine(
        type_=TypeComponent.GENERATOR,
        name=name + " generator",
        rated_power=rated_kw,
        rated_speed=900.0,
        power_type=TypePower.POWER_SOURCE,
        switchboard_id=1,
        eff_curve=EFF_GEN,
    )
    return Genset(name, engine, generator)


def consumer(name):
    return ElectricComponent(
        type_=TypeComponent.OTHER_LOAD,
        name=name,
        rated_power=1000.0,
        eff_curve=np.array([1.0]),
        power_type=TypePower.POWER_CONSUMER,
        switchboard_id=1,
    )


# three one-decimal load series; in every sample the three values add up to 800 kW (samples 0, 1)
# or to 60 kW (sample 2)
LOADS_KW = {
    "hotel": np.array([94.9, 354.2, 10.0]),
    "pumps": np.array([596.8, 262.4, 20.0]),
    "hvac": np.array([108.3, 183.4, 30.0]),
}


def totals_for(order):
    components = [genset("genset 1", 1000.0, TypeFuel.DIESEL), genset("genset 2", 1500.0, TypeFuel.HFO)]
    components += [consumer(name) for name in order]
    system = ElectricPowerSystem("plant", components, [])
    for component in components:
        if component.name in LOADS_KW:
            component.set_power_input_from_output(LOADS_KW[component.name])
    system.set_time_interval(np.full(3, 3600.0), IntegrationMethod.sum_with_time)
    table = PmsLoadTable(get_min_load_table_dict_from_feems_system(system, 80))
    pms = PmsLoadTableSimulationInterface(n_bus_ties=0, pms_load_table=table)
    run_simulation(system, pms)
    result = system.get_fuel_energy_consumption_running_time()
    fuel = {
        f"{f.fuel_type.name}/{f.origin.name}": float(f.mass_or_mass_fraction)
        for f in result.multi_fuel_consumption_total_kg.fuels
    }
    status = {c.name: c.status.astype(int).tolist() for c in system.power_sources}
    return {
        "fuel_total_kg": float(result.fuel_consumption_total_kg),
        "fuel_by_kind_kg": fuel,
        "co2_ttw_kg": float(result.co2_emission_total_kg.tank_to_wake_kg_or_gco2eq_per_gfuel),
        "nox_kg": float(result.total_emission_kg[EmissionType.NOX]),
        "status": status,
    }


def main():
    results = {}
    for order in itertools.permutations(LOADS_KW):
        results[order] = totals_for(order)
        r = results[order]
        print(
            f"consumers listed as {order}: fuel {r['fuel_total_kg']:.3f} kg "
            f"{ {k: round(v, 3) for k, v in r['fuel_by_kind_kg'].items()} }, "
            f"CO2 TtW {r['co2_ttw_kg']:.2f} kg, NOx {r['nox_kg']:.3f} kg, on/off {r['status']}"
        )
    reference = next(iter(results.values()))
    violated = False
    for order, r in results.items():
        for key in ("fuel_total_kg", "co2_ttw_kg", "nox_kg"):
            if not np.isclose(r[key], reference[key], rtol=1e-9, atol=1e-9):
                violated = True
    fuels = [r["fuel_total_kg"] for r in results.values()]
    if violated:
        print(
            f"VIOLATED: the same plant with the same load series burns between {min(fuels):.3f} and "
            f"{max(fuels):.3f} kg ({(max(fuels) / min(fuels) - 1) * 100:.1f} % apart) depending only on "
            f"the order in which the three consumers were listed."
        )
        return 1
    print("holds: totals are the same for every listing order")
    return 0


if __name__ == "__main__":
    sys.exit(main())
