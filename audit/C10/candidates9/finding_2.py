"""C10 finding 2: the running hours of the generating sets (and, on a shaft line, of the main
engines) depend on the order in which the CONSUMERS were listed when the system was built.

Zero-emission operation: a battery in given-power mode delivers exactly the consumer load
(its power is -(hotel + pumps + hvac), computed once by the caller); the generating set is
connected and shares whatever is left, i.e. nothing.  The switchboard adds the consumers in
listing order, so "what is left" is exactly 0.0 kW in some orders and +-1e-14 kW in others, and
the running hours count every sample whose power is != 0: 0 h, 1 h or 3 h for the same plant and
the same series.  (The root - running hours test power != 0 exactly - is a known item; what is
reported here is its consequence for the order clause of C10, which needs no unusual input
beyond a storage unit or PTI/PTO that covers the load.)  The same happens on a shaft line whose
PTI/PTO delivers exactly the shaft load (part B).

Exit status 1 = property violated (totals depend on the listing order), 0 = holds.
"""
import itertools
import logging
import sys
import warnings

import numpy as np

logging.disable(logging.CRITICAL)
warnings.filterwarnings("ignore")

from feems.components_model.component_electric import (  # noqa: E402
    PTIPTO,
    Battery,
    BatterySystem,
    ElectricComponent,
    ElectricMachine,
    Genset,
)
from feems.components_model.component_mechanical import (  # noqa: E402
    Engine,
    MainEngineForMechanicalPropulsion,
    MechanicalPropulsionComponent,
)
from feems.components_model.utility import IntegrationMethod  # noqa: E402
from feems.system_model import ElectricPowerSystem, MechanicalPropulsionSystem  # noqa: E402
from feems.types_for_feems import TypeComponent, TypePower  # noqa: E402

BSFC = np.array([[0.25, 0.5, 0.75, 1.0], [280.0, 220.0, 200.0, 210.0]]).T
EFF_GEN = np.array([[1.0, 0.75, 0.5, 0.25], [0.9585, 0.9595, 0.9534, 0.9299]]).T
EFF_CONV = np.array([[1.0, 0.75, 0.5, 0.25], [0.98, 0.972, 0.97, 0.96]]).T
N = 4
LOADS_KW = {
    "hotel": np.array([0.1, 100.3, 57.7, 12.1]),
    "pumps": np.array([0.2, 200.6, 33.1, 7.3]),
    "hvac": np.array([0.3, 50.9, 81.9, 5.9]),
}
TOTAL_KW = LOADS_KW["hotel"] + LOADS_KW["pumps"] + LOADS_KW["hvac"]
HOUR = np.full(N, 3600.0)


def electric(order):
    engine = Engine(
        type_=TypeComponent.AUXILIARY_ENGINE,
        name="engine",
        rated_power=1050.0,
        rated_speed=900.0,
        bsfc_curve=BSFC,
    )
    generator = ElectricMachine(
        type_=TypeComponent.GENERATOR,
        name="generator",
        rated_power=1000.0,
        rated_speed=900.0,
        power_type=TypePower.POWER_SOURCE,
        switchboard_id=1,
        eff_curve=EFF_GEN,
    )
    genset = Genset("genset", engine, generator)
    battery = BatterySystem("battery", Battery("cells", 1000.0, 1.0, 1.0, switchboard_id=1), None, 1)
    consumers = [
        ElectricComponent(
            type_=TypeComponent.OTHER_LOAD,
            name=name,
            rated_power=1000.0,
            eff_curve=np.array([1.0]),
            power_type=TypePower.POWER_CONSUMER,
            switchboard_id=1,
        )
        for name in order
    ]
    system = ElectricPowerSystem("plant", [genset, battery] + consumers, [])
    for c in consumers:
        c.set_power_input_from_output(LOADS_KW[c.name])
    genset.status = np.ones(N, dtype=bool)
    genset.load_sharing_mode = np.zeros(N)
    battery.status = np.ones(N, dtype=bool)
    battery.load_sharing_mode = np.ones(N)  # given power
    battery.set_power_output_from_input(-TOTAL_KW)  # discharges exactly the consumer load
    system.set_time_interval(HOUR, IntegrationMethod.sum_with_time)
    system.do_power_balance_calculation()
    result = system.get_fuel_energy_consumption_running_time()
    return result.running_hours_genset_total_hr, genset.power_output


def shaft(order):
    engine = Engine(
        type_=TypeComponent.MAIN_ENGINE,
        name="engine",
        rated_power=4000.0,
        rated_speed=500.0,
        bsfc_curve=BSFC,
    )
    main_engine = MainEngineForMechanicalPropulsion("main engine", engine, 1)
    p = 1000.0
    members = [
        ElectricComponent(type_=TypeComponent.TRANSFORMER, name="t", rated_power=p,
                          eff_curve=np.array([0.99]), power_type=TypePower.POWER_TRANSMISSION),
        ElectricComponent(type_=TypeComponent.INVERTER, name="i", rated_power=p,
                          eff_curve=EFF_CONV, power_type=TypePower.POWER_TRANSMISSION),
        ElectricMachine(type_=TypeComponent.SYNCHRONOUS_MACHINE, name="m", rated_power=p,
                        rated_speed=900.0, eff_curve=EFF_GEN, power_type=TypePower.PTI_PTO),
    ]
    pti = PTIPTO("pti", members, 1, p, 900.0, 1)
    loads = [
        MechanicalPropulsionComponent(
            TypeComponent.PROPELLER_LOAD if name == "hotel" else TypeComponent.OTHER_MECHANICAL_LOAD,
            TypePower.POWER_CONSUMER, name, 4000.0, np.array([1.0]), 100.0, 1,
        )
        for name in order
    ]
    system = MechanicalPropulsionSystem("shaft", [main_engine, pti] + loads)
    for c in loads:
        c.set_power_input_from_output(LOADS_KW[c.name])
    main_engine.status = np.ones(N, dtype=bool)
    pti.status = np.ones(N, dtype=bool)
    pti.full_pti_mode = np.zeros(N, dtype=bool)
    pti.set_power_input_from_output(TOTAL_KW)  # the motor delivers exactly the shaft load
    system.set_time_interval(HOUR, IntegrationMethod.sum_with_time)
    system.do_power_balance()
    result = system.get_fuel_energy_consumption_running_time()
    return result.running_hours_main_engines_hr, main_engine.power_output


def main():
    violated = False
    for title, run in (("A: switchboard, battery covers the load", electric),
                       ("B: shaft line, PTI covers the load", shaft)):
        print(title)
        hours = {}
        for order in itertools.permutations(LOADS_KW):
            hours[order], power = run(order)
            print(f"  consumers listed as {order}: running hours {float(hours[order]):.1f} h, "
                  f"power series {np.array2string(np.asarray(power, dtype=float), precision=2)}")
        values = [float(v) for v in hours.values()]
        if max(values) - min(values) > 1e-6:
            violated = True
            print(f"  -> running hours between {min(values):.1f} h and {max(values):.1f} h for the same "
                  f"plant and series, depending on the listing order only")
    if violated:
        print("VIOLATED: running hours per machine class depend on the order of the component list")
        return 1
    print("holds: running hours are the same for every listing order")
    return 0


if __name__ == "__main__":
    sys.exit(main())
