"""C10 finding 2: the genset running hours of the plant are 0 h, 1 h or 2 h depending on the order
in which three consumers are listed.

One switchboard: genset g1 (connected, equal load sharing), battery b1 in given-power mode, three
consumers l1, l2, l3 with four hourly samples each.  The operator lets the battery carry the whole
consumer load: its terminal power is set to -(l1 + l2 + l3).  The gensets have nothing to deliver.

Switchboard.get_sum_power_input_by_power_type() adds the consumers in the order of the component
list; in floating point (l1 + l2) + l3 and (l2 + l3) + l1 differ in the last bit, so for some
orders the net bus load is not 0 but +-1e-13 kW.  The genset then "delivers" 1e-13 kW and
get_fuel_emission_energy_balance_for_component() counts running time wherever
power_output != 0 exactly.  A rounding error of 1e-13 kW becomes whole running hours
(and a fuel mass that is negative in one order).

Property C10: the totals (running hours per machine class among them) do not depend on the order
in which the components were listed.  The per-component sum equals the total in every order; it is
the order clause that fails.  Exit status 1 = violated.
"""
import itertools
import logging
import sys

import numpy as np

logging.disable(logging.CRITICAL)

from feems.components_model import Engine, ElectricMachine, Genset, ElectricComponent, Battery
from feems.components_model.node import get_fuel_emission_energy_balance_for_component
from feems.components_model.utility import IntegrationMethod
from feems.system_model import ElectricPowerSystem
from feems.types_for_feems import TypeComponent, TypePower, NOxCalculationMethod

N = 4
BSFC = np.array([[1.00, 0.75, 0.50, 0.25, 0.10], [193.66, 188.995, 194.47, 211.4, 250]]).T
LOADS = {
    "l1": np.array([100.1, 0.1, 250.3, 80.7]),
    "l2": np.array([200.2, 0.2, 120.9, 33.3]),
    "l3": np.array([300.3, 0.3, 77.7, 12.1]),
}
TOTAL_LOAD = LOADS["l1"] + LOADS["l2"] + LOADS["l3"]  # what the operator hands to the battery


def build(order):
    engine = Engine(
        type_=TypeComponent.AUXILIARY_ENGINE,
        name="engine",
        rated_power=1000,
        rated_speed=1500,
        bsfc_curve=BSFC,
        nox_calculation_method=NOxCalculationMethod.TIER_2,
    )
    generator = ElectricMachine(
        type_=TypeComponent.GENERATOR,
        name="generator",
        rated_power=1000,
        rated_speed=1500,
        power_type=TypePower.POWER_SOURCE,
        switchboard_id=1,
        eff_curve=np.array([0.95]),
    )
    parts = {
        "g1": Genset(name="g1", aux_engine=engine, generator=generator),
        "b1": Battery(
            name="b1", rated_capacity_kwh=2000, charging_rate_c=1, discharge_rate_c=1, switchboard_id=1
        ),
    }
    for name in LOADS:
        parts[name] = ElectricComponent(
            type_=TypeComponent.OTHER_LOAD,
            name=name,
            power_type=TypePower.POWER_CONSUMER,
            rated_power=2000,
            eff_curve=np.array([1.0]),
            switchboard_id=1,
        )
    components = [parts[k] for k in order]
    system = ElectricPowerSystem("plant", components, [])
    for name, series in LOADS.items():
        parts[name].set_power_input_from_output(series.copy())
    parts["g1"].status = np.ones(N, dtype=bool)
    parts["g1"].load_sharing_mode = np.zeros(N)
    parts["b1"].status = np.ones(N, dtype=bool)
    parts["b1"].load_sharing_mode = np.ones(N)  # given power
    parts["b1"].set_power_output_from_input(-TOTAL_LOAD)  # discharges the whole consumer load
    system.set_time_interval(3600.0, IntegrationMethod.trapezoid)
    system.do_power_balance_calculation()
    return system, components, parts


results = {}
sum_matches_everywhere = True
for perm in itertools.permutations(["l1", "l2", "l3"]):
    order = ["g1", "b1", *perm]
    system, components, parts = build(order)
    total = system.get_fuel_energy_consumption_running_time()
    hours_components = sum(
        get_fuel_emission_energy_balance_for_component(
            c, 3600.0, IntegrationMethod.trapezoid
        ).running_hours_genset_total_hr
        for c in components
    )
    if abs(hours_components - total.running_hours_genset_total_hr) > 1e-12:
        sum_matches_everywhere = False
    results[perm] = (
        float(total.running_hours_genset_total_hr),
        float(total.fuel_consumption_total_kg),
        parts["g1"].power_output.copy(),
    )
    print(
        f"consumers listed {perm}: genset running hours {results[perm][0]:.1f} h "
        f"(sum of components {hours_components:.1f} h), fuel {results[perm][1]: .3e} kg, "
        f"genset power {results[perm][2]}"
    )

hours = sorted({v[0] for v in results.values()})
print(f"\nsum of per-component running hours equals the total in every order: {sum_matches_everywhere}")
print(f"distinct genset running-hour totals over the 6 listing orders: {hours}")
if len(hours) > 1 or not sum_matches_everywhere:
    print("C10 VIOLATED: the running hours of the gensets depend on the order of the component list.")
    sys.exit(1)
print("C10 holds on this input.")
sys.exit(0)
