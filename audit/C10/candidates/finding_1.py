"""C10 finding 1: the system total exists or not depending on where an idle consumer is listed.

Two switchboards joined by a closed bus tie.  Switchboard 1: genset g1 + load l1 (5-step series).
Switchboard 2: genset g2 + load l2, and l2 is not used in this scenario (its power input is left
at the constructor default, one zero; giving it as np.zeros(1) or 0.0 behaves the same).  The power
balance accepts this (the code says "Allow scalars").

Switchboard.get_fuel_energy_consumption_running_time() takes the number of steps - and from it the
duration - from the component that happens to be listed LAST on the switchboard.  Listed
[..., l2, g2] the duration of switchboard 2 is 5 x 60 s, listed [..., g2, l2] it is 1 x 60 s, and
then ElectricPowerSystem.get_fuel_energy_consumption_running_time() dies in
FEEMSResult.sum_with_freeze_duration with an AssertionError: no system total at all.

Property C10: the totals do not depend on the order in which the components were listed, and the
system total equals the sum over its switchboards.  Exit status 1 = violated.
"""
import itertools
import logging
import sys

import numpy as np

logging.disable(logging.CRITICAL)

from feems.components_model import Engine, ElectricMachine, Genset, ElectricComponent
from feems.components_model.utility import IntegrationMethod
from feems.fuel import TypeFuel
from feems.system_model import ElectricPowerSystem
from feems.types_for_feems import TypeComponent, TypePower, NOxCalculationMethod

N = 5
BSFC = np.array([[1.00, 0.75, 0.50, 0.25, 0.10], [193.66, 188.995, 194.47, 211.4, 250]]).T


def genset(name, swb, fuel):
    engine = Engine(
        type_=TypeComponent.AUXILIARY_ENGINE,
        name=name + " engine",
        rated_power=1000,
        rated_speed=1500,
        bsfc_curve=BSFC,
        fuel_type=fuel,
        nox_calculation_method=NOxCalculationMethod.TIER_2,
    )
    generator = ElectricMachine(
        type_=TypeComponent.GENERATOR,
        name=name + " generator",
        rated_power=1000,
        rated_speed=1500,
        power_type=TypePower.POWER_SOURCE,
        switchboard_id=swb,
        eff_curve=np.array([0.95]),
    )
    return Genset(name=name, aux_engine=engine, generator=generator)


def load(name, swb):
    return ElectricComponent(
        type_=TypeComponent.OTHER_LOAD,
        name=name,
        power_type=TypePower.POWER_CONSUMER,
        rated_power=2000,
        eff_curve=np.array([1.0]),
        switchboard_id=swb,
    )


def run(order):
    parts = {
        "g1": genset("g1", 1, TypeFuel.DIESEL),
        "l1": load("l1", 1),
        "g2": genset("g2", 2, TypeFuel.HFO),
        "l2": load("l2", 2),
    }
    system = ElectricPowerSystem("plant", [parts[k] for k in order], [(1, 2)])
    parts["l1"].set_power_input_from_output(np.linspace(200.0, 800.0, N))
    # l2 is idle: nothing is set, the default power input np.array([0]) stays
    for source in system.power_sources:
        source.status = np.ones(N, dtype=bool)
        source.load_sharing_mode = np.zeros(N)
    system.set_time_interval(60.0, IntegrationMethod.simpson)
    system.do_power_balance_calculation()
    per_switchboard = {
        swb_id: swb.get_fuel_energy_consumption_running_time(
            time_interval_s=60.0, integration_method=IntegrationMethod.simpson
        )
        for swb_id, swb in system.switchboards.items()
    }
    fuel_sum_switchboards = float(
        sum(np.sum(r.fuel_consumption_total_kg) for r in per_switchboard.values())
    )
    durations = {k: r.duration_s for k, r in per_switchboard.items()}
    try:
        total = system.get_fuel_energy_consumption_running_time()
        fuel_total = float(total.fuel_consumption_total_kg)
        error = None
    except Exception as exc:  # noqa
        fuel_total = None
        error = f"{type(exc).__name__}: {exc}"
    return fuel_sum_switchboards, durations, fuel_total, error


outcomes = {}
for order in itertools.permutations(["g1", "l1", "g2", "l2"]):
    fuel_swb, durations, fuel_total, error = run(order)
    outcomes[order] = (fuel_swb, durations, fuel_total, error)

violated = False
reference = None
for order, (fuel_swb, durations, fuel_total, error) in outcomes.items():
    print(
        f"{'/'.join(order):12s} sum over switchboards {fuel_swb:9.5f} kg, durations {durations}, "
        f"system total {'%.5f kg' % fuel_total if fuel_total is not None else 'NONE <- ' + error}"
    )
    if fuel_total is None or abs(fuel_total - fuel_swb) > 1e-9:
        violated = True
    if reference is None and fuel_total is not None:
        reference = fuel_total
    if fuel_total is not None and reference is not None and abs(fuel_total - reference) > 1e-9:
        violated = True

n_fail = sum(1 for v in outcomes.values() if v[2] is None)
print(
    f"\n{n_fail} of {len(outcomes)} listing orders give no system total although the sum over the "
    f"switchboards is the same number in every order."
)
if violated:
    print("C10 VIOLATED: the system total depends on the order of the component list.")
    sys.exit(1)
print("C10 holds on this input.")
sys.exit(0)
