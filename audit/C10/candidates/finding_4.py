"""C10 finding 4: a plant that mixes engines with and without emission curves cannot be built when
the points of an emission curve are listed from high to low load.

BSFC and efficiency curves may be given in any order (get_efficiency_curve_from_points sorts them;
the BSFC tables in FEEMS' own tests run from 100 % down to 10 % load).  The points of an
EmissionCurve given in that same order are handed unsorted to scipy's PchipInterpolator by
get_emission_curve_from_points, and Engine() dies with
"ValueError: `x` must be strictly increasing sequence."  The same points listed from low to high
load are accepted and give the totals the property speaks about.

Property C10 is quantified over all plants mixing components with and without emission curves; an
EmissionCurve is a plain list of (load_ratio, g/kWh) points without a documented order.  The totals
of the plant must be the same whatever order the points of the curve are written in.
Exit status 1 = violated.
"""
import logging
import sys

import numpy as np

logging.disable(logging.CRITICAL)

from feems.components_model import Engine, ElectricMachine, Genset, ElectricComponent
from feems.components_model.node import get_fuel_emission_energy_balance_for_component
from feems.components_model.utility import IntegrationMethod
from feems.system_model import ElectricPowerSystem
from feems.types_for_feems import (
    TypeComponent,
    TypePower,
    NOxCalculationMethod,
    EmissionType,
    EmissionCurve,
    EmissionCurvePoint,
)

N = 4
DT = 60.0
# the load axis runs from 100 % down to 10 %, as in FEEMS' own test data
BSFC = np.array([[1.00, 0.75, 0.50, 0.25, 0.10], [193.66, 188.995, 194.47, 211.4, 250]]).T
CH4_POINTS = [(1.00, 3.0), (0.75, 3.5), (0.50, 5.0), (0.25, 8.0), (0.10, 12.0)]


def build(ch4_points):
    curve = EmissionCurve(
        points_per_kwh=[EmissionCurvePoint(load_ratio=x, emission_g_per_kwh=y) for x, y in ch4_points],
        emission=EmissionType.CH4,
    )
    engines = [
        Engine(  # with an emission curve
            type_=TypeComponent.AUXILIARY_ENGINE,
            name="engine 1",
            rated_power=1000,
            rated_speed=1500,
            bsfc_curve=BSFC,
            nox_calculation_method=NOxCalculationMethod.TIER_2,
            emissions_curves=[curve],
        ),
        Engine(  # without
            type_=TypeComponent.AUXILIARY_ENGINE,
            name="engine 2",
            rated_power=1000,
            rated_speed=1500,
            bsfc_curve=BSFC,
            nox_calculation_method=NOxCalculationMethod.TIER_2,
        ),
    ]
    components = []
    for i, engine in enumerate(engines, start=1):
        generator = ElectricMachine(
            type_=TypeComponent.GENERATOR,
            name=f"generator {i}",
            rated_power=1000,
            rated_speed=1500,
            power_type=TypePower.POWER_SOURCE,
            switchboard_id=1,
            eff_curve=np.array([0.95]),
        )
        components.append(Genset(name=f"g{i}", aux_engine=engine, generator=generator))
    load = ElectricComponent(
        type_=TypeComponent.OTHER_LOAD,
        name="l1",
        power_type=TypePower.POWER_CONSUMER,
        rated_power=2000,
        eff_curve=np.array([1.0]),
        switchboard_id=1,
    )
    components.append(load)
    system = ElectricPowerSystem("plant", components, [])
    load.set_power_input_from_output(np.linspace(200.0, 1500.0, N))
    for source in system.power_sources:
        source.status = np.ones(N, dtype=bool)
        source.load_sharing_mode = np.zeros(N)
    system.set_time_interval(DT, IntegrationMethod.trapezoid)
    system.do_power_balance_calculation()
    total = system.get_fuel_energy_consumption_running_time()
    per_component = {}
    for c in components:
        r = get_fuel_emission_energy_balance_for_component(c, DT, IntegrationMethod.trapezoid)
        for species, value in (r.total_emission_kg or {}).items():
            per_component[species] = per_component.get(species, 0.0) + value
    return dict(total.total_emission_kg), per_component


ascending, per_component = build(sorted(CH4_POINTS))
print("curve points listed 10 % -> 100 %: totals", {k.name: round(float(v), 6) for k, v in ascending.items()})
print("                                  sum of components", {k.name: round(float(v), 6) for k, v in per_component.items()})
try:
    descending, _ = build(CH4_POINTS)
except Exception as exc:  # noqa
    print(f"curve points listed 100 % -> 10 %: plant REFUSED - {type(exc).__name__}: {exc}")
    print("(the BSFC curve of the same engines is listed 100 % -> 10 % too and is accepted)")
    print("C10 VIOLATED: no totals for a plant whose emission curve is written from high to low load.")
    sys.exit(1)
print("curve points listed 100 % -> 10 %: totals", {k.name: round(float(v), 6) for k, v in descending.items()})
same = set(ascending) == set(descending) and all(
    abs(ascending[k] - descending[k]) <= 1e-9 * max(1.0, abs(ascending[k])) for k in ascending
)
if not same:
    print("C10 VIOLATED: the totals depend on the order of the curve points.")
    sys.exit(1)
print("C10 holds on this input.")
sys.exit(0)
