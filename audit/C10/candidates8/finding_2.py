"""C10 finding 2: EnergySource.set_remaining_capacity_from_feems_result (feems.simulation_interface)
rewrites the fuel totals of a system result that holds more than one fuel kind: the entry of ONE
kind (diesel, or natural gas) is overwritten with the total mass of ALL kinds, although the tank is
nowhere near empty and nothing had to be cut.

Plant: one dual-fuel generating set (natural gas + diesel pilot fuel) and one HFO generating set
feeding one consumer. The system result is handed to an LNG/diesel energy source with ample
capacity. The totals per fuel kind must still be the sums of the per-component figures.

Exit status 1: a total per fuel kind no longer equals the sum of the components (violated).
"""
import logging
import sys

import numpy as np

logging.disable(logging.CRITICAL)

from feems.components_model.component_electric import (
    ElectricComponent,
    ElectricMachine,
    Genset,
)
from feems.components_model.component_mechanical import Engine, EngineDualFuel
from feems.components_model.node import get_fuel_emission_energy_balance_for_component
from feems.components_model.utility import IntegrationMethod
from feems.fuel import TypeFuel, FuelOrigin
from feems.simulation_interface import EnergySource, EnergySourceType
from feems.system_model import ElectricPowerSystem
from feems.types_for_feems import TypeComponent, TypePower, EngineCycleType

BSFC = np.array([[0.25, 220.0], [0.5, 200.0], [0.75, 190.0], [1.0, 195.0]])
EFF = np.array([[0.25, 0.90], [0.5, 0.94], [0.75, 0.96], [1.0, 0.965]])


def generator(name):
    return ElectricMachine(
        type_=TypeComponent.GENERATOR,
        name=name,
        rated_power=1000.0,
        rated_speed=750.0,
        power_type=TypePower.POWER_SOURCE,
        switchboard_id=1,
        eff_curve=EFF,
    )


dual_fuel_engine = EngineDualFuel(
    type_=TypeComponent.AUXILIARY_ENGINE,
    name="DF engine",
    rated_power=1050.0,
    rated_speed=750.0,
    bsfc_curve=BSFC,
    fuel_type=TypeFuel.NATURAL_GAS,
    fuel_origin=FuelOrigin.FOSSIL,
    bspfc_curve=np.array([[0.25, 8.0], [0.5, 5.0], [1.0, 2.0]]),
    pilot_fuel_type=TypeFuel.DIESEL,
    pilot_fuel_origin=FuelOrigin.FOSSIL,
    engine_cycle_type=EngineCycleType.OTTO,
)
hfo_engine = Engine(
    type_=TypeComponent.AUXILIARY_ENGINE,
    name="HFO engine",
    rated_power=1050.0,
    rated_speed=750.0,
    bsfc_curve=BSFC,
    fuel_type=TypeFuel.HFO,
)
g1 = Genset("G1 dual fuel", dual_fuel_engine, generator("G1 generator"))
g2 = Genset("G2 HFO", hfo_engine, generator("G2 generator"))
load = ElectricComponent(
    type_=TypeComponent.OTHER_LOAD,
    name="hotel",
    rated_power=2000.0,
    eff_curve=np.array([0.97]),
    power_type=TypePower.POWER_CONSUMER,
    switchboard_id=1,
)
components = [g1, g2, load]
system = ElectricPowerSystem("plant", components, [])
n = 5
load.set_power_input_from_output(np.array([300.0, 500.0, 900.0, 400.0, 1200.0]))
g1.status = np.ones(n, dtype=bool)
g2.status = np.ones(n, dtype=bool)
system.set_time_interval(60.0, IntegrationMethod.trapezoid)
system.do_power_balance_calculation()
result = system.get_fuel_energy_consumption_running_time()


def per_kind(fuel_consumption):
    masses = {}
    for fuel in fuel_consumption.fuels:
        key = f"{fuel.fuel_type.name}/{fuel.origin.name}"
        masses[key] = masses.get(key, 0.0) + float(fuel.mass_or_mass_fraction)
    return masses


sum_of_components = {}
for component in components:
    res = get_fuel_emission_energy_balance_for_component(
        component, 60.0, IntegrationMethod.trapezoid
    )
    for key, mass in per_kind(res.multi_fuel_consumption_total_kg).items():
        sum_of_components[key] = sum_of_components.get(key, 0.0) + mass

before = per_kind(result.multi_fuel_consumption_total_kg)
tank = EnergySource(
    source_type=EnergySourceType.LNG_DIESEL,
    rated_capacity=1.0e6,
    unit="kg",
    remaining_capacity=1.0e6,
)
ratio, updated = tank.set_remaining_capacity_from_feems_result(
    result, ratio_energy_used_in_previous_source=0, is_last_energy_source=True
)
after = per_kind(updated.multi_fuel_consumption_total_kg)

print(f"tank: used {tank.consumption:.4f} kg of {tank.rated_capacity:.0f} kg, ratio returned {ratio}")
print(f"{'fuel kind':22s} {'sum of components':>18s} {'system total':>14s} {'after EnergySource':>20s}")
violated = False
for key in sorted(sum_of_components):
    s, b, a = sum_of_components[key], before.get(key, 0.0), after.get(key, 0.0)
    bad = abs(a - s) > 1e-9 * max(1.0, abs(s))
    violated |= bad
    print(f"{key:22s} {s:18.6f} {b:14.6f} {a:20.6f} {'<-- differs' if bad else ''}")
print(
    f"{'all kinds':22s} {sum(sum_of_components.values()):18.6f} "
    f"{sum(before.values()):14.6f} {float(updated.fuel_consumption_total_kg):20.6f}"
)
if violated:
    print(
        "VIOLATED: after the (ample) energy source has booked the result, a total per fuel kind "
        "is no longer the sum of the component figures"
    )
    sys.exit(1)
print("holds")
sys.exit(0)
