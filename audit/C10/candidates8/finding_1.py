"""C10 finding 1: with MachineryCalculation and its default start/stop table the system totals
depend on the order in which two equally rated generating sets were listed.

Two generating sets of the same rating on one switchboard: G1 burns diesel and has a CO curve,
G2 burns HFO and has no emission curve. The same load series is calculated for the component
lists [G1, G2, load, drive] and [G2, G1, load, drive].

Exit status 1: the totals differ (property violated); 0: they agree.
"""
import logging
import sys

import numpy as np
import pandas as pd

logging.disable(logging.CRITICAL)

from feems.components_model.component_electric import (
    ElectricComponent,
    ElectricMachine,
    Genset,
)
from feems.components_model.component_mechanical import Engine
from feems.fuel import TypeFuel, FuelOrigin
from feems.system_model import ElectricPowerSystem
from feems.types_for_feems import (
    TypeComponent,
    TypePower,
    EmissionType,
    EmissionCurve,
    EmissionCurvePoint,
)
from RunFeemsSim.machinery_calculation import MachineryCalculation

BSFC = np.array([[0.25, 220.0], [0.5, 200.0], [0.75, 190.0], [1.0, 195.0]])
EFF = np.array([[0.25, 0.90], [0.5, 0.94], [0.75, 0.96], [1.0, 0.965]])


def genset(name, fuel, curves):
    engine = Engine(
        type_=TypeComponent.AUXILIARY_ENGINE,
        name=name + " engine",
        rated_power=1050.0,
        rated_speed=750.0,
        bsfc_curve=BSFC,
        fuel_type=fuel,
        fuel_origin=FuelOrigin.FOSSIL,
        emissions_curves=curves,
    )
    generator = ElectricMachine(
        type_=TypeComponent.GENERATOR,
        name=name + " generator",
        rated_power=1000.0,
        rated_speed=750.0,
        power_type=TypePower.POWER_SOURCE,
        switchboard_id=1,
        eff_curve=EFF,
    )
    return Genset(name, engine, generator)


def components():
    co_curve = EmissionCurve(
        points_per_kwh=[
            EmissionCurvePoint(0.25, 2.0),
            EmissionCurvePoint(0.5, 1.5),
            EmissionCurvePoint(1.0, 1.2),
        ],
        emission=EmissionType.CO,
    )
    g1 = genset("G1", TypeFuel.DIESEL, [co_curve])
    g2 = genset("G2", TypeFuel.HFO, None)
    load = ElectricComponent(
        type_=TypeComponent.OTHER_LOAD,
        name="hotel",
        rated_power=2000.0,
        eff_curve=np.array([0.97]),
        power_type=TypePower.POWER_CONSUMER,
        switchboard_id=1,
    )
    drive = ElectricComponent(
        type_=TypeComponent.PROPULSION_DRIVE,
        name="drive",
        rated_power=2000.0,
        eff_curve=np.array([0.95]),
        power_type=TypePower.POWER_CONSUMER,
        switchboard_id=1,
    )
    return [g1, g2, load, drive]


def totals(order):
    comps = components()
    comps = [comps[i] for i in order]
    system = ElectricPowerSystem("plant", comps, [])
    calculation = MachineryCalculation(system, maximum_allowed_power_source_load_percentage=80)
    propulsion_power = pd.Series(
        index=np.arange(7) * 60.0, data=[300.0, 500.0, 900.0, 400.0, 1200.0, 300.0, 0.0]
    )
    result = calculation.calculate_machinery_system_output_from_propulsion_power_time_series(
        propulsion_power=propulsion_power, auxiliary_power_kw=100.0
    )
    figures = {
        f"fuel {fuel.fuel_type.name}": float(fuel.mass_or_mass_fraction)
        for fuel in result.multi_fuel_consumption_total_kg.fuels
    }
    figures["CO2eq tank-to-wake"] = float(
        result.co2_emission_total_kg.tank_to_wake_kg_or_gco2eq_per_gfuel
    )
    for species, mass in result.total_emission_kg.items():
        figures[f"emission {species.name}"] = float(mass)
    running = {
        c.name: np.asarray(c.status).astype(int).tolist()
        for c in comps
        if c.type == TypeComponent.GENSET
    }
    return figures, running


first, running_first = totals([0, 1, 2, 3])
second, running_second = totals([1, 0, 2, 3])
print("listed G1, G2: running", running_first)
print("listed G2, G1: running", running_second)
violated = False
for key in sorted(set(first) | set(second)):
    a, b = first.get(key, 0.0), second.get(key, 0.0)
    differs = abs(a - b) > 1e-9 * max(1.0, abs(a), abs(b))
    violated |= differs
    print(f"{key:24s} {a:14.6f} {b:14.6f} {'<-- differs' if differs else ''}")
if violated:
    print("VIOLATED: the system totals depend on the order of the component list")
    sys.exit(1)
print("holds: the totals are the same for both orders")
sys.exit(0)
