"""C10 finding 3 (sibling of the known consumer case, here on the source side): an electric machine
that feeds the bus as a POWER SOURCE and carries a machine label other than GENERATOR
(SYNCHRONOUS_MACHINE, INDUCTION_MACHINE, ELECTRIC_MOTOR ...) is accepted by ElectricPowerSystem and
takes its share in the power balance, but the system totals are then refused with a TypeError.
With the label GENERATOR the same machine gives totals that equal the sum of the components.

Exit status 1: the totals are refused for the valid plant (violated); 0: totals are returned and
equal the sums of the per-component figures.
"""
import logging
import sys

import numpy as np

logging.disable(logging.CRITICAL)

from feems.components_model.component_electric import (
    ElectricComponent,
    ElectricMachine,
    Genset,
)
from feems.components_model.component_mechanical import Engine
from feems.components_model.utility import IntegrationMethod
from feems.fuel import TypeFuel
from feems.system_model import ElectricPowerSystem
from feems.types_for_feems import TypeComponent, TypePower

BSFC = np.array([[0.25, 220.0], [0.5, 200.0], [0.75, 190.0], [1.0, 195.0]])
EFF = np.array([[0.25, 0.90], [0.5, 0.94], [0.75, 0.96], [1.0, 0.965]])


def run(label):
    engine = Engine(
        type_=TypeComponent.AUXILIARY_ENGINE,
        name="engine",
        rated_power=1050.0,
        rated_speed=750.0,
        bsfc_curve=BSFC,
        fuel_type=TypeFuel.DIESEL,
    )
    generator = ElectricMachine(
        type_=TypeComponent.GENERATOR,
        name="generator",
        rated_power=1000.0,
        rated_speed=750.0,
        power_type=TypePower.POWER_SOURCE,
        switchboard_id=1,
        eff_curve=EFF,
    )
    genset = Genset("G1", engine, generator)
    shaft_generator = ElectricMachine(
        type_=label,
        name="shaft generator",
        rated_power=500.0,
        rated_speed=100.0,
        power_type=TypePower.POWER_SOURCE,
        switchboard_id=1,
        eff_curve=EFF,
    )
    load = ElectricComponent(
        type_=TypeComponent.OTHER_LOAD,
        name="hotel",
        rated_power=1000.0,
        eff_curve=np.array([0.97]),
        power_type=TypePower.POWER_CONSUMER,
        switchboard_id=1,
    )
    system = ElectricPowerSystem("plant", [genset, shaft_generator, load], [])
    n = 4
    load.set_power_input_from_output(np.array([100.0, 200.0, 300.0, 150.0]))
    genset.status = np.ones(n, dtype=bool)
    shaft_generator.status = np.ones(n, dtype=bool)
    system.set_time_interval(60.0, IntegrationMethod.trapezoid)
    system.do_power_balance_calculation()
    print(f"  balanced: G1 {np.round(genset.power_output, 1)}, "
          f"shaft generator {np.round(shaft_generator.power_output, 1)}")
    result = system.get_fuel_energy_consumption_running_time()
    return result


violated = False
for label in [TypeComponent.GENERATOR, TypeComponent.SYNCHRONOUS_MACHINE]:
    print(f"source machine labelled {label.name}:")
    try:
        # [verdict adjusted when the script was promoted: since repo 364c0aa a machine with this label is refused as a power source when
        #  the plant is built - then there is no accepted, balanced plant without totals, and the property is not concerned]
        try:
            res = run(label)
        except TypeError as error:
            if "specified to be power source" in str(error):
                print(f"  plant refused at construction: {error}")
                continue
            raise
        print(
            f"  totals: fuel {float(res.fuel_consumption_total_kg):.4f} kg, "
            f"generating hours {res.running_hours_genset_total_hr:.4f} h, "
            f"auxiliary energy {res.energy_consumption_auxiliary_total_mj:.3f} MJ"
        )
    except TypeError as error:
        print(f"  totals refused: TypeError: {error}")
        violated = True
if violated:
    print("VIOLATED: a plant that is accepted and balanced has no system totals")
    sys.exit(1)
print("holds")
sys.exit(0)
