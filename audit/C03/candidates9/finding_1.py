"""C03 finding 1: a fixed share / an on-off flag / a sharing mode stated as ONE plain number
(python number, numpy scalar or 0-d array) is refused, although the same value held in a
one-element array is accepted and gives the result the property demands.

Plant: one switchboard, two generating sets (1000 kW, 500 kW), one battery (400 kW), one load.
Input: g1 is given the fixed share 0.5 (g1.load_sharing_mode = 0.5), the battery is put in
given-power mode (b.load_sharing_mode = 1, power 0), everything else is constant.
Property: g1 delivers exactly 0.5 * 1000 kW, g2 (the only equal-sharing unit) takes the rest.
"""
import logging
import sys

import numpy as np

logging.disable(logging.CRITICAL)
from feems.components_model.component_electric import (
    Battery,
    ElectricComponent,
    ElectricMachine,
    Genset,
)
from feems.components_model.component_mechanical import Engine
from feems.components_model.utility import IntegrationMethod
from feems.system_model import ElectricPowerSystem
from feems.types_for_feems import TypeComponent, TypePower

EFF = np.array([[1.0, 0.75, 0.5, 0.25], [0.9585, 0.9596, 0.9534, 0.9299]]).T
BSFC = np.array([[1.0, 0.75, 0.5, 0.25, 0.1], [190.0, 185.0, 195.0, 210.0, 250.0]]).T


def genset(name, p, swb):
    e = Engine(
        type_=TypeComponent.AUXILIARY_ENGINE,
        name=name + " engine",
        rated_power=p * 1.1,
        rated_speed=1000,
        bsfc_curve=BSFC,
    )
    g = ElectricMachine(
        type_=TypeComponent.GENERATOR,
        name=name + " generator",
        rated_power=p,
        rated_speed=1000,
        power_type=TypePower.POWER_SOURCE,
        switchboard_id=swb,
        eff_curve=EFF,
    )
    return Genset(name, e, g)


def build():
    g1, g2 = genset("g1", 1000, 1), genset("g2", 500, 1)
    b = Battery("b", rated_capacity_kwh=400, charging_rate_c=1, discharge_rate_c=1, switchboard_id=1)
    load = ElectricComponent(
        type_=TypeComponent.OTHER_LOAD,
        name="load",
        rated_power=2000,
        eff_curve=np.array([1.0]),
        power_type=TypePower.POWER_CONSUMER,
        switchboard_id=1,
    )
    system = ElectricPowerSystem("plant", [g1, g2, b, load], [])
    system.set_time_interval(60.0, IntegrationMethod.sum_with_time)
    load.set_power_input_from_output(np.array([700.0]))
    g1.status = np.array([True])
    g2.status = np.array([True])
    b.status = np.array([True])
    return system, g1, g2, b


def holds(g1, g2, b):
    return (
        np.allclose(g1.power_output, 0.5 * 1000.0, rtol=0, atol=1e-9)
        and np.allclose(g2.power_output, 700.0 - 500.0, rtol=0, atol=1e-9)
        and np.allclose(b.power_input, 0.0)
    )


violations = []

# reference: the same values held in one-element arrays
system, g1, g2, b = build()
g1.load_sharing_mode = np.array([0.5])
b.load_sharing_mode = np.array([1])
b.power_input = np.array([0.0])
system.do_power_balance_calculation()
print("one-element arrays: g1", g1.power_output, "g2", g2.power_output, "holds:", holds(g1, g2, b))
if not holds(g1, g2, b):
    violations.append("reference")

cases = {
    "fixed share of a source as python float": lambda g1, g2, b: setattr(g1, "load_sharing_mode", 0.5),
    "fixed share of a source as numpy scalar": lambda g1, g2, b: setattr(
        g1, "load_sharing_mode", np.float64(0.5)
    ),
    "fixed share of a source as 0-d array": lambda g1, g2, b: setattr(
        g1, "load_sharing_mode", np.array(0.5)
    ),
    "sharing mode of a storage unit as python int": lambda g1, g2, b: (
        setattr(g1, "load_sharing_mode", np.array([0.5])),
        setattr(b, "load_sharing_mode", 1),
    ),
    "status of a source as python bool": lambda g1, g2, b: (
        setattr(g1, "load_sharing_mode", np.array([0.5])),
        setattr(g2, "status", True),
    ),
    "status of a storage unit as 0-d array": lambda g1, g2, b: (
        setattr(g1, "load_sharing_mode", np.array([0.5])),
        setattr(b, "status", np.array(True)),
    ),
}
for label, assign in cases.items():
    system, g1, g2, b = build()
    g1.load_sharing_mode = np.array([0.5])
    b.load_sharing_mode = np.array([1])
    b.power_input = np.array([0.0])
    assign(g1, g2, b)
    try:
        system.do_power_balance_calculation()
        ok = holds(g1, g2, b)
        print(f"{label}: g1 {g1.power_output} g2 {g2.power_output} holds: {ok}")
    except Exception as exc:  # noqa: BLE001
        ok = False
        print(f"{label}: REFUSED with {type(exc).__name__}: {exc}")
    if not ok:
        violations.append(label)

if violations:
    print("\nVIOLATED for:", "; ".join(violations))
    sys.exit(1)
print("\nproperty holds")
sys.exit(0)
