"""C03 finding 2 (borderline, see findings.txt): in a hybrid plant a PTI/PTO that is switched off
(status False) at a step that is also flagged full PTI mode takes power from the bus and drives
the shaft although it is off. The user never gave it a power (its load sharing mode is the
default 0); HybridPropulsionSystem puts it in given-power mode itself and the shaft balance
assigns the power without looking at the status.

Plant: switchboard 1 with generating sets 1000 kW and 500 kW and a 300 kW load; shaft line 1 with
a 3000 kW main engine, a 600 kW PTI/PTO on switchboard 1 and a propeller taking 300 kW.
Three steps; PTI/PTO status [on, off, off], full PTI flags [no, no, yes].
Property clause: 'a source that is switched off delivers nothing' -> at steps 2 and 3 the PTI/PTO
has zero electric and zero shaft power.
"""
import logging
import sys

import numpy as np

logging.disable(logging.CRITICAL)
from feems.components_model.component_electric import (
    ElectricComponent,
    ElectricMachine,
    Genset,
    PTIPTO,
)
from feems.components_model.component_mechanical import (
    Engine,
    MainEngineForMechanicalPropulsion,
    MechanicalPropulsionComponent,
)
from feems.components_model.utility import IntegrationMethod
from feems.system_model import (
    ElectricPowerSystem,
    HybridPropulsionSystem,
    MechanicalPropulsionSystem,
)
from feems.types_for_feems import TypeComponent, TypePower

EFF = np.array([[1.0, 0.75, 0.5, 0.25], [0.9585, 0.9596, 0.9534, 0.9299]]).T
CONV = np.array([[1.0, 0.75, 0.5, 0.25], [0.98, 0.972, 0.97, 0.96]]).T
BSFC = np.array([[1.0, 0.75, 0.5, 0.25, 0.1], [190.0, 185.0, 195.0, 210.0, 250.0]]).T


def genset(name, p, swb):
    e = Engine(
        type_=TypeComponent.AUXILIARY_ENGINE,
        name=name + " engine",
        rated_power=p * 1.1,
        rated_speed=1000,
        bsfc_curve=BSFC,
    )
    g = ElectricMachine(
        type_=TypeComponent.GENERATOR,
        name=name + " generator",
        rated_power=p,
        rated_speed=1000,
        power_type=TypePower.POWER_SOURCE,
        switchboard_id=swb,
        eff_curve=EFF,
    )
    return Genset(name, e, g)


g1, g2 = genset("g1", 1000, 1), genset("g2", 500, 1)
load = ElectricComponent(
    type_=TypeComponent.OTHER_LOAD,
    name="load",
    rated_power=2000,
    eff_curve=np.array([1.0]),
    power_type=TypePower.POWER_CONSUMER,
    switchboard_id=1,
)
machine = ElectricMachine(
    type_=TypeComponent.SYNCHRONOUS_MACHINE,
    power_type=TypePower.PTI_PTO,
    name="shaft machine",
    rated_power=600,
    rated_speed=900,
    eff_curve=EFF,
)
converter = ElectricComponent(
    type_=TypeComponent.POWER_CONVERTER,
    name="converter",
    rated_power=600,
    eff_curve=CONV,
    power_type=TypePower.POWER_TRANSMISSION,
)
pti_pto = PTIPTO("pti/pto", [converter, machine], 1, 600, 900, 1)
main_engine = MainEngineForMechanicalPropulsion(
    "main engine",
    Engine(
        type_=TypeComponent.MAIN_ENGINE,
        name="me",
        rated_power=3000,
        rated_speed=500,
        bsfc_curve=BSFC,
    ),
    1,
)
propeller = MechanicalPropulsionComponent(
    TypeComponent.PROPELLER_LOAD,
    TypePower.POWER_CONSUMER,
    "propeller",
    6000,
    np.array([1.0]),
    100,
    1,
)
electric = ElectricPowerSystem("electric", [g1, g2, load, pti_pto], [])
mechanical = MechanicalPropulsionSystem("mechanical", [main_engine, pti_pto, propeller])
hybrid = HybridPropulsionSystem("hybrid", electric, mechanical)
hybrid.set_time_interval(60.0, IntegrationMethod.sum_with_time)

n = 3
load.set_power_input_from_output(np.full(n, 300.0))
propeller.set_power_input_from_output(np.full(n, 300.0))
g1.status = np.ones(n, dtype=bool)
g2.status = np.ones(n, dtype=bool)
main_engine.status = np.ones(n, dtype=bool)
status = np.array([True, False, False])
pti_pto.status = status
pti_pto.full_pti_mode = np.array([False, False, True])
# pti_pto.load_sharing_mode stays the default 0 (it shares the bus load); no power is given

hybrid.do_power_balance_calculation()

print("PTI/PTO status          :", status)
print("PTI/PTO full PTI mode   :", pti_pto.full_pti_mode)
print("PTI/PTO electric power  :", pti_pto.power_input)
print("PTI/PTO shaft power     :", pti_pto.power_output)
print("main engine power       :", main_engine.power_output)
print("generating sets         :", g1.power_output, g2.power_output)

off = ~status
violated = bool(
    np.any(np.asarray(pti_pto.power_input)[off] != 0)
    or np.any(np.asarray(pti_pto.power_output)[off] != 0)
)
if violated:
    print(
        "\nVIOLATED: at step 3 the PTI/PTO is off, yet it takes "
        f"{pti_pto.power_input[2]:.1f} kW from the bus and puts {pti_pto.power_output[2]:.1f} kW "
        "on the shaft (step 2, off without the flag, is 0 as demanded)"
    )
    sys.exit(1)
print("\nproperty holds")
sys.exit(0)
