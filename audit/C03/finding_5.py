"""C03 finding 2: a second power balance on the same ElectricPowerSystem is refused (raw numpy
ValueError) when the plant has a storage unit (or PTI/PTO) in the default equal-sharing mode and
the new series has another length that is carried by a status series (or a sharing-mode series)
only. The series the FIRST balance wrote into the balancing unit's power_input is taken for an
input that fixes the number of points.

Run:  PYTHONPATH=<wt>/feems:<wt>/machinery-system-structure:<wt>/RunFEEMSSim python finding_2.py
Exit status 1 = property violated (current code), 0 = property holds.
"""
import logging
import sys

import numpy as np

logging.disable(logging.CRITICAL)

from feems.components_model.component_electric import (
    Battery,
    ElectricComponent,
    ElectricMachine,
    Genset,
)
from feems.components_model.component_mechanical import Engine
from feems.components_model.utility import IntegrationMethod
from feems.system_model import ElectricPowerSystem
from feems.types_for_feems import TypeComponent, TypePower

BSFC = np.array([[0.25, 220.0], [0.5, 200.0], [0.75, 190.0], [1.0, 195.0]])
EFF = np.array([[0.25, 0.93], [0.5, 0.95], [0.75, 0.96], [1.0, 0.958]])


def genset(name, rated_kw):
    gen = ElectricMachine(
        type_=TypeComponent.GENERATOR, name="gen " + name, rated_power=rated_kw, rated_speed=900,
        power_type=TypePower.POWER_SOURCE, switchboard_id=1, eff_curve=EFF,
    )
    eng = Engine(type_=TypeComponent.AUXILIARY_ENGINE, name="eng " + name,
                 rated_power=rated_kw / 0.95, rated_speed=900, bsfc_curve=BSFC)
    return Genset(name, eng, gen)


def build():
    g1, g2 = genset("g1", 1000.0), genset("g2", 600.0)
    battery = Battery("battery", 500.0, 1.0, 1.0, switchboard_id=1)  # rated 500 kW
    load = ElectricComponent(
        type_=TypeComponent.OTHER_LOAD, name="load", rated_power=2000.0,
        eff_curve=np.array([1.0]), power_type=TypePower.POWER_CONSUMER, switchboard_id=1,
    )
    system = ElectricPowerSystem("plant", [g1, g2, battery, load], [])
    system.set_time_interval(1.0, IntegrationMethod.sum_with_time)
    return system, g1, g2, battery, load


def second_input(g1, g2, battery, load):
    """constant load of 400 kW, genset 2 switched off at the middle one of three steps;
    the battery stays in its default mode (equal sharing, load_sharing_mode = [0])"""
    load.set_power_input_from_output(np.array([400.0]))
    g1.status = np.ones(1, dtype=bool)
    g2.status = np.array([True, False, True])
    battery.status = np.ones(1, dtype=bool)


def fractions(g1, g2, battery):
    n = 3
    status = [np.broadcast_to(c.status, (n,)) for c in (g1, g2, battery)]
    delivered = [
        np.broadcast_to(g1.power_output, (n,)),
        np.broadcast_to(g2.power_output, (n,)),
        -np.broadcast_to(battery.power_input, (n,)),
    ]
    rated = [g1.rated_power, g2.rated_power, battery.rated_power]
    return status, [d / r for d, r in zip(delivered, rated)], delivered


def check(g1, g2, battery, load_kw=400.0):
    status, frac, delivered = fractions(g1, g2, battery)
    ok = True
    for t in range(3):
        running = [f[t] for s, f in zip(status, frac) if s[t]]
        off = [d[t] for s, d in zip(status, delivered) if not s[t]]
        ok &= max(running) - min(running) < 1e-12
        ok &= all(abs(x) < 1e-12 for x in off)
        ok &= abs(sum(d[t] for d in delivered) - load_kw) < 1e-9
    return ok, frac


def main():
    # reference: fresh objects, the second input only
    system, g1, g2, battery, load = build()
    second_input(g1, g2, battery, load)
    system.do_power_balance_calculation()
    ok_ref, frac_ref = check(g1, g2, battery)
    print("fresh objects   : load fractions g1, g2, battery =", [f.round(6) for f in frac_ref],
          "-> property", "holds" if ok_ref else "violated")

    # same objects used before for a five-step series
    system, g1, g2, battery, load = build()
    load.set_power_input_from_output(np.array([400.0, 500.0, 600.0, 700.0, 800.0]))
    for c in (g1, g2, battery):
        c.status = np.ones(1, dtype=bool)
    system.do_power_balance_calculation()
    print("first balance (5 steps) done; battery.power_input is now a series of",
          np.size(battery.power_input), "values written by the balance")
    second_input(g1, g2, battery, load)
    try:
        system.do_power_balance_calculation()
    except Exception as exc:  # noqa
        print(f"VIOLATION: the second balance (valid input, 3 steps) is refused: "
              f"{type(exc).__name__}: {exc}")
        return 1
    ok, frac = check(g1, g2, battery)
    print("re-used objects : load fractions g1, g2, battery =", [f.round(6) for f in frac],
          "-> property", "holds" if ok else "violated")
    same = all(np.allclose(a, b) for a, b in zip(frac, frac_ref))
    return 0 if (ok and ok_ref and same) else 1


if __name__ == "__main__":
    sys.exit(main())
