"""C03 finding 2: a PTI/PTO (or storage unit) that keeps a single-value status cannot share the
load over a series.

A genset (1000 kW) and a PTI/PTO (500 kW) on one switchboard. The PTI/PTO is in balancing mode
(load_sharing_mode 0 at each of the three steps) and keeps the status it was constructed with:
np.array([True]), i.e. "on". For power sources one value stands for the whole series (node.py,
Switchboard.set_power_out_power_sources); for PTI/PTO and energy storage the same method
indexes the status with a mask of the series' length.

Property C03 demands: genset and PTI/PTO are both loaded to load / 1500 of their rating.
Current code: ValueError "The length of the input (load_switchboard) does not match ...".
The same happens (b) to a Battery whose status is given as np.array([True]) and (c) to the
PTI/PTO in given-power mode.
Exit status 1 = property violated (wrong result or valid input refused), 0 = holds.
"""
import logging
import sys

import numpy as np

from feems.components_model import Engine, ElectricMachine, Genset, ElectricComponent, Battery
from feems.components_model.component_electric import PTIPTO
from feems.components_model.utility import IntegrationMethod
from feems.system_model import ElectricPowerSystem
from feems.types_for_feems import TypeComponent, Power_kW, Speed_rpm, TypePower, SwbId

logging.disable(logging.CRITICAL)
BSFC = np.array([[1.00, 0.75, 0.50, 0.25, 0.10], [193.66, 188.995, 194.47, 211.4, 250]]).T
LOAD = np.array([300.0, 600.0, 900.0])


def genset(name, rated_kw, swb):
    engine = Engine(
        type_=TypeComponent.AUXILIARY_ENGINE,
        name=name + " engine",
        rated_power=Power_kW(rated_kw / 0.95),
        rated_speed=Speed_rpm(1500),
        bsfc_curve=BSFC,
    )
    generator = ElectricMachine(
        type_=TypeComponent.GENERATOR,
        name=name + " generator",
        rated_power=Power_kW(rated_kw),
        rated_speed=Speed_rpm(1500),
        power_type=TypePower.POWER_SOURCE,
        switchboard_id=SwbId(swb),
        eff_curve=np.array([0.95]),
    )
    return Genset(name=name, aux_engine=engine, generator=generator)


def consumer(name, swb):
    return ElectricComponent(
        type_=TypeComponent.OTHER_LOAD,
        name=name,
        power_type=TypePower.POWER_CONSUMER,
        rated_power=Power_kW(3000.0),
        eff_curve=np.array([1.0]),
        switchboard_id=SwbId(swb),
    )


def pti_pto(name, rated_kw, swb):
    machine = ElectricMachine(
        type_=TypeComponent.SYNCHRONOUS_MACHINE,
        name=name + " machine",
        rated_power=Power_kW(rated_kw),
        rated_speed=Speed_rpm(1000),
        power_type=TypePower.PTI_PTO,
        switchboard_id=SwbId(swb),
        eff_curve=np.array([0.96]),
    )
    converter = ElectricComponent(
        type_=TypeComponent.POWER_CONVERTER,
        name=name + " converter",
        rated_power=Power_kW(rated_kw),
        power_type=TypePower.PTI_PTO,
        switchboard_id=SwbId(swb),
        eff_curve=np.array([0.98]),
    )
    return PTIPTO(
        name=name,
        components=[converter, machine],
        switchboard_id=SwbId(swb),
        rated_power=Power_kW(rated_kw),
        rated_speed=Speed_rpm(1000),
    )


def plant(unit):
    g = genset("g1", 1000.0, 1)
    load = consumer("load", 1)
    system = ElectricPowerSystem("plant", [g, unit, load], [])
    system.set_time_interval(1.0, IntegrationMethod.simpson)
    load.set_power_input_from_output(LOAD.copy())
    g.status = np.ones(3, dtype=bool)
    return system, g


def fractions_ok(label, g, unit, expected_genset, expected_unit):
    f_g = np.broadcast_to(g.power_output, (3,)) / g.rated_power
    f_u = -np.broadcast_to(unit.power_input, (3,)) / unit.rated_power
    print(f"{label}: fraction genset {f_g}, fraction {unit.name} {f_u}")
    return np.allclose(f_g, expected_genset) and np.allclose(f_u, expected_unit)


violations = []

# (a) PTI/PTO, balancing mode, status as constructed
pto = pti_pto("pto", 500.0, 1)
print("status of the PTI/PTO as constructed:", pto.status)
system, g = plant(pto)
pto.load_sharing_mode = np.zeros(3)
try:
    system.do_power_balance_calculation()
    if not fractions_ok("(a)", g, pto, LOAD / 1500.0, LOAD / 1500.0):
        violations.append("(a) wrong load fractions")
except Exception as exc:
    violations.append(f"(a) PTI/PTO in balancing mode with its default status: "
                      f"{type(exc).__name__}: {exc}")

# reference: the same with the status written out
pto = pti_pto("pto", 500.0, 1)
system, g = plant(pto)
pto.load_sharing_mode = np.zeros(3)
pto.status = np.ones(3, dtype=bool)
system.do_power_balance_calculation()
assert fractions_ok("(a) reference, status per step", g, pto, LOAD / 1500.0, LOAD / 1500.0)

# (b) battery, balancing mode, status given as one value
battery = Battery("battery", rated_capacity_kwh=500.0, charging_rate_c=1.0, discharge_rate_c=1.0,
                  switchboard_id=SwbId(1))
system, g = plant(battery)
battery.load_sharing_mode = np.zeros(3)
battery.status = np.array([True])
try:
    system.do_power_balance_calculation()
    if not fractions_ok("(b)", g, battery, LOAD / 1500.0, LOAD / 1500.0):
        violations.append("(b) wrong load fractions")
except Exception as exc:
    violations.append(f"(b) battery in balancing mode with status [True]: "
                      f"{type(exc).__name__}: {exc}")

# (c) PTI/PTO with a given power series (PTO, 100 kW to the bus), status as constructed
pto = pti_pto("pto", 500.0, 1)
system, g = plant(pto)
pto.load_sharing_mode = np.ones(3)
pto.power_input = np.array([-100.0, -100.0, -100.0])
try:
    system.do_power_balance_calculation()
    if not fractions_ok("(c)", g, pto, (LOAD - 100.0) / 1000.0, np.full(3, 0.2)):
        violations.append("(c) wrong load fractions")
except Exception as exc:
    violations.append(f"(c) PTI/PTO with given power and its default status: "
                      f"{type(exc).__name__}: {exc}")

if violations:
    print("\nVIOLATION: valid plants are refused / wrong")
    for v in violations:
        print("  ", v)
    print("C03 demands for (a), (b) the load fractions", LOAD / 1500.0, "for genset and unit alike.")
    sys.exit(1)
print("Property holds.")
sys.exit(0)
