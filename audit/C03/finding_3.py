"""C03 finding 3: a per-step mixture of equal sharing and a fixed share is refused when the
two sources sit on the SAME switchboard and only one of them is given a sharing-mode (or status)
series; the same two sources on two switchboards joined by a closed breaker are balanced.

Two gensets (1000 kW, 500 kW), both running at all three steps. g1 is given the sharing-mode
series [0, 0.5, 0] (fixed share of 50 % at step 1), g2 keeps the default np.zeros(1): equal
sharing, one value standing for the whole series (node.py, set_power_out_power_sources).
Load series [300, 600, 900] kW.

Property C03 demands
   step 0: both at 300/1500 = 0.2;   step 1: g1 exactly 0.5 * 1000 = 500 kW, g2 the rest
   (100 kW = 0.2);   step 2: both at 0.6.
Current code: one switchboard -> InputError ("The length of load sharing values ... are not
identical"); two switchboards with a closed bus tie (one bus, the same physics) -> the values
above. The same split happens for one status series (g2 stops at step 1) next to a status [True].
Exit status 1 = property violated (wrong result or valid input refused), 0 = holds.
"""
import logging
import sys

import numpy as np

from feems.components_model import Engine, ElectricMachine, Genset, ElectricComponent
from feems.components_model.utility import IntegrationMethod
from feems.system_model import ElectricPowerSystem
from feems.types_for_feems import TypeComponent, Power_kW, Speed_rpm, TypePower, SwbId

logging.disable(logging.CRITICAL)
BSFC = np.array([[1.00, 0.75, 0.50, 0.25, 0.10], [193.66, 188.995, 194.47, 211.4, 250]]).T
LOAD = np.array([300.0, 600.0, 900.0])
EXPECTED_G1 = np.array([200.0, 500.0, 600.0])
EXPECTED_G2 = np.array([100.0, 100.0, 300.0])


def genset(name, rated_kw, swb):
    engine = Engine(
        type_=TypeComponent.AUXILIARY_ENGINE,
        name=name + " engine",
        rated_power=Power_kW(rated_kw / 0.95),
        rated_speed=Speed_rpm(1500),
        bsfc_curve=BSFC,
    )
    generator = ElectricMachine(
        type_=TypeComponent.GENERATOR,
        name=name + " generator",
        rated_power=Power_kW(rated_kw),
        rated_speed=Speed_rpm(1500),
        power_type=TypePower.POWER_SOURCE,
        switchboard_id=SwbId(swb),
        eff_curve=np.array([0.95]),
    )
    return Genset(name=name, aux_engine=engine, generator=generator)


def consumer(name, swb):
    return ElectricComponent(
        type_=TypeComponent.OTHER_LOAD,
        name=name,
        power_type=TypePower.POWER_CONSUMER,
        rated_power=Power_kW(3000.0),
        eff_curve=np.array([1.0]),
        switchboard_id=SwbId(swb),
    )


def run(swb_of_g2, what):
    g1, g2, load = genset("g1", 1000.0, 1), genset("g2", 500.0, swb_of_g2), consumer("load", 1)
    ties = [] if swb_of_g2 == 1 else [(1, swb_of_g2)]  # breaker closed by default
    system = ElectricPowerSystem("plant", [g1, g2, load], ties)
    system.set_time_interval(1.0, IntegrationMethod.simpson)
    load.set_power_input_from_output(LOAD.copy())
    if what == "sharing mode":
        g1.status, g2.status = np.ones(3, dtype=bool), np.ones(3, dtype=bool)
        g1.load_sharing_mode = np.array([0.0, 0.5, 0.0])  # g2 keeps np.zeros(1)
        expected = (EXPECTED_G1, EXPECTED_G2)
    else:  # status: g2 stops at step 1, g1 runs all the time
        g1.status, g2.status = np.array([True]), np.array([True, False, True])
        expected = (np.array([200.0, 600.0, 600.0]), np.array([100.0, 0.0, 300.0]))
    system.do_power_balance_calculation()
    p1 = np.broadcast_to(g1.power_output, (3,))
    p2 = np.broadcast_to(g2.power_output, (3,))
    return p1, p2, bool(np.allclose(p1, expected[0]) and np.allclose(p2, expected[1]))


violations = []
for what in ("sharing mode", "status"):
    for swb_of_g2, label in ((2, "two switchboards, closed bus tie"), (1, "one switchboard")):
        try:
            p1, p2, ok = run(swb_of_g2, what)
            print(f"{what:12s} series for one genset only, {label}: g1 {p1} kW, g2 {p2} kW ->",
                  "as C03 demands" if ok else "WRONG")
            if not ok:
                violations.append(f"{what}, {label}: wrong powers")
        except Exception as exc:
            print(f"{what:12s} series for one genset only, {label}: {type(exc).__name__}: {exc}")
            violations.append(f"{what}, {label}: refused with {type(exc).__name__}")

if violations:
    print("\nVIOLATION: the same bus is balanced or refused depending on how its sources are "
          "spread over switchboards:")
    for v in violations:
        print("  ", v)
    print("C03 demands g1 =", EXPECTED_G1, "kW and g2 =", EXPECTED_G2, "kW for the sharing-mode case.")
    sys.exit(1)
print("Property holds.")
sys.exit(0)
