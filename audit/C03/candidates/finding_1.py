"""C03 finding 1: a switched-off storage unit (or PTI/PTO) in balancing mode gets NaN power
when the running sources of its bus are all on a fixed share that covers the load.

Run: PYTHONPATH=<wt>/feems:<wt>/machinery-system-structure:<wt>/RunFEEMSSim /venv/bin/python finding_1.py
Exit status 1 = property violated, 0 = property holds.
"""
import logging
import sys
import warnings

import numpy as np

logging.disable(logging.CRITICAL)
warnings.simplefilter("ignore")

from feems.components_model.component_electric import (
    Battery,
    ElectricComponent,
    ElectricMachine,
    Genset,
)
from feems.components_model.component_mechanical import Engine
from feems.components_model.utility import IntegrationMethod
from feems.system_model import ElectricPowerSystem
from feems.types_for_feems import TypeComponent, TypePower

EFF = np.array([[0.25, 0.5, 0.75, 1.0], [0.9, 0.93, 0.95, 0.96]]).T
BSFC = np.array([[0.25, 0.5, 0.75, 1.0], [220.0, 205.0, 195.0, 200.0]]).T

engine = Engine(
    type_=TypeComponent.AUXILIARY_ENGINE, name="engine", rated_power=1600, rated_speed=1000,
    bsfc_curve=BSFC,
)
generator = ElectricMachine(
    type_=TypeComponent.GENERATOR, name="generator", rated_power=1500, rated_speed=1000,
    power_type=TypePower.POWER_SOURCE, switchboard_id=1, eff_curve=EFF,
)
genset = Genset("genset", engine, generator)
battery = Battery("battery", 500, 1.0, 1.0, switchboard_id=1)
load = ElectricComponent(
    type_=TypeComponent.OTHER_LOAD, name="load", rated_power=3000,
    power_type=TypePower.POWER_CONSUMER, switchboard_id=1, eff_curve=np.array([1.0]),
)
system = ElectricPowerSystem("plant", [genset, battery, load], [])

n = 2
load_kw = np.array([210.0, 420.0])
share = load_kw / genset.rated_power  # 0.14, 0.28: the genset is told to carry the whole load
load.power_input = load_kw
genset.status = np.ones(n, dtype=bool)
genset.load_sharing_mode = share
battery.status = np.zeros(n, dtype=bool)  # stand-by: switched off
battery.load_sharing_mode = np.zeros(n)  # balancing (equal sharing) mode

system.set_time_interval(np.full(n, 60.0), IntegrationMethod.sum_with_time)
system.do_power_balance_calculation()
result = system.get_fuel_energy_consumption_running_time()

print("load [kW]                         :", load_kw)
print("genset fixed share                :", share)
print("genset power_output [kW]          :", genset.power_output)
print("residual rated*share - load [kW]  :", genset.rated_power * share - load_kw)
print("battery status                    :", battery.status)
print("battery power_input [kW]          :", battery.power_input)
print("battery power_output [kW]         :", battery.power_output)
print("energy stored total [MJ]          :", result.energy_stored_total_mj)

violated = False
# Clause "a source given a fixed share delivers exactly that fraction of its rated power"
if not np.array_equal(genset.power_output, genset.rated_power * share):
    print("VIOLATION: genset does not deliver its fixed share")
    violated = True
# Clause "a source that is switched off delivers nothing"
if not np.all(np.asarray(battery.power_input) == 0):
    print("VIOLATION: the switched-off battery does not deliver 0 kW but", battery.power_input)
    violated = True
if not np.isfinite(result.energy_stored_total_mj):
    print("VIOLATION (consequence): the stored energy of the result is", result.energy_stored_total_mj)
    violated = True
print("property C03", "VIOLATED" if violated else "holds")
sys.exit(1 if violated else 0)
