"""C03 finding 4: a switchboard whose only power-delivering unit is a PTI/PTO (shaft generator
in balancing mode) is refused by ElectricPowerSystem with ConfigurationError, although C03 counts a
PTI/PTO in balancing mode among the units that share the bus load, and although the switchboard is
tied to a switchboard with a genset. The same plant with the PTI/PTO replaced by a battery of the
same rating is accepted.

Exit status 1 = valid plant refused, 0 = accepted and the property holds.
"""
import logging
import sys
import warnings

import numpy as np

logging.disable(logging.CRITICAL)
warnings.simplefilter("ignore")

from feems.components_model.component_electric import (
    Battery,
    ElectricComponent,
    ElectricMachine,
    Genset,
    PTIPTO,
)
from feems.components_model.component_mechanical import Engine
from feems.components_model.utility import IntegrationMethod
from feems.system_model import ElectricPowerSystem
from feems.types_for_feems import TypeComponent, TypePower

EFF = np.array([[0.25, 0.5, 0.75, 1.0], [0.9, 0.93, 0.95, 0.96]]).T
BSFC = np.array([[0.25, 0.5, 0.75, 1.0], [220.0, 205.0, 195.0, 200.0]]).T
N = 3


def make_plant(unit_on_swb_2):
    genset = Genset(
        "genset",
        Engine(type_=TypeComponent.AUXILIARY_ENGINE, name="aux", rated_power=1050,
               rated_speed=1000, bsfc_curve=BSFC),
        ElectricMachine(type_=TypeComponent.GENERATOR, name="gen", rated_power=1000,
                        rated_speed=1000, power_type=TypePower.POWER_SOURCE, switchboard_id=1,
                        eff_curve=EFF),
    )
    loads = [
        ElectricComponent(type_=TypeComponent.OTHER_LOAD, name=f"load{i}", rated_power=3000,
                          power_type=TypePower.POWER_CONSUMER, switchboard_id=i,
                          eff_curve=np.array([1.0]))
        for i in (1, 2)
    ]
    system = ElectricPowerSystem("plant", [genset, unit_on_swb_2] + loads, [(1, 2)])
    genset.status = np.ones(N, dtype=bool)
    genset.load_sharing_mode = np.zeros(N)
    unit_on_swb_2.status = np.ones(N, dtype=bool)
    unit_on_swb_2.load_sharing_mode = np.zeros(N)  # balancing mode
    unit_on_swb_2.power_input = np.zeros(N)
    loads[0].power_input = np.array([300.0, 300.0, 300.0])
    loads[1].power_input = np.array([150.0, 200.0, 250.0])
    system.set_bus_tie_status([(1, np.array([True, False, True]))])
    system.set_time_interval(60.0, IntegrationMethod.sum_with_time)
    system.do_power_balance_calculation()
    return genset.power_output / genset.rated_power, -unit_on_swb_2.power_input / unit_on_swb_2.rated_power


battery = Battery("battery", 800, 1.0, 1.0, switchboard_id=2)
f_genset, f_unit = make_plant(battery)
print("with an 800 kW battery on switchboard 2: accepted")
print("    fraction genset :", f_genset)
print("    fraction battery:", f_unit)

converter = ElectricComponent(type_=TypeComponent.POWER_CONVERTER, name="conv", rated_power=800,
                              power_type=TypePower.NONE, switchboard_id=2, eff_curve=EFF)
machine = ElectricMachine(type_=TypeComponent.SYNCHRONOUS_MACHINE, name="machine",
                          rated_power=800, rated_speed=1000, power_type=TypePower.PTI_PTO,
                          switchboard_id=2, eff_curve=EFF)
pti_pto = PTIPTO("shaft generator", [converter, machine], 2, 800, 1000, shaft_line_id=1)
try:
    f_genset_2, f_pto = make_plant(pti_pto)
except Exception as exc:  # noqa
    print("with an 800 kW PTI/PTO (balancing mode) on switchboard 2:")
    print("    REFUSED with", type(exc).__name__ + ":", exc)
    print("property C03 cannot be evaluated: valid plant wrongly refused")
    sys.exit(1)
print("with an 800 kW PTI/PTO on switchboard 2: accepted")
print("    fraction genset :", f_genset_2)
print("    fraction PTI/PTO:", f_pto)
ok = np.allclose(f_genset_2, f_genset) and np.allclose(f_pto, f_unit)
print("property C03", "holds" if ok else "VIOLATED")
sys.exit(0 if ok else 1)
