"""C03 finding 2: hybrid plant, PTI/PTO left in balancing mode (load_sharing_mode 0, the default)
at a step where full PTI mode is set. The genset is loaded as if the PTI/PTO generated an equal
share, while the PTI/PTO ends up motoring from the bus: the two equal-sharing units of the bus
are at different fractions of their rated power (and the bus is not balanced).

Exit status 1 = property violated, 0 = property holds.
"""
import logging
import sys
import warnings

import numpy as np

logging.disable(logging.CRITICAL)
warnings.simplefilter("ignore")

from feems.components_model.component_electric import (
    ElectricComponent,
    ElectricMachine,
    Genset,
    PTIPTO,
)
from feems.components_model.component_mechanical import (
    Engine,
    MainEngineForMechanicalPropulsion,
    MechanicalPropulsionComponent,
)
from feems.components_model.utility import IntegrationMethod
from feems.system_model import (
    ElectricPowerSystem,
    HybridPropulsionSystem,
    MechanicalPropulsionSystem,
)
from feems.types_for_feems import TypeComponent, TypePower

EFF = np.array([[0.25, 0.5, 0.75, 1.0], [0.9, 0.93, 0.95, 0.96]]).T
BSFC = np.array([[0.25, 0.5, 0.75, 1.0], [220.0, 205.0, 195.0, 200.0]]).T


def build():
    genset = Genset(
        "genset",
        Engine(type_=TypeComponent.AUXILIARY_ENGINE, name="aux", rated_power=1050,
               rated_speed=1000, bsfc_curve=BSFC),
        ElectricMachine(type_=TypeComponent.GENERATOR, name="gen", rated_power=1000,
                        rated_speed=1000, power_type=TypePower.POWER_SOURCE, switchboard_id=1,
                        eff_curve=EFF),
    )
    converter = ElectricComponent(type_=TypeComponent.POWER_CONVERTER, name="conv",
                                  rated_power=800, power_type=TypePower.NONE, switchboard_id=1,
                                  eff_curve=EFF)
    machine = ElectricMachine(type_=TypeComponent.SYNCHRONOUS_MACHINE, name="machine",
                              rated_power=800, rated_speed=1000, power_type=TypePower.PTI_PTO,
                              switchboard_id=1, eff_curve=EFF)
    pti_pto = PTIPTO("pti_pto", [converter, machine], 1, 800, 1000, shaft_line_id=1)
    hotel = ElectricComponent(type_=TypeComponent.OTHER_LOAD, name="hotel", rated_power=3000,
                              power_type=TypePower.POWER_CONSUMER, switchboard_id=1,
                              eff_curve=np.array([1.0]))
    main_engine = MainEngineForMechanicalPropulsion(
        "main engine",
        Engine(type_=TypeComponent.MAIN_ENGINE, name="me", rated_power=5000, rated_speed=500,
               bsfc_curve=BSFC),
        shaft_line_id=1,
    )
    propeller = MechanicalPropulsionComponent(
        TypeComponent.PROPELLER_LOAD, TypePower.POWER_CONSUMER, "propeller", 5000,
        np.array([1.0]), shaft_line_id=1,
    )
    electric = ElectricPowerSystem("el", [genset, pti_pto, hotel], [])
    mechanical = MechanicalPropulsionSystem("mech", [main_engine, propeller, pti_pto])
    hybrid = HybridPropulsionSystem("hybrid", electric, mechanical)
    electric.set_time_interval(60.0, IntegrationMethod.sum_with_time)
    return hybrid, genset, pti_pto, hotel, main_engine, propeller


hybrid, genset, pti_pto, hotel, main_engine, propeller = build()
n = 2
hotel.power_input = np.array([300.0, 300.0])
propeller.power_input = np.array([400.0, 2000.0])
genset.status = np.ones(n, dtype=bool)
genset.load_sharing_mode = np.zeros(n)  # equal sharing
pti_pto.status = np.ones(n, dtype=bool)
pti_pto.load_sharing_mode = np.zeros(n)  # balancing mode (the default value), both steps
pti_pto.power_input = np.zeros(n)
pti_pto.full_pti_mode = np.array([True, False])  # step 0: the PTI drives the shaft alone
main_engine.status = np.ones(n, dtype=bool)

hybrid.do_power_balance_calculation()

frac_genset = genset.power_output / genset.rated_power
frac_pti_pto = -np.asarray(pti_pto.power_input) / pti_pto.rated_power
bus_residual = genset.power_output - hotel.power_input - pti_pto.power_input
print("full PTI mode                     :", pti_pto.full_pti_mode)
print("load sharing mode genset / PTI-PTO:", genset.load_sharing_mode, pti_pto.load_sharing_mode)
print("genset power_output [kW]          :", genset.power_output)
print("PTI/PTO electric power_input [kW] :", pti_pto.power_input, "(+ = takes from the bus)")
print("fraction of rated power, genset   :", frac_genset)
print("fraction of rated power, PTI/PTO  :", frac_pti_pto)
print("bus: supplied - consumed [kW]     :", bus_residual)
print("main engine power_output [kW]     :", main_engine.power_output)

violated = False
for t in range(n):
    both_run_and_share = (
        genset.status[t] and pti_pto.status[t]
        and genset.load_sharing_mode[t] == 0 and pti_pto.load_sharing_mode[t] == 0
    )
    if both_run_and_share and abs(frac_genset[t] - frac_pti_pto[t]) > 5e-3:
        print(f"VIOLATION step {t}: running equal-sharing units at different fractions "
              f"{frac_genset[t]:.4f} (genset) vs {frac_pti_pto[t]:.4f} (PTI/PTO); "
              f"bus residual {bus_residual[t]:.1f} kW")
        violated = True
print("property C03", "VIOLATED" if violated else "holds")
sys.exit(1 if violated else 0)
