"""C03 finding 5: the one-element defaults that stand for "equal sharing" (load_sharing_mode =
np.zeros(1)) and "on" (PTI/PTO status = np.ones(1)) are not broadcast to a load series.
 (a) core: gensets that keep the default equal-sharing mode are balanced for one step but refused
     with a bare IndexError for a two-step series;
 (b) RunFeemsSim.MachineryCalculation, which sets statuses and sharing modes itself, does so for the
     sources and storage only: a HybridPropulsionSystem is computed for one data point and refused
     with InputError for a series (the PTI/PTO keeps its one-element load sharing mode).

Exit status 1 = valid input refused, 0 = accepted and the property holds.
"""
import logging
import sys
import warnings

import numpy as np

logging.disable(logging.CRITICAL)
warnings.simplefilter("ignore")

from feems.components_model.component_electric import (
    ElectricComponent,
    ElectricMachine,
    Genset,
    PTIPTO,
)
from feems.components_model.component_mechanical import (
    Engine,
    MainEngineForMechanicalPropulsion,
    MechanicalPropulsionComponent,
)
from feems.components_model.utility import IntegrationMethod
from feems.system_model import (
    ElectricPowerSystem,
    HybridPropulsionSystem,
    MechanicalPropulsionSystem,
)
from feems.types_for_feems import TypeComponent, TypePower

EFF = np.array([[0.25, 0.5, 0.75, 1.0], [0.9, 0.93, 0.95, 0.96]]).T
BSFC = np.array([[0.25, 0.5, 0.75, 1.0], [220.0, 205.0, 195.0, 200.0]]).T


def genset(name, power, swb):
    return Genset(
        name,
        Engine(type_=TypeComponent.AUXILIARY_ENGINE, name=name + " engine",
               rated_power=power * 1.05, rated_speed=1000, bsfc_curve=BSFC),
        ElectricMachine(type_=TypeComponent.GENERATOR, name=name + " generator",
                        rated_power=power, rated_speed=1000,
                        power_type=TypePower.POWER_SOURCE, switchboard_id=swb, eff_curve=EFF),
    )


def other_load(name, swb):
    return ElectricComponent(type_=TypeComponent.OTHER_LOAD, name=name, rated_power=3000,
                             power_type=TypePower.POWER_CONSUMER, switchboard_id=swb,
                             eff_curve=np.array([1.0]))


refused = []

# ---- (a) core, default equal-sharing mode --------------------------------------------------
for n in (1, 2):
    g1, g2, load = genset("g1", 1000, 1), genset("g2", 500, 1), other_load("load", 1)
    system = ElectricPowerSystem("plant", [g1, g2, load], [])
    load.power_input = np.linspace(300.0, 600.0, n)
    g1.status = np.ones(n, dtype=bool)
    g2.status = np.ones(n, dtype=bool)
    # load_sharing_mode is left at its constructor default np.zeros(1) = equal sharing
    system.set_time_interval(60.0, IntegrationMethod.sum_with_time)
    try:
        system.do_power_balance_calculation()
        f1, f2 = g1.power_output / g1.rated_power, g2.power_output / g2.rated_power
        print(f"(a) {n} step(s), default load_sharing_mode: accepted, fractions {f1} {f2}")
        if not np.allclose(f1, f2):
            refused.append("(a) unequal fractions")
    except Exception as exc:  # noqa
        print(f"(a) {n} step(s), default load_sharing_mode: REFUSED with "
              f"{type(exc).__name__}: {exc}")
        refused.append(f"(a) n={n}")

# ---- (b) MachineryCalculation on a hybrid plant ---------------------------------------------
from RunFeemsSim.machinery_calculation import MachineryCalculation

for n in (1, 4):
    g1, hotel = genset("g1", 1000, 1), other_load("hotel", 1)
    converter = ElectricComponent(type_=TypeComponent.POWER_CONVERTER, name="conv",
                                  rated_power=800, power_type=TypePower.NONE, switchboard_id=1,
                                  eff_curve=EFF)
    machine = ElectricMachine(type_=TypeComponent.SYNCHRONOUS_MACHINE, name="machine",
                              rated_power=800, rated_speed=1000, power_type=TypePower.PTI_PTO,
                              switchboard_id=1, eff_curve=EFF)
    pti_pto = PTIPTO("pti_pto", [converter, machine], 1, 800, 1000, shaft_line_id=1)
    main_engine = MainEngineForMechanicalPropulsion(
        "main engine",
        Engine(type_=TypeComponent.MAIN_ENGINE, name="me", rated_power=5000, rated_speed=500,
               bsfc_curve=BSFC),
        shaft_line_id=1,
    )
    propeller = MechanicalPropulsionComponent(
        TypeComponent.PROPELLER_LOAD, TypePower.POWER_CONSUMER, "propeller", 5000,
        np.array([1.0]), shaft_line_id=1,
    )
    hybrid = HybridPropulsionSystem(
        "hybrid",
        ElectricPowerSystem("el", [g1, pti_pto, hotel], []),
        MechanicalPropulsionSystem("mech", [main_engine, propeller, pti_pto]),
    )
    calculation = MachineryCalculation(hybrid)
    try:
        calculation.calculate_machinery_system_output_from_statistics(
            propulsion_power=np.linspace(1000.0, 3000.0, n),
            frequency=np.full(n, 60.0),
            auxiliary_power_kw=300.0,
        )
        f1 = g1.power_output / g1.rated_power
        fp = -np.asarray(pti_pto.power_input) / pti_pto.rated_power
        print(f"(b) {n} data point(s): accepted, fraction genset {f1}, PTI/PTO {fp}")
        if not np.allclose(f1, fp, atol=5e-3):
            refused.append("(b) unequal fractions")
    except Exception as exc:  # noqa
        print(f"(b) {n} data point(s): REFUSED with {type(exc).__name__}: {exc}")
        refused.append(f"(b) n={n}")

if refused:
    print("property C03 cannot be evaluated: valid inputs wrongly refused:", refused)
    sys.exit(1)
print("property C03 holds")
sys.exit(0)
