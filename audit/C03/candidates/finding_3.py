"""C03 finding 3: operating ONE of several bus-tie breakers mid-series through the public
ElectricPowerSystem.set_bus_tie_status([(number, series)]) is refused with IndexError, because the
breakers that were not mentioned keep their default one-element status. The same configuration,
with the untouched breaker written out as an all-closed series, is accepted and fulfils C03.

Exit status 1 = valid input refused (property cannot even be evaluated), 0 = accepted and holds.
"""
import logging
import sys
import warnings

import numpy as np

logging.disable(logging.CRITICAL)
warnings.simplefilter("ignore")

from feems.components_model.component_electric import ElectricComponent, ElectricMachine, Genset
from feems.components_model.component_mechanical import Engine
from feems.components_model.utility import IntegrationMethod
from feems.system_model import ElectricPowerSystem
from feems.types_for_feems import TypeComponent, TypePower

EFF = np.array([[0.25, 0.5, 0.75, 1.0], [0.9, 0.93, 0.95, 0.96]]).T
BSFC = np.array([[0.25, 0.5, 0.75, 1.0], [220.0, 205.0, 195.0, 200.0]]).T
N = 3


def genset(name, power, swb):
    return Genset(
        name,
        Engine(type_=TypeComponent.AUXILIARY_ENGINE, name=name + " engine",
               rated_power=power * 1.05, rated_speed=1000, bsfc_curve=BSFC),
        ElectricMachine(type_=TypeComponent.GENERATOR, name=name + " generator",
                        rated_power=power, rated_speed=1000,
                        power_type=TypePower.POWER_SOURCE, switchboard_id=swb, eff_curve=EFF),
    )


def build():
    sources = [genset("g1", 1000, 1), genset("g2", 500, 2), genset("g3", 2000, 3)]
    loads = [
        ElectricComponent(type_=TypeComponent.OTHER_LOAD, name=f"load{i}", rated_power=3000,
                          power_type=TypePower.POWER_CONSUMER, switchboard_id=i,
                          eff_curve=np.array([1.0]))
        for i in (1, 2, 3)
    ]
    system = ElectricPowerSystem("plant", sources + loads, [(1, 2), (2, 3)])
    for source in sources:
        source.status = np.ones(N, dtype=bool)
        source.load_sharing_mode = np.zeros(N)
    for load, kw in zip(loads, (300.0, 150.0, 900.0)):
        load.power_input = np.full(N, kw)
    system.set_time_interval(60.0, IntegrationMethod.sum_with_time)
    return system, sources, loads


breaker_1 = np.array([True, False, True])  # breaker no. 1 (swb 1 - swb 2) opens at step 1

# Reference: the same configuration with breaker no. 2 written out as "closed all the time"
system, sources, loads = build()
system.set_bus_tie_status([(1, breaker_1), (2, np.ones(N, dtype=bool))])
system.do_power_balance_calculation()
reference = [s.power_output / s.rated_power for s in sources]
print("reference (both breakers given): fractions g1, g2, g3 per step")
for s, f in zip(sources, reference):
    print("   ", s.name, f)

# The input under test: only the breaker that is operated is given
system, sources, loads = build()
refused = None
try:
    system.set_bus_tie_status([(1, breaker_1)])
    system.do_power_balance_calculation()
except Exception as exc:  # noqa
    refused = exc

if refused is not None:
    print("set_bus_tie_status([(1, series)]) with breaker no. 2 left at its default (closed):")
    print("    REFUSED with", type(refused).__name__ + ":", refused)
    print("property C03 cannot be evaluated: valid bus configuration wrongly refused")
    sys.exit(1)

fractions = [s.power_output / s.rated_power for s in sources]
ok = all(np.allclose(f, r) for f, r in zip(fractions, reference))
print("accepted; agrees with the reference:", ok)
sys.exit(0 if ok else 1)
