"""C03 finding 4: a switchboard whose only supplier is a PTI/PTO is refused, although a PTI/PTO
in balancing mode is one of the units that share the bus load.

Switchboard 1: genset 1000 kW. Switchboard 2: PTI/PTO 500 kW (shaft generator, balancing mode,
on) and the consumer. One bus-tie breaker (1, 2): closed at steps 0 and 1, open at step 2.
Load series [300, 600, 250] kW.

Property C03 demands: steps 0, 1 (one bus): genset and PTI/PTO at 300/1500 = 0.2 and
600/1500 = 0.4 of their rating; step 2 (split): the PTI/PTO alone feeds its switchboard,
250/500 = 0.5, the genset delivers 0.
Current code: ElectricPowerSystem(...) raises ConfigurationError "Swb id=2 has no power source
or energy storage". That the balance itself can do it is shown by adding a battery to
switchboard 2 that is switched off at every step: the plant is then accepted and the balance
returns exactly the demanded values.
Exit status 1 = property violated (wrong result or valid input refused), 0 = holds.
"""
import logging
import sys

import numpy as np

from feems.components_model import Engine, ElectricMachine, Genset, ElectricComponent, Battery
from feems.components_model.component_electric import PTIPTO
from feems.components_model.utility import IntegrationMethod
from feems.system_model import ElectricPowerSystem
from feems.types_for_feems import TypeComponent, Power_kW, Speed_rpm, TypePower, SwbId

logging.disable(logging.CRITICAL)
BSFC = np.array([[1.00, 0.75, 0.50, 0.25, 0.10], [193.66, 188.995, 194.47, 211.4, 250]]).T
LOAD = np.array([300.0, 600.0, 250.0])
BREAKER = np.array([[True], [True], [False]])
EXPECTED_GENSET = np.array([0.2, 0.4, 0.0])
EXPECTED_PTO = np.array([0.2, 0.4, 0.5])


def genset(name, rated_kw, swb):
    engine = Engine(
        type_=TypeComponent.AUXILIARY_ENGINE,
        name=name + " engine",
        rated_power=Power_kW(rated_kw / 0.95),
        rated_speed=Speed_rpm(1500),
        bsfc_curve=BSFC,
    )
    generator = ElectricMachine(
        type_=TypeComponent.GENERATOR,
        name=name + " generator",
        rated_power=Power_kW(rated_kw),
        rated_speed=Speed_rpm(1500),
        power_type=TypePower.POWER_SOURCE,
        switchboard_id=SwbId(swb),
        eff_curve=np.array([0.95]),
    )
    return Genset(name=name, aux_engine=engine, generator=generator)


def consumer(name, swb):
    return ElectricComponent(
        type_=TypeComponent.OTHER_LOAD,
        name=name,
        power_type=TypePower.POWER_CONSUMER,
        rated_power=Power_kW(3000.0),
        eff_curve=np.array([1.0]),
        switchboard_id=SwbId(swb),
    )


def pti_pto(name, rated_kw, swb):
    machine = ElectricMachine(
        type_=TypeComponent.SYNCHRONOUS_MACHINE,
        name=name + " machine",
        rated_power=Power_kW(rated_kw),
        rated_speed=Speed_rpm(1000),
        power_type=TypePower.PTI_PTO,
        switchboard_id=SwbId(swb),
        eff_curve=np.array([0.96]),
    )
    converter = ElectricComponent(
        type_=TypeComponent.POWER_CONVERTER,
        name=name + " converter",
        rated_power=Power_kW(rated_kw),
        power_type=TypePower.PTI_PTO,
        switchboard_id=SwbId(swb),
        eff_curve=np.array([0.98]),
    )
    return PTIPTO(
        name=name,
        components=[converter, machine],
        switchboard_id=SwbId(swb),
        rated_power=Power_kW(rated_kw),
        rated_speed=Speed_rpm(1000),
    )


def run(with_idle_battery):
    g, pto, load = genset("g1", 1000.0, 1), pti_pto("pto", 500.0, 2), consumer("load", 2)
    components = [g, pto, load]
    if with_idle_battery:
        battery = Battery("idle battery", rated_capacity_kwh=1.0, charging_rate_c=1.0,
                          discharge_rate_c=1.0, switchboard_id=SwbId(2))
        components.append(battery)
    system = ElectricPowerSystem("plant", components, [(1, 2)])
    system.set_time_interval(1.0, IntegrationMethod.simpson)
    load.set_power_input_from_output(LOAD.copy())
    g.status = np.ones(3, dtype=bool)
    pto.status = np.ones(3, dtype=bool)
    pto.load_sharing_mode = np.zeros(3)
    if with_idle_battery:
        battery.status = np.zeros(3, dtype=bool)
        battery.load_sharing_mode = np.zeros(3)
    system.set_bus_tie_status_all(BREAKER)
    system.do_power_balance_calculation()
    return g.power_output / g.rated_power, -pto.power_input / pto.rated_power


f_g, f_p = run(with_idle_battery=True)
print("with a switched-off 1 kWh battery on switchboard 2: genset", f_g, " PTI/PTO", f_p)
assert np.allclose(f_g, EXPECTED_GENSET) and np.allclose(f_p, EXPECTED_PTO)

try:
    f_g, f_p = run(with_idle_battery=False)
except Exception as exc:
    print(f"without it: {type(exc).__name__}: {exc}")
    print("\nVIOLATION: the plant is refused. C03 demands the fractions", EXPECTED_GENSET,
          "for the genset and", EXPECTED_PTO, "for the PTI/PTO.")
    sys.exit(1)
print("without it: genset", f_g, " PTI/PTO", f_p)
if np.allclose(f_g, EXPECTED_GENSET) and np.allclose(f_p, EXPECTED_PTO):
    print("Property holds.")
    sys.exit(0)
print("VIOLATION: wrong load fractions")
sys.exit(1)
