"""C03 finding 1: sources that all keep a single-value status cannot be balanced over a series.

Two gensets (1000 kW, 500 kW) on one switchboard, both running for the whole series
(status = np.array([True]), one value standing for the whole series - the convention node.py
states in Switchboard.set_power_out_power_sources and the code already honours when any other
series of the switchboard has the full length), default sharing mode 0 (equal sharing) and one
consumer with a three-step load series.

Property C03 demands: at every step both gensets are loaded to load / 1500 of their rating.
Current code: IndexError in ElectricPowerSystem.do_power_balance_calculation.
Exit status 1 = property violated (wrong result or valid input refused), 0 = holds.
"""
import logging
import sys
import traceback

import numpy as np

from feems.components_model import Engine, ElectricMachine, Genset, ElectricComponent
from feems.components_model.utility import IntegrationMethod
from feems.system_model import ElectricPowerSystem
from feems.types_for_feems import TypeComponent, Power_kW, Speed_rpm, TypePower, SwbId

logging.disable(logging.CRITICAL)
BSFC = np.array([[1.00, 0.75, 0.50, 0.25, 0.10], [193.66, 188.995, 194.47, 211.4, 250]]).T


def genset(name, rated_kw, swb):
    engine = Engine(
        type_=TypeComponent.AUXILIARY_ENGINE,
        name=name + " engine",
        rated_power=Power_kW(rated_kw / 0.95),
        rated_speed=Speed_rpm(1500),
        bsfc_curve=BSFC,
    )
    generator = ElectricMachine(
        type_=TypeComponent.GENERATOR,
        name=name + " generator",
        rated_power=Power_kW(rated_kw),
        rated_speed=Speed_rpm(1500),
        power_type=TypePower.POWER_SOURCE,
        switchboard_id=SwbId(swb),
        eff_curve=np.array([0.95]),
    )
    return Genset(name=name, aux_engine=engine, generator=generator)


def consumer(name, swb):
    return ElectricComponent(
        type_=TypeComponent.OTHER_LOAD,
        name=name,
        power_type=TypePower.POWER_CONSUMER,
        rated_power=Power_kW(3000.0),
        eff_curve=np.array([1.0]),
        switchboard_id=SwbId(swb),
    )


def run(status_1, status_2):
    g1, g2, load = genset("g1", 1000.0, 1), genset("g2", 500.0, 1), consumer("load", 1)
    system = ElectricPowerSystem("plant", [g1, g2, load], [])
    system.set_time_interval(1.0, IntegrationMethod.simpson)
    load.set_power_input_from_output(np.array([300.0, 600.0, 900.0]))
    g1.status, g2.status = status_1, status_2
    system.do_power_balance_calculation()
    return g1, g2


expected_fraction = np.array([300.0, 600.0, 900.0]) / 1500.0

# Reference: the same plant with the status written out for every step
g1, g2 = run(np.ones(3, dtype=bool), np.ones(3, dtype=bool))
print("status given per step   : g1", g1.power_output, " g2", g2.power_output)
assert np.allclose(g1.power_output / 1000.0, expected_fraction)
assert np.allclose(g2.power_output / 500.0, expected_fraction)

# The case: the same status as ONE value per genset
try:
    g1, g2 = run(np.array([True]), np.array([True]))
except Exception as exc:
    traceback.print_exc()
    print(
        f"\nVIOLATION: a plant whose two gensets run all the time (status [True]) is refused for a "
        f"3-step load series with {type(exc).__name__}: {exc}"
    )
    print("C03 demands the load fractions", expected_fraction, "for both gensets.")
    sys.exit(1)

f1 = np.broadcast_to(g1.power_output, (3,)) / 1000.0
f2 = np.broadcast_to(g2.power_output, (3,)) / 500.0
print("status given as one value: fractions g1", f1, " g2", f2)
if np.allclose(f1, expected_fraction) and np.allclose(f2, expected_fraction):
    print("Property holds.")
    sys.exit(0)
print("VIOLATION: load fractions differ from", expected_fraction)
sys.exit(1)
