"""C03 finding 1: HybridPropulsionSystem silently replaces a PTI/PTO's constant given power
(a single value, fixed mode) by zero as soon as full_pti_mode is a series with a True in it.

Run:  PYTHONPATH=<wt>/feems:<wt>/machinery-system-structure:<wt>/RunFEEMSSim python finding_1.py
Exit status 1 = property violated (current code), 0 = property holds.
"""
import logging
import sys

import numpy as np

logging.disable(logging.CRITICAL)

from feems.components_model.component_electric import (
    ElectricComponent,
    ElectricMachine,
    Genset,
    PTIPTO,
)
from feems.components_model.component_mechanical import (
    Engine,
    MainEngineForMechanicalPropulsion,
    MechanicalPropulsionComponent,
)
from feems.components_model.utility import IntegrationMethod
from feems.system_model import (
    ElectricPowerSystem,
    HybridPropulsionSystem,
    MechanicalPropulsionSystem,
)
from feems.types_for_feems import TypeComponent, TypePower

BSFC = np.array([[0.25, 220.0], [0.5, 200.0], [0.75, 190.0], [1.0, 195.0]])
EFF = np.array([[0.25, 0.93], [0.5, 0.95], [0.75, 0.96], [1.0, 0.958]])
N = 3
PTO_KW = -100.0  # electric side, negative = the machine feeds 100 kW into the bus (PTO)


def build(given_power):
    gen = ElectricMachine(
        type_=TypeComponent.GENERATOR, name="gen", rated_power=3000, rated_speed=900,
        power_type=TypePower.POWER_SOURCE, switchboard_id=1, eff_curve=EFF,
    )
    aux = Engine(type_=TypeComponent.AUXILIARY_ENGINE, name="aux", rated_power=3200,
                 rated_speed=900, bsfc_curve=BSFC)
    genset = Genset("genset", aux, gen)
    load = ElectricComponent(
        type_=TypeComponent.OTHER_LOAD, name="hotel", rated_power=1000,
        eff_curve=np.array([1.0]), power_type=TypePower.POWER_CONSUMER, switchboard_id=1,
    )
    machine = ElectricMachine(
        type_=TypeComponent.SYNCHRONOUS_MACHINE, power_type=TypePower.PTI_PTO, name="sm",
        rated_power=1000, rated_speed=900, eff_curve=EFF,
    )
    inverter = ElectricComponent(
        type_=TypeComponent.INVERTER, power_type=TypePower.POWER_TRANSMISSION, name="inv",
        rated_power=1000, eff_curve=np.array([[0.25, 0.96], [1.0, 0.98]]),
    )
    pti_pto = PTIPTO("pti_pto", [inverter, machine], 1, 1000, 900, shaft_line_id=1)
    main_engine = MainEngineForMechanicalPropulsion(
        name="me",
        engine=Engine(type_=TypeComponent.MAIN_ENGINE, name="me engine", rated_power=3000,
                      rated_speed=900, bsfc_curve=BSFC),
        shaft_line_id=1,
    )
    propeller = MechanicalPropulsionComponent(
        TypeComponent.PROPELLER_LOAD, TypePower.POWER_CONSUMER, "propeller", 3000,
        np.array([1.0]), shaft_line_id=1,
    )
    electric = ElectricPowerSystem("el", [genset, load, pti_pto], [])
    mechanical = MechanicalPropulsionSystem("mech", [main_engine, pti_pto, propeller])
    hybrid = HybridPropulsionSystem("hybrid", electric, mechanical)
    hybrid.set_time_interval(1.0, IntegrationMethod.sum_with_time)

    load.set_power_input_from_output(np.array([300.0, 100.0, 200.0]))
    propeller.set_power_input_from_output(np.array([1000.0, 300.0, 1200.0]))
    genset.status = np.ones(N, dtype=bool)
    main_engine.status = np.ones(N, dtype=bool)
    pti_pto.status = np.ones(N, dtype=bool)
    # fixed (given power) mode for the whole series, given as ONE value = a constant
    pti_pto.load_sharing_mode = np.array([1])
    pti_pto.set_power_output_from_input(given_power)
    # full PTI mode at the middle step only
    pti_pto.full_pti_mode = np.array([False, True, False])
    hybrid.do_power_balance_calculation()
    return genset, pti_pto, main_engine


def main():
    genset, pti_pto, main_engine = build(np.array([PTO_KW]))
    genset_ref, pti_pto_ref, main_engine_ref = build(np.full(N, PTO_KW))
    print("constant given as a single value  : PTI/PTO electric power", pti_pto.power_input,
          " genset", genset.power_output, " main engine", main_engine.power_output)
    print("same constant given as full series: PTI/PTO electric power", pti_pto_ref.power_input,
          " genset", genset_ref.power_output, " main engine", main_engine_ref.power_output)
    not_full_pti = np.array([True, False, True])
    delivered = -np.asarray(pti_pto.power_input, dtype=float)[not_full_pti]
    demanded = -PTO_KW
    # (the known pass-to-pass drift of a hybrid system is 1e-6..1e-4 relative: allow 0.1 %)
    ok = np.allclose(delivered, demanded, rtol=1e-3)
    if ok:
        print("property holds: the PTI/PTO delivers its given 100 kW at the steps in fixed mode")
        return 0
    print(f"VIOLATION: in fixed mode the PTI/PTO must deliver {demanded} kW "
          f"(share {demanded / pti_pto.rated_power:.2f} of its rating) at steps 0 and 2, "
          f"it delivers {delivered}")
    return 1


if __name__ == "__main__":
    sys.exit(main())
