"""C03 finding 3: a storage unit / PTI/PTO whose given power is a CONSTANT is refused
 (a) when the constant is a single-value array and the sharing mode is a per-step series
     (numpy ValueError in Switchboard.get_sum_power_input_by_power_type), although the
     input validator explicitly accepts a power input of size 1;
 (b) when the constant is a python float, the documented argument type of
     set_power_output_from_input (AttributeError in the validator).
The same constant written out as a full series is balanced correctly.

Run:  PYTHONPATH=<wt>/feems:<wt>/machinery-system-structure:<wt>/RunFEEMSSim python finding_3.py
Exit status 1 = property violated (current code), 0 = property holds.
"""
import logging
import sys

import numpy as np

logging.disable(logging.CRITICAL)

from feems.components_model.component_electric import (
    Battery,
    ElectricComponent,
    ElectricMachine,
    Genset,
)
from feems.components_model.component_mechanical import Engine
from feems.components_model.utility import IntegrationMethod
from feems.system_model import ElectricPowerSystem
from feems.types_for_feems import TypeComponent, TypePower

BSFC = np.array([[0.25, 220.0], [0.5, 200.0], [0.75, 190.0], [1.0, 195.0]])
EFF = np.array([[0.25, 0.93], [0.5, 0.95], [0.75, 0.96], [1.0, 0.958]])
N = 3
LOAD = np.array([400.0, 500.0, 600.0])


def run(mode, given_power):
    gen = ElectricMachine(
        type_=TypeComponent.GENERATOR, name="gen", rated_power=1000.0, rated_speed=900,
        power_type=TypePower.POWER_SOURCE, switchboard_id=1, eff_curve=EFF,
    )
    eng = Engine(type_=TypeComponent.AUXILIARY_ENGINE, name="eng", rated_power=1050.0,
                 rated_speed=900, bsfc_curve=BSFC)
    genset = Genset("genset", eng, gen)
    battery = Battery("battery", 500.0, 1.0, 1.0, switchboard_id=1)  # rated 500 kW
    load = ElectricComponent(
        type_=TypeComponent.OTHER_LOAD, name="load", rated_power=2000.0,
        eff_curve=np.array([1.0]), power_type=TypePower.POWER_CONSUMER, switchboard_id=1,
    )
    system = ElectricPowerSystem("plant", [genset, battery, load], [])
    system.set_time_interval(1.0, IntegrationMethod.sum_with_time)
    load.set_power_input_from_output(LOAD.copy())
    genset.status = np.ones(N, dtype=bool)
    battery.status = np.ones(N, dtype=bool)
    battery.load_sharing_mode = mode
    battery.set_power_output_from_input(given_power)  # -100 kW = discharging 100 kW
    system.do_power_balance_calculation()
    return genset, battery


def property_holds(genset, battery, mode):
    mode = np.broadcast_to(mode, (N,))
    delivered_battery = -np.broadcast_to(battery.power_input, (N,))
    delivered_genset = np.broadcast_to(genset.power_output, (N,))
    ok = np.allclose(delivered_battery + delivered_genset, LOAD)
    for t in range(N):
        if mode[t] == 0:  # equal sharing: same fraction of rated power
            ok &= abs(delivered_battery[t] / battery.rated_power
                      - delivered_genset[t] / genset.rated_power) < 1e-12
        else:  # fixed: exactly the given 100 kW
            ok &= abs(delivered_battery[t] - 100.0) < 1e-12
    return bool(ok)


CASES = [
    ("reference: series mode [1,0,1], power written out [-100,-100,-100]",
     np.array([1, 0, 1]), np.full(N, -100.0)),
    ("(a) series mode [1,0,1], constant power as single value [-100]",
     np.array([1, 0, 1]), np.array([-100.0])),
    ("(b) constant mode [1], constant power as python float -100.0",
     np.array([1]), -100.0),
]


def main():
    violated = False
    for label, mode, power in CASES:
        try:
            genset, battery = run(mode, power)
        except Exception as exc:  # noqa
            print(f"{label}\n    REFUSED: {type(exc).__name__}: {exc}")
            violated = True
            continue
        ok = property_holds(genset, battery, mode)
        print(f"{label}\n    genset {np.round(genset.power_output, 3)}  battery "
              f"{np.round(-np.asarray(battery.power_input), 3)}  -> property "
              f"{'holds' if ok else 'VIOLATED'}")
        violated |= not ok
    if violated:
        print("VIOLATION: a valid constant given power of a unit in fixed mode is refused")
        return 1
    return 0


if __name__ == "__main__":
    sys.exit(main())
