"""C03 finding 4: an on/off status series held as 0 / 1 numbers in a narrow integer dtype
(uint8 / int8) is refused with OverflowError when the rated power of the unit is a python
integer above the range of that dtype (e.g. rated_power=1000 with uint8 flags). The same status
series as bool, int64 or float, or the same rating as 1000.0, is balanced correctly.

Run:  PYTHONPATH=<wt>/feems:<wt>/machinery-system-structure:<wt>/RunFEEMSSim python finding_4.py
Exit status 1 = property violated (current code), 0 = property holds.
"""
import logging
import sys

import numpy as np

logging.disable(logging.CRITICAL)

from feems.components_model.component_electric import (
    ElectricComponent,
    ElectricMachine,
    Genset,
)
from feems.components_model.component_mechanical import Engine
from feems.components_model.utility import IntegrationMethod
from feems.system_model import ElectricPowerSystem
from feems.types_for_feems import TypeComponent, TypePower

BSFC = np.array([[0.25, 220.0], [0.5, 200.0], [0.75, 190.0], [1.0, 195.0]])
EFF = np.array([[0.25, 0.93], [0.5, 0.95], [0.75, 0.96], [1.0, 0.958]])
N = 3
LOAD = np.array([400.0, 500.0, 600.0])
STATUS_G2 = [1, 0, 1]


def genset(name, rated_kw):
    gen = ElectricMachine(
        type_=TypeComponent.GENERATOR, name="gen " + name, rated_power=rated_kw, rated_speed=900,
        power_type=TypePower.POWER_SOURCE, switchboard_id=1, eff_curve=EFF,
    )
    eng = Engine(type_=TypeComponent.AUXILIARY_ENGINE, name="eng " + name,
                 rated_power=rated_kw * 1.05, rated_speed=900, bsfc_curve=BSFC)
    return Genset(name, eng, gen)


def run(dtype, rated_kw):
    g1, g2 = genset("g1", rated_kw), genset("g2", rated_kw)
    load = ElectricComponent(
        type_=TypeComponent.OTHER_LOAD, name="load", rated_power=2000,
        eff_curve=np.array([1.0]), power_type=TypePower.POWER_CONSUMER, switchboard_id=1,
    )
    system = ElectricPowerSystem("plant", [g1, g2, load], [])
    system.set_time_interval(1.0, IntegrationMethod.sum_with_time)
    load.set_power_input_from_output(LOAD.copy())
    g1.status = np.array([1, 1, 1], dtype=dtype)
    g2.status = np.array(STATUS_G2, dtype=dtype)
    system.do_power_balance_calculation()
    return g1, g2


def property_holds(g1, g2):
    ok = np.allclose(g1.power_output + g2.power_output, LOAD)
    for t in range(N):
        if STATUS_G2[t]:
            ok &= abs(g1.power_output[t] / g1.rated_power
                      - g2.power_output[t] / g2.rated_power) < 1e-12
        else:
            ok &= g2.power_output[t] == 0
    return bool(ok)


def main():
    violated = False
    for dtype, rated in [(bool, 1000), (np.int64, 1000), (np.uint8, 1000.0),
                         (np.uint8, 1000), (np.int8, 1000)]:
        label = f"status dtype {np.dtype(dtype).name:6s} rated_power {rated!r:7}"
        try:
            g1, g2 = run(dtype, rated)
        except Exception as exc:  # noqa
            print(f"{label}: REFUSED {type(exc).__name__}: {exc}")
            violated = True
            continue
        ok = property_holds(g1, g2)
        print(f"{label}: g1 {g1.power_output} g2 {g2.power_output} -> property "
              f"{'holds' if ok else 'VIOLATED'}")
        violated |= not ok
    if violated:
        print("VIOLATION: a valid 0/1 status series is refused because of its dtype")
        return 1
    return 0


if __name__ == "__main__":
    sys.exit(main())
