"""C11 finding 2: in a HybridPropulsionSystem a PTI/PTO whose
given electric power is a constant kept as a single value silently LOSES that power in every
step of the series as soon as one step of the series is in full PTI mode; the result of the
whole series then differs grossly from the same series with the constant written out.

Clause: additivity / independence of the steps: what is calculated for the steps 0, 1 and 3
depends on whether step 2 (full PTI) belongs to the same series.

Plant: one shaft line (main engine, propeller, PTI/PTO), one switchboard (genset, load, the
PTI/PTO).  The PTI/PTO has load sharing mode 1 (given power) and takes 200 kW off the shaft
(-200 kW, PTO) except in the step in full PTI mode.
"""
import logging
import sys

import numpy as np

logging.disable(logging.CRITICAL)

from feems.components_model.component_electric import (
    ElectricComponent,
    ElectricMachine,
    Genset,
    PTIPTO,
)
from feems.components_model.component_mechanical import (
    Engine,
    MainEngineForMechanicalPropulsion,
    MechanicalPropulsionComponent,
)
from feems.components_model.utility import IntegrationMethod
from feems.system_model import (
    ElectricPowerSystem,
    HybridPropulsionSystem,
    MechanicalPropulsionSystem,
)
from feems.types_for_feems import TypeComponent, TypePower

BSFC = np.array([[0.1, 260.0], [0.25, 230.0], [0.5, 205.0], [0.75, 195.0], [1.0, 200.0]])
EFF = np.array([[0.1, 0.90], [0.25, 0.93], [0.5, 0.95], [0.75, 0.96], [1.0, 0.958]])


def build():
    engine = Engine(
        type_=TypeComponent.AUXILIARY_ENGINE, name="aux engine", rated_power=1050,
        rated_speed=900, bsfc_curve=BSFC,
    )
    generator = ElectricMachine(
        type_=TypeComponent.GENERATOR, name="generator", rated_power=1000, rated_speed=900,
        power_type=TypePower.POWER_SOURCE, switchboard_id=1, eff_curve=EFF,
    )
    genset = Genset("genset", engine, generator)
    load = ElectricComponent(
        TypeComponent.OTHER_LOAD, "load", 600, power_type=TypePower.POWER_CONSUMER,
        switchboard_id=1, eff_curve=np.array([1.0]),
    )
    machine = ElectricMachine(
        type_=TypeComponent.SYNCHRONOUS_MACHINE, name="shaft machine", rated_power=800,
        rated_speed=900, power_type=TypePower.PTI_PTO, eff_curve=EFF,
    )
    pti_pto = PTIPTO("pti/pto", [machine], 1, 800, 900, shaft_line_id=1)
    main_engine = MainEngineForMechanicalPropulsion(
        "main engine",
        Engine(type_=TypeComponent.MAIN_ENGINE, name="me", rated_power=3000, rated_speed=500,
               bsfc_curve=BSFC),
        shaft_line_id=1,
    )
    propeller = MechanicalPropulsionComponent(
        TypeComponent.PROPELLER_LOAD, TypePower.POWER_CONSUMER, "propeller", 3000,
        np.array([1.0]), shaft_line_id=1,
    )
    electric = ElectricPowerSystem("electric", [genset, load, pti_pto], [])
    mechanical = MechanicalPropulsionSystem("mechanical", [main_engine, propeller, pti_pto])
    hybrid = HybridPropulsionSystem("hybrid", electric, mechanical)
    return hybrid, genset, load, pti_pto, main_engine, propeller


def calculate(propeller_kw, load_kw, full_pti, pto_kw, interval_s):
    hybrid, genset, load, pti_pto, main_engine, propeller = build()
    n = len(propeller_kw)
    propeller.set_power_input_from_output(np.array(propeller_kw, dtype=float))
    load.set_power_output_from_input(np.array(load_kw, dtype=float))
    genset.status = np.ones(n, dtype=bool)
    main_engine.status = np.ones(n, dtype=bool)
    pti_pto.status = np.ones(n, dtype=bool)
    pti_pto.full_pti_mode = np.array(full_pti, dtype=bool)
    pti_pto.load_sharing_mode = np.ones(1)  # given power, constant
    pti_pto.set_power_output_from_input(np.array(pto_kw, dtype=float))
    dt = np.array(interval_s, dtype=float)
    hybrid.set_time_interval(dt, IntegrationMethod.sum_with_time)
    hybrid.do_power_balance_calculation()
    res = hybrid.get_fuel_energy_consumption_running_time(
        dt, integration_method=IntegrationMethod.sum_with_time
    )
    return np.array(
        [
            res.electric_system.duration_s,
            res.electric_system.fuel_consumption_total_kg,
            res.mechanical_system.fuel_consumption_total_kg,
            res.electric_system.energy_input_mechanical_total_mj,
        ]
    ), pti_pto.power_input.copy()


PROPELLER = [1500.0, 1600.0, 300.0, 1700.0]
LOAD = [400.0, 450.0, 420.0, 380.0]
FULL_PTI = [False, False, True, False]
DT = [60.0, 120.0, 30.0, 90.0]
PTO = -200.0

written_out, power_written_out = calculate(PROPELLER, LOAD, FULL_PTI, [PTO] * 4, DT)
print("[duration s, fuel electric kg, fuel mechanical kg, PTO energy MJ]")
print("whole series, PTO power written out 4 times:", np.round(written_out, 4))
print("   electric power of the PTI/PTO:", np.round(power_written_out, 2))

# The parts of the series, each with the PTO power as a single value
parts = np.zeros(4)
for start, end in ((0, 2), (2, 3), (3, 4)):
    values, power = calculate(
        PROPELLER[start:end], LOAD[start:end], FULL_PTI[start:end], [PTO], DT[start:end]
    )
    print(f"part {start}:{end}, PTO power a single value:", np.round(values, 4),
          " PTI/PTO power:", np.round(power, 2))
    parts += values
print("sum of the three parts                      :", np.round(parts, 4))

whole, power_whole = calculate(PROPELLER, LOAD, FULL_PTI, [PTO], DT)
print("whole series, PTO power a single value      :", np.round(whole, 4))
print("   electric power of the PTI/PTO:", np.round(power_whole, 2))

# (1e-4: the PTI/PTO power of a hybrid system drifts by 1e-6..1e-4 from pass to pass - known)
violated = not np.allclose(whole, parts, rtol=1e-4) or not np.allclose(
    whole, written_out, rtol=1e-4
)
if violated:
    print("VIOLATED: the whole series is not the sum of its parts: the steps without full PTI "
          "lose the given PTO power because another step of the series is in full PTI mode")
    sys.exit(1)
print("property holds")
sys.exit(0)
