"""C11 finding 4: a series in which an energy-storage unit changes between "given power" and
"shares the load" (load sharing mode 1 / 0 per step) is refused when the given power is a
constant kept as a single value - although the input check of the balance explicitly admits a
power input of size 1 next to N points, although the same constant written out N times is
calculated, and although every part of the series in which the mode does not change is
calculated with the single value.  The whole can therefore not be compared with its parts.

Clauses: additivity over a split; "series in which ... unit statuses change".
(Constants kept as single values are admitted on the electric side: loads, statuses, sharing
modes, breaker positions, and the given power itself as long as the mode is a single value too.)
"""
import logging
import sys

import numpy as np

logging.disable(logging.CRITICAL)

from feems.components_model.component_electric import (
    Battery,
    BatterySystem,
    ElectricComponent,
    ElectricMachine,
    Genset,
)
from feems.components_model.component_mechanical import Engine
from feems.components_model.utility import IntegrationMethod
from feems.system_model import ElectricPowerSystem
from feems.types_for_feems import TypeComponent, TypePower

BSFC = np.array([[0.1, 260.0], [0.25, 230.0], [0.5, 205.0], [0.75, 195.0], [1.0, 200.0]])
EFF = np.array([[0.1, 0.90], [0.25, 0.93], [0.5, 0.95], [0.75, 0.96], [1.0, 0.958]])


def build():
    engine = Engine(
        type_=TypeComponent.AUXILIARY_ENGINE, name="engine", rated_power=1050, rated_speed=900,
        bsfc_curve=BSFC,
    )
    generator = ElectricMachine(
        type_=TypeComponent.GENERATOR, name="generator", rated_power=1000, rated_speed=900,
        power_type=TypePower.POWER_SOURCE, switchboard_id=1, eff_curve=EFF,
    )
    genset = Genset("genset", engine, generator)
    load = ElectricComponent(
        TypeComponent.OTHER_LOAD, "load", 600, power_type=TypePower.POWER_CONSUMER,
        switchboard_id=1, eff_curve=np.array([1.0]),
    )
    converter = ElectricComponent(
        TypeComponent.POWER_CONVERTER, "converter", 300, EFF, switchboard_id=1
    )
    battery = BatterySystem(
        "battery", Battery("cells", 300, 1, 1, switchboard_id=1), converter, switchboard_id=1
    )
    return ElectricPowerSystem("plant", [genset, load, battery], []), genset, load, battery


def calculate(load_kw, mode, battery_kw, interval_s):
    system, genset, load, battery = build()
    load.set_power_output_from_input(np.array(load_kw, dtype=float))
    genset.status = np.ones(1, dtype=bool)  # constant
    battery.status = np.ones(1, dtype=bool)  # constant
    battery.load_sharing_mode = np.array(mode, dtype=float)
    battery.set_power_output_from_input(np.array(battery_kw, dtype=float))
    system.set_time_interval(np.array(interval_s, dtype=float), IntegrationMethod.sum_with_time)
    system.do_power_balance_calculation()
    res = system.get_fuel_energy_consumption_running_time()
    return np.array(
        [res.duration_s, res.fuel_consumption_total_kg, res.energy_stored_total_mj,
         res.running_hours_genset_total_hr]
    )


LOAD = [300.0, 400.0, 350.0, 320.0]
MODE = [1.0, 1.0, 0.0, 0.0]  # given power in the first two steps, sharing afterwards
DT = [60.0, 120.0, 30.0, 90.0]
POWER = -100.0  # the battery discharges 100 kW whenever its power is given

written_out = calculate(LOAD, MODE, [POWER] * 4, DT)
print("constant written out 4 times      :", np.round(written_out, 6))
part_1 = calculate(LOAD[:2], [1.0], [POWER], DT[:2])  # mode and power single values
part_2 = calculate(LOAD[2:], [0.0], [POWER], DT[2:])
print("sum of the two parts, single value :", np.round(part_1 + part_2, 6))
violated = not np.allclose(written_out, part_1 + part_2, rtol=1e-9)
try:
    whole = calculate(LOAD, MODE, [POWER], DT)
    print("whole series, power a single value :", np.round(whole, 6))
    violated |= not np.allclose(whole, written_out, rtol=1e-9)
except Exception as error:  # noqa
    print(f"whole series, power a single value : REFUSED with {type(error).__name__}: {error}")
    violated = True

if violated:
    print("VIOLATED: the whole series is refused while its parts and its written-out form agree")
    sys.exit(1)
print("property holds")
sys.exit(0)
