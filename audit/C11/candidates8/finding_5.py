"""C11 finding 5: a single operating point in which the given power of an energy-storage unit
(or of a PTI/PTO) is a plain python number is refused, although the same point as a one-element
series is calculated, and although the consumers of the same plant take plain numbers.

Clause: "A single operating point gives the same result as a series of length one".

Plant: one switchboard, genset, load, battery system with a given power (load sharing mode 1),
PTI/PTO with a given power.  component.set_power_output_from_input is declared
Union[float, np.ndarray].  A second representation of the single point is refused too: the time
interval as a 0-d numpy array (np.ndarray is a declared type of the time interval).
"""
import logging
import sys

import numpy as np

logging.disable(logging.CRITICAL)

from feems.components_model.component_electric import (
    Battery,
    BatterySystem,
    ElectricComponent,
    ElectricMachine,
    Genset,
    PTIPTO,
)
from feems.components_model.component_mechanical import Engine
from feems.components_model.utility import IntegrationMethod
from feems.system_model import ElectricPowerSystem
from feems.types_for_feems import TypeComponent, TypePower

BSFC = np.array([[0.1, 260.0], [0.25, 230.0], [0.5, 205.0], [0.75, 195.0], [1.0, 200.0]])
EFF = np.array([[0.1, 0.90], [0.25, 0.93], [0.5, 0.95], [0.75, 0.96], [1.0, 0.958]])


def build():
    engine = Engine(
        type_=TypeComponent.AUXILIARY_ENGINE, name="engine", rated_power=1050, rated_speed=900,
        bsfc_curve=BSFC,
    )
    generator = ElectricMachine(
        type_=TypeComponent.GENERATOR, name="generator", rated_power=1000, rated_speed=900,
        power_type=TypePower.POWER_SOURCE, switchboard_id=1, eff_curve=EFF,
    )
    genset = Genset("genset", engine, generator)
    load = ElectricComponent(
        TypeComponent.OTHER_LOAD, "load", 600, power_type=TypePower.POWER_CONSUMER,
        switchboard_id=1, eff_curve=np.array([1.0]),
    )
    converter = ElectricComponent(
        TypeComponent.POWER_CONVERTER, "converter", 300, EFF, switchboard_id=1
    )
    battery = BatterySystem(
        "battery", Battery("cells", 300, 1, 1, switchboard_id=1), converter, switchboard_id=1
    )
    machine = ElectricMachine(
        type_=TypeComponent.SYNCHRONOUS_MACHINE, name="shaft machine", rated_power=500,
        rated_speed=900, power_type=TypePower.PTI_PTO, eff_curve=EFF,
    )
    pti_pto = PTIPTO("pti/pto", [machine], 1, 500, 900)
    system = ElectricPowerSystem("plant", [genset, load, battery, pti_pto], [])
    return system, genset, load, battery, pti_pto


def calculate(load_kw, battery_kw, pti_pto_kw, interval_s):
    system, genset, load, battery, pti_pto = build()
    load.set_power_output_from_input(load_kw)
    genset.status = np.ones(1, dtype=bool)
    for unit, power in ((battery, battery_kw), (pti_pto, pti_pto_kw)):
        unit.status = np.ones(1, dtype=bool)
        unit.load_sharing_mode = np.ones(1)  # given power
        unit.set_power_output_from_input(power)
    system.set_time_interval(interval_s, IntegrationMethod.sum_with_time)
    system.do_power_balance_calculation()
    res = system.get_fuel_energy_consumption_running_time()
    return (
        res.duration_s,
        res.fuel_consumption_total_kg,
        res.energy_stored_total_mj,
        res.energy_input_mechanical_total_mj,
        res.running_hours_genset_total_hr,
    )


reference = calculate(np.array([300.0]), np.array([-100.0]), np.array([-50.0]), np.array([60.0]))
print("series of length one (all one-element arrays):", np.round(reference, 6))

cases = {
    "load as python float (accepted)": (300.0, np.array([-100.0]), np.array([-50.0]), 60.0),
    "battery power as python float": (300.0, -100.0, np.array([-50.0]), 60.0),
    "battery power as python int": (300.0, -100, np.array([-50.0]), 60.0),
    "PTI/PTO power as python float": (300.0, np.array([-100.0]), -50.0, 60.0),
    "time interval as 0-d array": (
        np.array([300.0]), np.array([-100.0]), np.array([-50.0]), np.array(60.0),
    ),
}
violated = False
for name, args in cases.items():
    try:
        values = calculate(*args)
        same = np.allclose(values, reference, rtol=1e-9)
        print(f"{name}: {np.round(values, 6)} {'same' if same else 'DIFFERENT'}")
        violated |= not same
    except Exception as error:  # noqa
        print(f"{name}: REFUSED with {type(error).__name__}: {str(error)[:90]}")
        violated = True

if violated:
    print("VIOLATED: a single operating point does not give the result of a series of length one")
    sys.exit(1)
print("property holds")
sys.exit(0)
