"""C11 finding 3: MachineryCalculation.calculate_machinery_system_output_from_time_series_result
is not additive over a split of the time series: whether the auxiliary power of the SAMPLES or
the single auxiliary power of the MESSAGE is used is decided once for the whole series
(convert_proto_timeseries_to_pd_dataframe: "if all samples are 0, take the message value").

Clause: "every extensive result of a calculation over a sequence of intervals equals the sum of
the results over any split of the sequence into consecutive parts".

Input: a TimeSeriesResult message whose samples carry their own auxiliary power (0 kW in the
first two intervals, 300 kW afterwards) and whose message-level auxiliary_power_kw is 200 kW.
It is cut at the third time stamp into two consecutive messages (the boundary sample closes the
first part and opens the second, both keep the message-level field).
"""
import logging
import sys

import numpy as np

logging.disable(logging.CRITICAL)

import MachSysS.gymir_result_pb2 as proto_gymir
from feems.components_model.component_electric import (
    ElectricComponent,
    ElectricMachine,
    Genset,
)
from feems.components_model.component_mechanical import Engine
from feems.system_model import ElectricPowerSystem
from feems.types_for_feems import TypeComponent, TypePower
from RunFeemsSim.machinery_calculation import MachineryCalculation

BSFC = np.array([[0.1, 260.0], [0.25, 230.0], [0.5, 205.0], [0.75, 195.0], [1.0, 200.0]])
EFF = np.array([[0.1, 0.90], [0.25, 0.93], [0.5, 0.95], [0.75, 0.96], [1.0, 0.958]])


def genset(name, power):
    engine = Engine(
        type_=TypeComponent.AUXILIARY_ENGINE, name=name + " engine", rated_power=power / 0.95,
        rated_speed=900, bsfc_curve=BSFC,
    )
    generator = ElectricMachine(
        type_=TypeComponent.GENERATOR, name=name + " generator", rated_power=power,
        rated_speed=900, power_type=TypePower.POWER_SOURCE, switchboard_id=1, eff_curve=EFF,
    )
    return Genset(name, engine, generator)


def build():
    drive = ElectricComponent(
        TypeComponent.PROPULSION_DRIVE, "drive", 1500, EFF, power_type=TypePower.POWER_CONSUMER,
        switchboard_id=1,
    )
    hotel = ElectricComponent(
        TypeComponent.OTHER_LOAD, "hotel", 600, np.array([1.0]),
        power_type=TypePower.POWER_CONSUMER, switchboard_id=1,
    )
    return ElectricPowerSystem("plant", [genset("G1", 1000), genset("G2", 800), drive, hotel], [])


def message(epoch_s, propulsion_kw, auxiliary_kw, auxiliary_message_kw):
    msg = proto_gymir.TimeSeriesResult(auxiliary_power_kw=auxiliary_message_kw)
    for t, p, a in zip(epoch_s, propulsion_kw, auxiliary_kw):
        msg.propulsion_power_timeseries.append(
            proto_gymir.PropulsionPowerInstance(
                epoch_s=t, propulsion_power_kw=p, auxiliary_power_kw=a
            )
        )
    return msg


def calculate(epoch_s, propulsion_kw, auxiliary_kw, auxiliary_message_kw):
    calculation = MachineryCalculation(build())
    return calculation.calculate_machinery_system_output_from_time_series_result(
        time_series=message(epoch_s, propulsion_kw, auxiliary_kw, auxiliary_message_kw)
    )


T = [0.0, 600.0, 1200.0, 1800.0, 2400.0]
P = [500.0, 600.0, 700.0, 800.0, 0.0]
A = [0.0, 0.0, 0.0, 300.0, 300.0]  # auxiliary power of the samples
A_MESSAGE = 200.0  # auxiliary power of the message
CUT = 2  # the third time stamp

whole = calculate(T, P, A, A_MESSAGE)
first = calculate(T[: CUT + 1], P[: CUT + 1], A[: CUT + 1], A_MESSAGE)
second = calculate(T[CUT:], P[CUT:], A[CUT:], A_MESSAGE)
parts = first.sum_and_extend_duration(second)

rows = [
    ("duration [s]", whole.duration_s, parts.duration_s),
    ("fuel [kg]", whole.fuel_consumption_total_kg, parts.fuel_consumption_total_kg),
    (
        "auxiliary energy [MJ]",
        whole.energy_consumption_auxiliary_total_mj,
        parts.energy_consumption_auxiliary_total_mj,
    ),
    (
        "propulsion energy [MJ]",
        whole.energy_consumption_propulsion_total_mj,
        parts.energy_consumption_propulsion_total_mj,
    ),
    (
        "CO2 tank to wake [kg]",
        whole.co2_emission_total_kg.tank_to_wake_kg_or_gco2eq_per_gfuel,
        parts.co2_emission_total_kg.tank_to_wake_kg_or_gco2eq_per_gfuel,
    ),
    (
        "running hours gensets [h]",
        whole.running_hours_genset_total_hr,
        parts.running_hours_genset_total_hr,
    ),
]
violated = False
print(f"{'':28s}{'whole series':>16s}{'sum of 2 parts':>16s}")
for name, value_whole, value_parts in rows:
    flag = "" if np.isclose(value_whole, value_parts, rtol=1e-9) else "   <-- differs"
    violated |= bool(flag)
    print(f"{name:28s}{value_whole:16.6f}{value_parts:16.6f}{flag}")

# The expected auxiliary energy: 0 kW for 1200 s + 300 kW for 600 s (the last sample closes the
# series and carries no interval)
print("auxiliary energy of the samples by hand: %.1f MJ" % ((0 * 1200 + 300 * 600) / 1000))

if violated:
    print("VIOLATED: the result of the whole series is not the sum of the results of its parts")
    sys.exit(1)
print("property holds")
sys.exit(0)
