"""C11 finding 1: a single operating point calculated on a plant that has calculated a series
before is balanced as a series of the OLD length, and its results are refused.

Clause: "A single operating point gives the same result as a series of length one" /
"equals the sum of the results over any split" when the parts are calculated one after the other
on the same plant objects (one-shot versus step-by-step).

Plant: one switchboard, one genset, one load, one battery system that shares the load
(load sharing mode 0).  Every input is given again for the second calculation.
"""
import logging
import sys

import numpy as np

logging.disable(logging.CRITICAL)

from feems.components_model.component_electric import (
    Battery,
    BatterySystem,
    ElectricComponent,
    ElectricMachine,
    Genset,
)
from feems.components_model.component_mechanical import Engine
from feems.components_model.utility import IntegrationMethod
from feems.system_model import ElectricPowerSystem
from feems.types_for_feems import TypeComponent, TypePower

BSFC = np.array([[0.1, 260.0], [0.25, 230.0], [0.5, 205.0], [0.75, 195.0], [1.0, 200.0]])
EFF = np.array([[0.1, 0.90], [0.25, 0.93], [0.5, 0.95], [0.75, 0.96], [1.0, 0.958]])


def build():
    engine = Engine(
        type_=TypeComponent.AUXILIARY_ENGINE, name="engine", rated_power=1050, rated_speed=900,
        bsfc_curve=BSFC,
    )
    generator = ElectricMachine(
        type_=TypeComponent.GENERATOR, name="generator", rated_power=1000, rated_speed=900,
        power_type=TypePower.POWER_SOURCE, switchboard_id=1, eff_curve=EFF,
    )
    genset = Genset("genset", engine, generator)
    load = ElectricComponent(
        TypeComponent.OTHER_LOAD, "load", 600, power_type=TypePower.POWER_CONSUMER,
        switchboard_id=1, eff_curve=np.array([1.0]),
    )
    converter = ElectricComponent(
        TypeComponent.POWER_CONVERTER, "converter", 300, EFF, switchboard_id=1
    )
    battery = BatterySystem(
        "battery", Battery("cells", 300, 1, 1, switchboard_id=1), converter, switchboard_id=1
    )
    system = ElectricPowerSystem("plant", [genset, load, battery], [])
    return system, genset, load, battery


def calculate(plant, load_kw, interval_s):
    """Every input of the calculation is given (again): load, status, sharing mode, intervals"""
    system, genset, load, battery = plant
    n = len(load_kw)
    load.set_power_output_from_input(np.array(load_kw, dtype=float))
    genset.status = np.ones(n, dtype=bool)
    genset.load_sharing_mode = np.zeros(n)
    battery.status = np.ones(n, dtype=bool)
    battery.load_sharing_mode = np.zeros(n)  # shares the load with the genset
    system.set_time_interval(np.array(interval_s, dtype=float), IntegrationMethod.sum_with_time)
    system.do_power_balance_calculation()
    length = genset.power_output.size
    result = system.get_fuel_energy_consumption_running_time()
    return result, length


LOAD = [300.0, 400.0, 350.0]
DT = [60.0, 120.0, 30.0]

# Reference: every step on a plant of its own
reference = []
for load_kw, dt in zip(LOAD, DT):
    res, _ = calculate(build(), [load_kw], [dt])
    reference.append(res)
fuel_steps = sum(r.fuel_consumption_total_kg for r in reference)
duration_steps = sum(r.duration_s for r in reference)

# One shot, then step by step on the SAME plant
plant = build()
one_shot, _ = calculate(plant, LOAD, DT)
print(f"one shot: fuel {one_shot.fuel_consumption_total_kg:.6f} kg, duration {one_shot.duration_s} s")
print(f"sum of the steps on fresh plants: fuel {fuel_steps:.6f} kg, duration {duration_steps} s")

violated = False
try:
    fuel = 0.0
    for load_kw, dt in zip(LOAD, DT):
        res, length = calculate(plant, [load_kw], [dt])
        if length != 1:
            print(f"the genset power series of a ONE point calculation has {length} points")
            violated = True
        fuel += res.fuel_consumption_total_kg
    print(f"step by step on the same plant: fuel {fuel:.6f} kg")
    if not np.isclose(fuel, one_shot.fuel_consumption_total_kg, rtol=1e-9):
        violated = True
except Exception as error:  # noqa
    print(
        "step by step on the plant that calculated the series before is REFUSED: "
        f"{type(error).__name__}: {error}"
    )
    print(
        "length of the genset power series after the one point balance:",
        plant[1].power_output.size,
        "(battery power_input:", plant[3].power_input.size, "points)",
    )
    violated = True

if violated:
    print("VIOLATED: a single operating point is not calculated like a series of length one")
    sys.exit(1)
print("property holds")
sys.exit(0)
