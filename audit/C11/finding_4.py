"""C11 finding 3: a single operating point whose interval is a numpy number (what dt[i] is when
the intervals are kept in an integer or float32 array, the natural way to walk through a series
step by step).  ElectricPowerSystem / MechanicalPropulsionSystem accept it (set_time_interval
turns it into a python number), but the node-level entry points
Switchboard.get_fuel_energy_consumption_running_time[_without_details] and
ShaftLine.get_fuel_calculation_running_hours integrate everything and then fail in
get_duration_s with an empty NotImplementedError; the same happens for a series whose intervals
are a tuple.  A one-element array with the same value gives the result.
Exit status 1 = property violated."""
import logging, sys
import numpy as np

logging.disable(logging.CRITICAL)
from feems.components_model.component_electric import ElectricComponent, ElectricMachine, Genset
from feems.components_model.component_mechanical import (
    Engine, MainEngineForMechanicalPropulsion, MechanicalPropulsionComponent)
from feems.components_model.utility import IntegrationMethod
from feems.system_model import ElectricPowerSystem, MechanicalPropulsionSystem
from feems.types_for_feems import TypeComponent, TypePower

BSFC = np.array([[0.25, 230.0], [0.5, 205.0], [0.75, 195.0], [1.0, 200.0]])
EFF = np.array([[0.25, 0.90], [0.5, 0.94], [0.75, 0.96], [1.0, 0.955]])
SWT = IntegrationMethod.sum_with_time
dt_all = np.array([60, 600, 30])          # whole seconds: an integer array
load_all = np.array([300.0, 350.0, 400.0])


def electric(i, dt):
    g1 = Genset("g1",
                Engine(type_=TypeComponent.AUXILIARY_ENGINE, name="e1", rated_power=1100.0,
                       rated_speed=900.0, bsfc_curve=BSFC),
                ElectricMachine(type_=TypeComponent.GENERATOR, name="gen1", rated_power=1000.0,
                                rated_speed=900.0, power_type=TypePower.POWER_SOURCE,
                                switchboard_id=1, eff_curve=EFF))
    hotel = ElectricComponent(TypeComponent.OTHER_LOAD, "hotel", 500.0, np.array([1.0]),
                              TypePower.POWER_CONSUMER, switchboard_id=1)
    system = ElectricPowerSystem("plant", [g1, hotel], [])
    hotel.set_power_input_from_output(load_all[i:i + 1].copy())
    g1.status = np.ones(1, dtype=bool)
    system.set_time_interval(dt, SWT)
    system.do_power_balance_calculation()
    return system


def mechanical(i, dt):
    me = MainEngineForMechanicalPropulsion(
        "me", Engine(type_=TypeComponent.MAIN_ENGINE, name="me engine", rated_power=4000.0,
                     rated_speed=120.0, bsfc_curve=BSFC))
    prop = MechanicalPropulsionComponent(TypeComponent.PROPELLER_LOAD, TypePower.POWER_CONSUMER,
                                         "propeller", 4000.0, np.array([1.0]))
    system = MechanicalPropulsionSystem("shaft", [me, prop])
    prop.set_power_input_from_output(10 * load_all[i:i + 1])
    me.status = np.ones(1, dtype=bool)
    system.set_time_interval(dt, SWT)
    system.do_power_balance()
    return system


violated = False
i = 1
dt_i = dt_all[i]                          # numpy.int64
print("interval of step %d: %r (%s)" % (i, dt_i, type(dt_i).__name__))

sys_e = electric(i, dt_i)
res_system = sys_e.get_fuel_energy_consumption_running_time()
print("ElectricPowerSystem          : fuel %.6f kg, duration %s s"
      % (res_system.fuel_consumption_total_kg, res_system.duration_s))
swb = sys_e.switchboards[1]
res_len1 = swb.get_fuel_energy_consumption_running_time(dt_all[i:i + 1], SWT)
print("Switchboard, array([600])    : fuel %.6f kg, duration %s s"
      % (res_len1.fuel_consumption_total_kg, res_len1.duration_s))
for label, call in [
    ("Switchboard, numpy.int64(600)", lambda: swb.get_fuel_energy_consumption_running_time(dt_i, SWT)),
    ("Switchboard w/o details, numpy.int64(600)",
     lambda: swb.get_fuel_energy_consumption_running_time_without_details(dt_i, SWT)),
    ("Switchboard, numpy.float32(600)",
     lambda: swb.get_fuel_energy_consumption_running_time(np.float32(600), SWT)),
]:
    try:
        r = call()
        same = np.isclose(r.fuel_consumption_total_kg, res_len1.fuel_consumption_total_kg) and \
            np.isclose(r.duration_s, 600.0)
        print("%-45s: fuel %.6f kg, duration %s s" % (label, r.fuel_consumption_total_kg, r.duration_s))
        violated |= not same
    except Exception as exc:  # noqa
        print("%-45s: REFUSED with %s(%s)" % (label, type(exc).__name__, exc))
        violated = True

sys_m = mechanical(i, dt_i)
res_system = sys_m.get_fuel_energy_consumption_running_time()
print("MechanicalPropulsionSystem   : fuel %.6f kg, duration %s s"
      % (res_system.fuel_consumption_total_kg, res_system.duration_s))
shaft = sys_m.shaft_line[0]
try:
    r = shaft.get_fuel_calculation_running_hours(dt_i, SWT)
    print("ShaftLine, numpy.int64(600)  : fuel %.6f kg, duration %s s"
          % (r.fuel_consumption_total_kg, r.duration_s))
    violated |= not np.isclose(r.duration_s, 600.0)
except Exception as exc:  # noqa
    print("ShaftLine, numpy.int64(600)  : REFUSED with %s(%s)" % (type(exc).__name__, exc))
    violated = True

print("VIOLATED: single operating point != series of length one at the node level"
      if violated else "property holds")
sys.exit(1 if violated else 0)
