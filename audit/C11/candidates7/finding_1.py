"""C11 finding 1: an idle electric propulsion drive (it keeps the single default value 0 kW)
on a switchboard without other consumers.  The power balance accepts it for a series of any
length (a single value stands for the whole series), a series of length one gives a result,
but the result of a series longer than one is refused with IntegrationError.  So the whole
is not the sum of its parts.  The same plant with the idle consumer typed OTHER_LOAD works.
Exit status 1 = property violated."""
import logging, sys
import numpy as np

logging.disable(logging.CRITICAL)
from feems.components_model.component_electric import ElectricComponent, ElectricMachine, Genset
from feems.components_model.component_mechanical import Engine
from feems.components_model.utility import IntegrationMethod
from feems.system_model import ElectricPowerSystem
from feems.types_for_feems import TypeComponent, TypePower

BSFC = np.array([[0.25, 230.0], [0.5, 205.0], [0.75, 195.0], [1.0, 200.0]])
EFF = np.array([[0.25, 0.90], [0.5, 0.94], [0.75, 0.96], [1.0, 0.955]])
LOAD = np.array([300.0, 350.0, 400.0])
DT = np.array([60.0, 600.0, 30.0])


def genset(name, swb):
    return Genset(
        name,
        Engine(type_=TypeComponent.AUXILIARY_ENGINE, name=name + " engine", rated_power=1100.0,
               rated_speed=900.0, bsfc_curve=BSFC),
        ElectricMachine(type_=TypeComponent.GENERATOR, name=name + " generator", rated_power=1000.0,
                        rated_speed=900.0, power_type=TypePower.POWER_SOURCE, switchboard_id=swb,
                        eff_curve=EFF),
    )


def run(idx, type_idle=TypeComponent.PROPULSION_DRIVE):
    g1, g2 = genset("g1", 1), genset("g2", 2)
    hotel = ElectricComponent(TypeComponent.OTHER_LOAD, "hotel", 500.0, np.array([1.0]),
                              TypePower.POWER_CONSUMER, switchboard_id=1)
    # never given a load: keeps power_input = power_output = array([0])
    thruster = ElectricComponent(type_idle, "bow thruster", 800.0, np.array([0.95]),
                                 TypePower.POWER_CONSUMER, switchboard_id=2)
    system = ElectricPowerSystem("plant", [g1, hotel, g2, thruster], [(1, 2)])
    n = len(idx)
    hotel.set_power_input_from_output(LOAD[idx].copy())
    for g in (g1, g2):
        g.status = np.ones(n, dtype=bool)
        g.load_sharing_mode = np.zeros(n)
    system.set_time_interval(DT[idx].copy(), IntegrationMethod.sum_with_time)
    system.do_power_balance_calculation()
    res = system.get_fuel_energy_consumption_running_time()
    return np.array([res.fuel_consumption_total_kg, res.duration_s,
                     res.running_hours_genset_total_hr, res.energy_consumption_auxiliary_total_mj,
                     res.energy_consumption_propulsion_total_mj])


parts = sum(run(np.array([i])) for i in range(3))
print("sum of the three one-step results [fuel kg, duration s, genset h, aux MJ, prop MJ]:", parts)
reference = run(np.arange(3), TypeComponent.OTHER_LOAD)
print("same series, idle consumer typed OTHER_LOAD                                      :", reference)
try:
    whole = run(np.arange(3))
except Exception as exc:  # noqa
    print("whole series with the idle PROPULSION_DRIVE is REFUSED:", type(exc).__name__, "-", str(exc)[:90])
    print("VIOLATED: the series of three intervals has no result although every part has one")
    sys.exit(1)
print("whole series:", whole)
if not np.allclose(whole, parts, rtol=1e-9):
    print("VIOLATED: whole != sum of parts")
    sys.exit(1)
print("property holds")
sys.exit(0)
