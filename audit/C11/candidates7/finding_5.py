"""C11 finding 5 (entry point outside the three anchor files, but it feeds them): the time
series entry point MachineryCalculation.calculate_machinery_system_output_from_time_series_result.
convert_proto_timeseries_to_pd_dataframe replaces the per-sample auxiliary power by the
message-level constant auxiliary_power_kw when ALL samples of the message carry 0 kW
("(np.array(auxiliary_power) == 0).all()").  That test looks at the whole message, so what a
sample contributes depends on the other samples: a message split into two consecutive messages
(same constant) gives another total when one part happens to contain only samples with 0 kW
auxiliary power.  Even the sample at the last time stamp, which has no interval of its own,
takes part in the test.  Exit status 1 = property violated."""
import logging, sys
import numpy as np

logging.disable(logging.CRITICAL)
import MachSysS.gymir_result_pb2 as proto_gymir
from RunFeemsSim.machinery_calculation import MachineryCalculation
from feems.components_model.component_electric import (
    ElectricComponent, ElectricMachine, Genset)
from feems.components_model.component_mechanical import Engine
from feems.system_model import ElectricPowerSystem
from feems.types_for_feems import TypeComponent, TypePower

BSFC = np.array([[0.25, 230.0], [0.5, 205.0], [0.75, 195.0], [1.0, 200.0]])
EFF = np.array([[0.25, 0.90], [0.5, 0.94], [0.75, 0.96], [1.0, 0.955]])

T = [0.0, 600.0, 1200.0, 1800.0, 2400.0, 3000.0, 3600.0]
P = [800.0, 900.0, 700.0, 850.0, 950.0, 900.0, 0.0]
AUX = [0.0, 0.0, 0.0, 0.0, 300.0, 300.0, 300.0]   # no auxiliary consumption in the first half hour
AUX_CONSTANT = 200.0                               # message-level field, filled in as well


def plant():
    def genset(name):
        return Genset(
            name,
            Engine(type_=TypeComponent.AUXILIARY_ENGINE, name=name + " engine", rated_power=1100.0,
                   rated_speed=900.0, bsfc_curve=BSFC),
            ElectricMachine(type_=TypeComponent.GENERATOR, name=name + " gen", rated_power=1000.0,
                            rated_speed=900.0, power_type=TypePower.POWER_SOURCE, switchboard_id=1,
                            eff_curve=EFF))
    drive = ElectricComponent(TypeComponent.PROPULSION_DRIVE, "drive", 1500.0, np.array([0.95]),
                              TypePower.POWER_CONSUMER, switchboard_id=1)
    hotel = ElectricComponent(TypeComponent.OTHER_LOAD, "hotel", 500.0, np.array([1.0]),
                              TypePower.POWER_CONSUMER, switchboard_id=1)
    return ElectricPowerSystem("plant", [genset("g1"), genset("g2"), drive, hotel], [])


def run(first, last):
    message = proto_gymir.TimeSeriesResult(auxiliary_power_kw=AUX_CONSTANT)
    for k in range(first, last + 1):
        message.propulsion_power_timeseries.append(proto_gymir.PropulsionPowerInstance(
            epoch_s=T[k], propulsion_power_kw=P[k], auxiliary_power_kw=AUX[k]))
    res = MachineryCalculation(plant()).calculate_machinery_system_output_from_time_series_result(
        time_series=message)
    return np.array([res.duration_s, res.fuel_consumption_total_kg,
                     res.energy_consumption_auxiliary_total_mj,
                     res.energy_consumption_propulsion_total_mj])


whole = run(0, 6)
part1, part2 = run(0, 3), run(3, 6)
print("                         [duration s, fuel kg, auxiliary MJ, propulsion MJ]")
print("whole message 0..3600 s :", whole)
print("part 0..1800 s          :", part1)
print("part 1800..3600 s       :", part2)
print("sum of the parts        :", part1 + part2)
expected_aux = sum(AUX[k] * (T[k + 1] - T[k]) for k in range(6)) / 1000
print("auxiliary energy of the samples as given: %.1f MJ" % expected_aux)
if not np.allclose(whole, part1 + part2, rtol=1e-9):
    print("VIOLATED: the result of the whole message is not the sum of the results of its parts")
    sys.exit(1)
print("property holds")
sys.exit(0)
