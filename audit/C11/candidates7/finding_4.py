"""C11 finding 4: a single operating point given as plain numbers.  The power setters are
declared Union[float, np.ndarray]; consumers given as python floats are balanced and give the
same result as one-element arrays.  A battery or a PTI/PTO whose given power (load sharing mode
1) is a python float is refused by the power balance with AttributeError ('float' object has no
attribute 'size'); as numpy.float64 it is refused with ValueError.
Exit status 1 = property violated."""
import logging, sys
import numpy as np

logging.disable(logging.CRITICAL)
from feems.components_model.component_electric import (
    Battery, ElectricComponent, ElectricMachine, Genset, PTIPTO)
from feems.components_model.component_mechanical import Engine
from feems.components_model.utility import IntegrationMethod
from feems.system_model import ElectricPowerSystem
from feems.types_for_feems import TypeComponent, TypePower

BSFC = np.array([[0.25, 230.0], [0.5, 205.0], [0.75, 195.0], [1.0, 200.0]])
EFF = np.array([[0.25, 0.90], [0.5, 0.94], [0.75, 0.96], [1.0, 0.955]])


def run(wrap, storage):
    g1 = Genset("g1",
                Engine(type_=TypeComponent.AUXILIARY_ENGINE, name="e1", rated_power=1100.0,
                       rated_speed=900.0, bsfc_curve=BSFC),
                ElectricMachine(type_=TypeComponent.GENERATOR, name="gen1", rated_power=1000.0,
                                rated_speed=900.0, power_type=TypePower.POWER_SOURCE,
                                switchboard_id=1, eff_curve=EFF))
    hotel = ElectricComponent(TypeComponent.OTHER_LOAD, "hotel", 500.0, np.array([1.0]),
                              TypePower.POWER_CONSUMER, switchboard_id=1)
    components = [g1, hotel]
    if storage == "battery":
        unit = Battery("battery", 1000.0, 1.0, 1.0, switchboard_id=1)
    elif storage == "pti/pto":
        unit = PTIPTO("pto", [ElectricMachine(type_=TypeComponent.SYNCHRONOUS_MACHINE, name="m",
                                              rated_power=500.0, rated_speed=900.0,
                                              power_type=TypePower.PTI_PTO, switchboard_id=1,
                                              eff_curve=EFF)], 1, 500.0, 900.0)
    else:
        unit = None
    if unit is not None:
        components.append(unit)
    system = ElectricPowerSystem("plant", components, [])
    hotel.set_power_input_from_output(wrap(400.0))
    g1.status = np.ones(1, dtype=bool)
    if unit is not None:
        unit.status = np.ones(1, dtype=bool)
        unit.load_sharing_mode = np.ones(1)            # given power
        unit.set_power_output_from_input(wrap(-150.0))  # 150 kW to the bus
    system.set_time_interval(600.0, IntegrationMethod.sum_with_time)
    system.do_power_balance_calculation()
    res = system.get_fuel_energy_consumption_running_time()
    return np.array([res.fuel_consumption_total_kg, res.duration_s, res.energy_stored_total_mj,
                     res.energy_input_mechanical_total_mj, res.running_hours_genset_total_hr])


as_array = lambda x: np.array([x])
as_float = lambda x: float(x)
as_np_float = lambda x: np.float64(x)
violated = False
for storage in ["none", "battery", "pti/pto"]:
    ref = run(as_array, storage)
    for label, wrap in [("python float", as_float), ("numpy.float64", as_np_float)]:
        try:
            got = run(wrap, storage)
            same = np.allclose(got, ref, rtol=1e-9)
            print("%-8s %-13s: %s %s" % (storage, label, got, "= length-one series" if same else "!= " + str(ref)))
            violated |= not same
        except Exception as exc:  # noqa
            print("%-8s %-13s: REFUSED %s: %s   (length-one series gives %s)"
                  % (storage, label, type(exc).__name__, str(exc)[:70], ref))
            violated = True
print("VIOLATED" if violated else "property holds")
sys.exit(1 if violated else 0)
