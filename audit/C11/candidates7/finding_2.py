"""C11 finding 2: FEEMSResult.sum_and_extend_duration is the public operation that adds the
result of a second run of consecutive intervals to the first ("sum two results and extend the
duration").  The totals and the duration come out as the sum, but the per-component table
(detail_result: fuel, energy, running hours, CO2, NOx of every genset) is concatenated, not
added: every component is listed twice with its partial figures, and no row equals the
component's figure for the whole sequence.  Exit status 1 = property violated."""
import logging, sys
import numpy as np

logging.disable(logging.CRITICAL)
from feems.components_model.component_electric import ElectricComponent, ElectricMachine, Genset
from feems.components_model.component_mechanical import Engine
from feems.components_model.utility import IntegrationMethod
from feems.system_model import ElectricPowerSystem
from feems.types_for_feems import TypeComponent, TypePower

BSFC = np.array([[0.25, 230.0], [0.5, 205.0], [0.75, 195.0], [1.0, 200.0]])
EFF = np.array([[0.25, 0.90], [0.5, 0.94], [0.75, 0.96], [1.0, 0.955]])
LOAD = np.array([300.0, 900.0, 1400.0, 500.0])
G2_ON = np.array([False, True, True, False])
DT = np.array([60.0, 600.0, 30.0, 3600.0])


def genset(name):
    return Genset(
        name,
        Engine(type_=TypeComponent.AUXILIARY_ENGINE, name=name + " engine", rated_power=1100.0,
               rated_speed=900.0, bsfc_curve=BSFC),
        ElectricMachine(type_=TypeComponent.GENERATOR, name=name + " generator", rated_power=1000.0,
                        rated_speed=900.0, power_type=TypePower.POWER_SOURCE, switchboard_id=1,
                        eff_curve=EFF),
    )


def run(sl):
    g1, g2 = genset("g1"), genset("g2")
    hotel = ElectricComponent(TypeComponent.OTHER_LOAD, "hotel", 2000.0, np.array([1.0]),
                              TypePower.POWER_CONSUMER, switchboard_id=1)
    system = ElectricPowerSystem("plant", [g1, g2, hotel], [])
    n = len(LOAD[sl])
    hotel.set_power_input_from_output(LOAD[sl].copy())
    g1.status, g2.status = np.ones(n, dtype=bool), G2_ON[sl].copy()
    g1.load_sharing_mode = g2.load_sharing_mode = np.zeros(n)
    system.set_time_interval(DT[sl].copy(), IntegrationMethod.sum_with_time)
    system.do_power_balance_calculation()
    return system.get_fuel_energy_consumption_running_time()


whole = run(slice(0, 4))
merged = run(slice(0, 2)).sum_and_extend_duration(run(slice(2, 4)))

ok = True
print("duration           whole %.1f  merged %.1f" % (whole.duration_s, merged.duration_s))
print("total fuel [kg]    whole %.6f  merged %.6f"
      % (whole.fuel_consumption_total_kg, merged.fuel_consumption_total_kg))
ok &= np.isclose(whole.duration_s, merged.duration_s)
ok &= np.isclose(whole.fuel_consumption_total_kg, merged.fuel_consumption_total_kg)

print("\ncomponent table of the whole run:")
print(whole.detail_result[["running hours [h]", "mechanical energy consumption [MJ]"]])
print("\ncomponent table of the merged result:")
print(merged.detail_result[["running hours [h]", "mechanical energy consumption [MJ]"]])
for name in whole.detail_result.index:
    for column in ["running hours [h]", "mechanical energy consumption [MJ]", "NOx emission [kg]"]:
        expected = whole.detail_result.loc[name, column]
        got = merged.detail_result.loc[name, column]
        if np.ndim(got) != 0 or not np.isclose(float(got), float(expected)):
            print("VIOLATED: %s / %s: whole run %.6f, merged table holds %s"
                  % (name, column, expected, np.asarray(got, dtype=float)))
            ok = False
sys.exit(0 if ok else 1)
