"""C11 finding 2: the shaft balance overwrites the status series of the main engines, so a second
calculation on the same plant (the next part of a split series, the next step of a step-by-step
run) is done with engines switched off that the user had switched on.

ShaftLine.do_power_balance ends with
    main_engine.status = np.where(main_engine.power_output == 0, False, main_engine.status)
i.e. an input of the calculation is replaced by an output of it. The electric side does not do
this (a genset that delivers no power keeps its status).

The usage follows the project's own step-by-step test (tests/test_system_simplified.py,
test_time_single_input_vs_multi_input): statuses are set once, then the loads are set and the
balance is calculated part after part.
Exit status 1 = property violated, 0 = property holds.
"""
import logging
import sys

import numpy as np

logging.disable(logging.CRITICAL)

from feems.components_model.component_electric import ElectricComponent, ElectricMachine, Genset
from feems.components_model.component_mechanical import (
    Engine,
    MainEngineForMechanicalPropulsion,
    MechanicalPropulsionComponent,
)
from feems.components_model.utility import IntegrationMethod
from feems.system_model import ElectricPowerSystem, MechanicalPropulsionSystem
from feems.types_for_feems import TypeComponent, TypePower

BSFC = np.array([[0.25, 0.5, 0.75, 1.0], [230.0, 205.0, 195.0, 200.0]]).T


def build_mechanical():
    main_engine = MainEngineForMechanicalPropulsion(
        "main engine",
        Engine(
            type_=TypeComponent.MAIN_ENGINE,
            name="me",
            rated_power=3000.0,
            rated_speed=750,
            bsfc_curve=BSFC,
        ),
        1,
    )
    propeller = MechanicalPropulsionComponent(
        TypeComponent.PROPELLER_LOAD,
        TypePower.POWER_CONSUMER,
        "propeller",
        3500.0,
        np.array([1.0]),
        150,
        1,
    )
    return MechanicalPropulsionSystem("mech", [main_engine, propeller])


def calculate(plant, load_kw, dt_s):
    plant.mechanical_loads[0].set_power_input_from_output(load_kw)
    plant.set_time_interval(dt_s, IntegrationMethod.sum_with_time)
    plant.do_power_balance()
    return plant.get_fuel_energy_consumption_running_time()


LOAD_KW = np.array([0.0, 2000.0, 2500.0, 0.0])  # the vessel lies still in the first and last interval
DT_S = np.array([600.0, 600.0, 600.0, 600.0])
violated = False

# (a) whole series
plant = build_mechanical()
plant.main_engines[0].status = np.ones(4, dtype=bool)
whole = calculate(plant, LOAD_KW, DT_S)

# (b) two consecutive parts of two intervals on one plant; the engine is switched on once
plant = build_mechanical()
plant.main_engines[0].status = np.ones(2, dtype=bool)
part_1 = calculate(plant, LOAD_KW[:2], DT_S[:2])
status_after_part_1 = plant.main_engines[0].status.copy()
part_2 = calculate(plant, LOAD_KW[2:], DT_S[2:])
parts = part_1.sum_and_extend_duration(part_2)

# (c) step by step, single operating points; the status is the constructor's default [True]
plant = build_mechanical()
steps = None
for i in range(4):
    r = calculate(plant, LOAD_KW[i : i + 1], DT_S[i : i + 1])
    steps = r if steps is None else steps.sum_and_extend_duration(r)

print("main engine status given for part 1: [True True]; after part 1:", status_after_part_1)
for label, res in (("whole series", whole), ("two parts", parts), ("step by step", steps)):
    print(
        f"{label:13s}: fuel {res.fuel_consumption_total_kg:9.4f} kg, "
        f"running hours {res.running_hours_main_engines_hr:.4f} h, "
        f"propulsion energy {res.energy_consumption_propulsion_total_mj:9.1f} MJ, "
        f"duration {res.duration_s:.0f} s"
    )
for res in (parts, steps):
    if not np.isclose(res.fuel_consumption_total_kg, whole.fuel_consumption_total_kg, rtol=1e-9):
        violated = True
    if not np.isclose(
        res.running_hours_main_engines_hr, whole.running_hours_main_engines_hr, rtol=1e-9
    ):
        violated = True

# For comparison: the same course of action on an electric plant is additive
def build_electric():
    genset = Genset(
        "genset",
        Engine(
            type_=TypeComponent.AUXILIARY_ENGINE,
            name="aux",
            rated_power=3300.0,
            rated_speed=900,
            bsfc_curve=BSFC,
        ),
        ElectricMachine(
            type_=TypeComponent.GENERATOR,
            name="gen",
            rated_power=3000.0,
            rated_speed=900,
            power_type=TypePower.POWER_SOURCE,
            switchboard_id=1,
            eff_curve=np.array([0.96]),
        ),
    )
    load = ElectricComponent(
        type_=TypeComponent.PROPULSION_DRIVE,
        name="drive",
        rated_power=3500.0,
        eff_curve=np.array([1.0]),
        power_type=TypePower.POWER_CONSUMER,
        switchboard_id=1,
    )
    return ElectricPowerSystem("el", [genset, load], [])


def calculate_el(plant, load_kw, dt_s):
    plant.propulsion_drives[0].set_power_input_from_output(load_kw)
    plant.set_time_interval(dt_s, IntegrationMethod.sum_with_time)
    plant.do_power_balance_calculation()
    return plant.get_fuel_energy_consumption_running_time()


plant = build_electric()
plant.power_sources[0].status = np.ones(4, dtype=bool)
plant.power_sources[0].load_sharing_mode = np.zeros(4)
el_whole = calculate_el(plant, LOAD_KW, DT_S)
plant = build_electric()
plant.power_sources[0].status = np.ones(2, dtype=bool)
plant.power_sources[0].load_sharing_mode = np.zeros(2)
el_parts = calculate_el(plant, LOAD_KW[:2], DT_S[:2]).sum_and_extend_duration(
    calculate_el(plant, LOAD_KW[2:], DT_S[2:])
)
print(
    f"electric plant, same procedure: whole {el_whole.fuel_consumption_total_kg:.4f} kg, "
    f"two parts {el_parts.fuel_consumption_total_kg:.4f} kg"
)

if violated:
    print(
        "VIOLATED: the parts calculated one after the other on the same plant do not add up to "
        "the result of the whole series (the 2500 kW interval is served by no engine and burns "
        "no fuel)"
    )
    sys.exit(1)
print("holds")
sys.exit(0)
