"""C11 finding 3: the same interval lengths are accepted or refused depending on their
representation, so a step-by-step run (single operating points) of a series that is accepted as
a whole is refused.

 - a list of floats is a declared member of TimeIntervalList (types_for_feems.py) and
   get_duration_s() has a branch for it, but integrate_data() refuses it (IntegrationError);
 - one element of an integer interval array (numpy.int64, what `dt[i]` gives in a loop over the
   series, or numpy.float32) is refused with TypeError / NotImplementedError, although the whole
   integer array, a python int and numpy.float64 are accepted.
Exit status 1 = property violated, 0 = property holds.
"""
import logging
import sys

import numpy as np

logging.disable(logging.CRITICAL)

from feems.components_model.component_electric import ElectricComponent, ElectricMachine, Genset
from feems.components_model.component_mechanical import (
    Engine,
    MainEngineForMechanicalPropulsion,
    MechanicalPropulsionComponent,
)
from feems.components_model.utility import IntegrationMethod
from feems.system_model import ElectricPowerSystem, MechanicalPropulsionSystem
from feems.types_for_feems import TypeComponent, TypePower

BSFC = np.array([[0.25, 0.5, 0.75, 1.0], [230.0, 205.0, 195.0, 200.0]]).T


def electric(load_kw, dt):
    n = len(load_kw)
    genset = Genset(
        "genset",
        Engine(
            type_=TypeComponent.AUXILIARY_ENGINE,
            name="aux",
            rated_power=1100.0,
            rated_speed=900,
            bsfc_curve=BSFC,
        ),
        ElectricMachine(
            type_=TypeComponent.GENERATOR,
            name="gen",
            rated_power=1000.0,
            rated_speed=900,
            power_type=TypePower.POWER_SOURCE,
            switchboard_id=1,
            eff_curve=np.array([0.96]),
        ),
    )
    load = ElectricComponent(
        type_=TypeComponent.OTHER_LOAD,
        name="hotel",
        rated_power=1000.0,
        eff_curve=np.array([1.0]),
        power_type=TypePower.POWER_CONSUMER,
        switchboard_id=1,
    )
    plant = ElectricPowerSystem("el", [genset, load], [])
    load.set_power_input_from_output(load_kw)
    genset.status = np.ones(n, dtype=bool)
    genset.load_sharing_mode = np.zeros(n)
    plant.set_time_interval(dt, IntegrationMethod.sum_with_time)
    plant.do_power_balance_calculation()
    r = plant.get_fuel_energy_consumption_running_time()
    return r.fuel_consumption_total_kg, r.running_hours_genset_total_hr, r.duration_s


def mechanical(load_kw, dt):
    n = len(load_kw)
    main_engine = MainEngineForMechanicalPropulsion(
        "main engine",
        Engine(
            type_=TypeComponent.MAIN_ENGINE,
            name="me",
            rated_power=3000.0,
            rated_speed=750,
            bsfc_curve=BSFC,
        ),
        1,
    )
    propeller = MechanicalPropulsionComponent(
        TypeComponent.PROPELLER_LOAD,
        TypePower.POWER_CONSUMER,
        "propeller",
        3500.0,
        np.array([1.0]),
        150,
        1,
    )
    plant = MechanicalPropulsionSystem("mech", [main_engine, propeller])
    propeller.set_power_input_from_output(load_kw)
    main_engine.status = np.ones(n, dtype=bool)
    plant.set_time_interval(dt, IntegrationMethod.sum_with_time)
    plant.do_power_balance()
    r = plant.get_fuel_energy_consumption_running_time()
    return r.fuel_consumption_total_kg, r.running_hours_main_engines_hr, r.duration_s


LOAD = np.array([400.0, 700.0, 550.0])
DT_INT = np.array([60, 120, 30])  # whole seconds, e.g. the differences of epoch time stamps
violated = False
for name, calc in (("electric plant", electric), ("mechanical plant", mechanical)):
    whole = np.array(calc(LOAD, DT_INT))
    print(f"{name}: whole series, integer interval array : fuel, hours, duration = {whole}")
    candidates = {
        "whole series, intervals as list of floats [60.0, 120.0, 30.0]": lambda: np.array(
            calc(LOAD, [60.0, 120.0, 30.0])
        ),
        "step by step, interval = python int(dt[i])": lambda: sum(
            np.array(calc(LOAD[i : i + 1], int(DT_INT[i]))) for i in range(3)
        ),
        "step by step, interval = dt[i:i+1] (array of one)": lambda: sum(
            np.array(calc(LOAD[i : i + 1], DT_INT[i : i + 1])) for i in range(3)
        ),
        "step by step, interval = dt[i] (numpy.int64)": lambda: sum(
            np.array(calc(LOAD[i : i + 1], DT_INT[i])) for i in range(3)
        ),
        "step by step, interval = numpy.float32(dt[i])": lambda: sum(
            np.array(calc(LOAD[i : i + 1], np.float32(DT_INT[i]))) for i in range(3)
        ),
        "step by step, interval = [float(dt[i])] (list of one)": lambda: sum(
            np.array(calc(LOAD[i : i + 1], [float(DT_INT[i])])) for i in range(3)
        ),
    }
    for label, f in candidates.items():
        try:
            got = f()
        except Exception as e:  # the finding is the refusal itself; the kind of error is shown
            print(f"  {label}: REFUSED with {type(e).__name__}: {str(e)[:70]}")
            violated = True
            continue
        ok = np.allclose(got, whole, rtol=1e-9)
        print(f"  {label}: {got} {'ok' if ok else 'DIFFERS'}")
        violated |= not ok

if violated:
    print("VIOLATED: equal interval lengths in another legal representation are refused")
    sys.exit(1)
print("holds")
sys.exit(0)
