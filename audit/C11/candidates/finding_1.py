"""C11 finding 1: a hybrid plant's result over a series is not the sum of the results over its parts.

The flag "full PTI mode" of ONE interval changes the fuel burnt in the OTHER intervals, because
HybridPropulsionSystem.do_power_balance_calculation repeats the electric balance for the whole
series as soon as any(full_pti_mode) holds, after the shaft balance has replaced the given
electric power of the PTI/PTO by a value converted forth and back through the interpolated
inverse of the efficiency curve.

Every part is calculated on a freshly built plant with all inputs set: nothing is carried over.
Exit status 1 = property violated, 0 = property holds.
"""
import logging
import sys

import numpy as np

logging.disable(logging.CRITICAL)

from feems.components_model.component_electric import (
    ElectricComponent,
    ElectricMachine,
    Genset,
    PTIPTO,
)
from feems.components_model.component_mechanical import (
    Engine,
    MainEngineForMechanicalPropulsion,
    MechanicalPropulsionComponent,
)
from feems.components_model.utility import IntegrationMethod
from feems.system_model import (
    ElectricPowerSystem,
    HybridPropulsionSystem,
    MechanicalPropulsionSystem,
)
from feems.types_for_feems import TypeComponent, TypePower

BSFC = np.array([[0.25, 0.5, 0.75, 1.0], [230.0, 205.0, 195.0, 200.0]]).T
EFF_GEN = np.array([[0.25, 0.5, 0.75, 1.0], [0.93, 0.953, 0.9596, 0.9585]]).T
# Efficiency of the shaft machine, given from 0 to 100 % load (no extrapolation is involved)
CURVES = {
    "steep at low load": np.array(
        [[0.0, 0.05, 0.1, 0.25, 0.5, 0.75, 1.0], [0.2, 0.45, 0.65, 0.85, 0.93, 0.95, 0.95]]
    ).T,
    "moderate": np.array(
        [[0.0, 0.05, 0.1, 0.25, 0.5, 0.75, 1.0], [0.6, 0.75, 0.85, 0.92, 0.95, 0.96, 0.955]]
    ).T,
}


def build(eff_machine):
    machine = ElectricMachine(
        type_=TypeComponent.SYNCHRONOUS_MACHINE,
        name="shaft machine",
        rated_power=800.0,
        rated_speed=900,
        power_type=TypePower.PTI_PTO,
        eff_curve=eff_machine,
    )
    pti_pto = PTIPTO("pti/pto", [machine], 1, 800.0, 900, 1)
    main_engine = MainEngineForMechanicalPropulsion(
        "main engine",
        Engine(
            type_=TypeComponent.MAIN_ENGINE,
            name="me",
            rated_power=3000.0,
            rated_speed=750,
            bsfc_curve=BSFC,
        ),
        1,
    )
    propeller = MechanicalPropulsionComponent(
        TypeComponent.PROPELLER_LOAD,
        TypePower.POWER_CONSUMER,
        "propeller",
        3500.0,
        np.array([1.0]),
        150,
        1,
    )
    genset = Genset(
        "genset",
        Engine(
            type_=TypeComponent.AUXILIARY_ENGINE,
            name="aux",
            rated_power=330.0,
            rated_speed=900,
            bsfc_curve=BSFC,
        ),
        ElectricMachine(
            type_=TypeComponent.GENERATOR,
            name="gen",
            rated_power=300.0,
            rated_speed=900,
            power_type=TypePower.POWER_SOURCE,
            switchboard_id=1,
            eff_curve=EFF_GEN,
        ),
    )
    hotel = ElectricComponent(
        type_=TypeComponent.OTHER_LOAD,
        name="hotel",
        rated_power=500.0,
        eff_curve=np.array([1.0]),
        power_type=TypePower.POWER_CONSUMER,
        switchboard_id=1,
    )
    mechanical = MechanicalPropulsionSystem("mech", [main_engine, propeller, pti_pto])
    electric = ElectricPowerSystem("el", [genset, hotel, pti_pto], [])
    return HybridPropulsionSystem("hybrid", electric, mechanical)


# Four intervals of one hour. The PTI/PTO runs with a given electric power (load sharing mode 1):
# 10 kW and 12 kW as a motor, 9 kW as a generator; in the last interval it drives the shaft alone
# (full PTI mode) and the main engine rests.
HOTEL_KW = np.array([50.0, 50.0, 50.0, 50.0])
PROPELLER_KW = np.array([1500.0, 1500.0, 1500.0, 40.0])
PTI_ELECTRIC_KW = np.array([10.0, 12.0, -9.0, 0.0])
FULL_PTI = np.array([False, False, False, True])
DT = np.array([3600.0, 3600.0, 3600.0, 3600.0])


def run(eff_machine, idx):
    n = len(idx)
    plant = build(eff_machine)
    el, me = plant.electric_system, plant.mechanical_system
    el.other_load[0].set_power_input_from_output(HOTEL_KW[idx])
    el.power_sources[0].status = np.ones(n, dtype=bool)
    el.power_sources[0].load_sharing_mode = np.zeros(n)
    me.mechanical_loads[0].set_power_input_from_output(PROPELLER_KW[idx])
    me.main_engines[0].status = np.ones(n, dtype=bool)
    pti_pto = el.pti_pto[0]
    pti_pto.status = np.ones(n, dtype=bool)
    pti_pto.load_sharing_mode = np.ones(n)
    pti_pto.full_pti_mode = FULL_PTI[idx]
    pti_pto.set_power_output_from_input(PTI_ELECTRIC_KW[idx])
    el.set_time_interval(DT[idx], IntegrationMethod.sum_with_time)
    plant.do_power_balance_calculation()
    result = plant.get_fuel_energy_consumption_running_time(
        DT[idx], IntegrationMethod.sum_with_time
    )
    return result, el.power_sources[0].power_output.copy()


violated = False
for name, curve in CURVES.items():
    whole, genset_kw_whole = run(curve, np.arange(4))
    part_1, genset_kw_part_1 = run(curve, np.arange(0, 3))
    part_2, _ = run(curve, np.arange(3, 4))
    summed = part_1.electric_system.sum_and_extend_duration(part_2.electric_system)
    fuel_whole = whole.electric_system.fuel_consumption_total_kg
    fuel_parts = summed.fuel_consumption_total_kg
    nox_whole = list(whole.electric_system.total_emission_kg.values())[0]
    nox_parts = list(summed.total_emission_kg.values())[0]
    rel = (fuel_parts - fuel_whole) / fuel_whole
    print(f"shaft machine efficiency curve: {name}")
    print(f"  genset power in intervals 1-3, whole series : {genset_kw_whole[:3]}")
    print(f"  genset power in intervals 1-3, part [1..3]  : {genset_kw_part_1}")
    print(f"  genset fuel, whole series  : {fuel_whole:.6f} kg")
    print(f"  genset fuel, sum of parts  : {fuel_parts:.6f} kg   (relative difference {rel:+.3e})")
    print(f"  NOx, whole / sum of parts  : {nox_whole:.6f} / {nox_parts:.6f} kg")
    print(f"  duration whole / parts     : {whole.electric_system.duration_s} / {summed.duration_s}")
    if abs(rel) > 1e-6:
        violated = True

if violated:
    print("VIOLATED: the result over the series differs from the sum over the two parts")
    sys.exit(1)
print("holds")
sys.exit(0)
