"""C07 finding 2: a gearbox that is a component of the shaft line (the second, documented way to
describe a geared main engine: MainEngineForMechanicalPropulsion + MechanicalPropulsionComponent of
type GEARBOX / POWER_TRANSMISSION on the same shaft line; MachSysS writes it as the gear "connecting
the main engine to the propeller and pti/pto" and reads it back as exactly this component) is never
applied: the main engine's power is the propeller power, NOT propeller power / gearbox efficiency,
so the fuel is that of an ungeared engine.  (For a series of more than one sample the same plant
is refused altogether unless the caller writes a series into gearbox.power_input by hand.)

Three plants, the same engine, the same propeller power, gearbox efficiency 0.95:
  A  no gearbox
  B  MainEngineWithGearBoxForMechanicalPropulsion (gearbox inside the main-engine component)
  C  MainEngineForMechanicalPropulsion + GEARBOX component on the shaft line
The property demands fuel(C) == fuel(B) = bsfc(load) * P_propeller / 0.95; the code gives
fuel(C) == fuel(A).

Exit status 1 = property violated (current code), 0 = holds.
"""
import sys

import numpy as np

from feems.components_model.component_base import BasicComponent
from feems.components_model.component_mechanical import (
    Engine,
    MainEngineForMechanicalPropulsion,
    MainEngineWithGearBoxForMechanicalPropulsion,
    MechanicalPropulsionComponent,
)
from feems.components_model.utility import IntegrationMethod
from feems.system_model import MechanicalPropulsionSystem
from feems.types_for_feems import TypeComponent, TypePower

BSFC = np.array([[0.25, 220.0], [0.5, 200.0], [0.75, 190.0], [1.0, 195.0]])
ETA_GEAR = 0.95
P_PROPELLER = 475.0  # kW -> engine power 500 kW = 50 % load, bsfc 200 g/kWh exactly


def build(kind: str):
    engine = Engine(
        type_=TypeComponent.MAIN_ENGINE,
        name="engine",
        rated_power=1000.0,
        rated_speed=750.0,
        bsfc_curve=BSFC,
    )
    components = []
    if kind == "B":
        gearbox = BasicComponent(
            type_=TypeComponent.GEARBOX,
            power_type=TypePower.POWER_TRANSMISSION,
            name="gearbox",
            rated_power=1000.0,
            eff_curve=np.array([ETA_GEAR]),
        )
        components.append(
            MainEngineWithGearBoxForMechanicalPropulsion("main engine", engine, gearbox, 1)
        )
    else:
        components.append(MainEngineForMechanicalPropulsion("main engine", engine, 1))
    if kind == "C":
        components.append(
            MechanicalPropulsionComponent(
                type_=TypeComponent.GEARBOX,
                power_type=TypePower.POWER_TRANSMISSION,
                name="gearbox",
                rated_power=1000.0,
                eff_curve=np.array([ETA_GEAR]),
                shaft_line_id=1,
            )
        )
    components.append(
        MechanicalPropulsionComponent(
            type_=TypeComponent.PROPELLER_LOAD,
            power_type=TypePower.POWER_CONSUMER,
            name="propeller",
            rated_power=1000.0,
            eff_curve=np.array([1.0]),
            shaft_line_id=1,
        )
    )
    return MechanicalPropulsionSystem("plant " + kind, components), components[0]


def fuel_kg_one_hour(kind: str, n_samples: int = 1):
    system, main_engine = build(kind)
    system.set_power_consumer_load_by_power_output_for_given_name_shaft_line_id(
        "propeller", 1, np.full(n_samples, P_PROPELLER)
    )
    system.set_status_main_engine_for_name_shaft_line_id(
        "main engine", 1, np.ones(n_samples, dtype=bool)
    )
    system.set_time_interval(np.full(n_samples, 3600.0 / n_samples), IntegrationMethod.sum_with_time)
    system.do_power_balance()
    result = system.get_fuel_energy_consumption_running_time()
    fuel = result.multi_fuel_consumption_total_kg.fuels[0].mass_or_mass_fraction
    return float(fuel), np.asarray(main_engine.engine.power_output, dtype=float)


expected_geared = 200.0 * (P_PROPELLER / ETA_GEAR) / 1000.0  # g/kWh * kW * 1 h / 1000 = 100 kg
fuel = {}
for kind in "ABC":
    fuel[kind], engine_power = fuel_kg_one_hour(kind)
    print(f"plant {kind}: engine shaft power {engine_power} kW, fuel in one hour {fuel[kind]:.4f} kg")
print(f"expected for a geared engine: engine power {P_PROPELLER / ETA_GEAR:.3f} kW, fuel {expected_geared:.4f} kg")

violated = False
if not np.isclose(fuel["B"], expected_geared, rtol=1e-9):
    print("plant B (gearbox inside the main-engine component) is off as well")
    violated = True
if not np.isclose(fuel["C"], expected_geared, rtol=1e-9):
    print(
        f"PROPERTY VIOLATED: the shaft-line gearbox (efficiency {ETA_GEAR}) is not applied: "
        f"fuel {fuel['C']:.4f} kg == ungeared plant {fuel['A']:.4f} kg, expected {expected_geared:.4f} kg "
        f"({100 * (expected_geared / fuel['C'] - 1):.2f} % more)"
    )
    violated = True

# Second symptom: the same plant is refused for a series
try:
    fuel_series, _ = fuel_kg_one_hour("C", n_samples=3)
    print(f"plant C over three samples: fuel {fuel_series:.4f} kg")
    if not np.isclose(fuel_series, expected_geared, rtol=1e-9):
        violated = True
except Exception as error:  # noqa: BLE001
    print(
        "plant C over a series of three samples is refused:",
        type(error).__name__,
        str(error).replace("\n", " | "),
    )
    violated = True

sys.exit(1 if violated else 0)
