"""C07 finding 4 (minor): a combined plant (COGAS) that is given ONE of the two optional turbine
power curves is built without complaint, and then every fuel calculation on it fails with
"TypeError: 'NoneType' object is not callable" - although fuel power / lower heating value needs
no split at all, and although the same plant with NO turbine curve calculates fine.

Both curves are optional and independent constructor arguments (and independent optional fields
of the protobuf COGAS message, each converted on its own HasField()).  The constructor validates
and builds the share interpolator only `if gas is not None and steam is not None`, whereas the run
point decides on `if self.gas_turbine_power_curve is not None:` alone.
(With only the steam curve the calculation runs and reports no split - the two cases differ.)

The property demands: turbine fuel mass = fuel power / LHV for all efficiency curves and powers in
range.  Exit status 1 = property violated (current code), 0 = holds.
"""
import sys

import numpy as np

from feems.components_model.component_electric import COGES, ElectricMachine
from feems.components_model.component_mechanical import COGAS
from feems.fuel import TypeFuel
from feems.types_for_feems import TypeComponent, TypePower

GAS = np.array([[0.25, 200.0], [0.5, 350.0], [0.75, 500.0], [1.0, 650.0]])
STEAM = np.array([[0.25, 50.0], [0.5, 150.0], [0.75, 250.0], [1.0, 350.0]])
EFF = np.array([[0.25, 0.40], [0.5, 0.48], [0.75, 0.52], [1.0, 0.55]])
LHV_MJ_PER_G = 0.048  # natural gas, IMO


def fuel_kg_per_s(gas_curve, steam_curve, power_kw):
    cogas = COGAS(
        name="cogas",
        rated_power=1000.0,
        eff_curve=EFF,
        gas_turbine_power_curve=gas_curve,
        steam_turbine_power_curve=steam_curve,
        fuel_type=TypeFuel.NATURAL_GAS,
    )
    generator = ElectricMachine(
        type_=TypeComponent.GENERATOR,
        name="generator",
        rated_power=1000.0,
        rated_speed=3000.0,
        power_type=TypePower.POWER_SOURCE,
        switchboard_id=1,
        eff_curve=np.array([1.0]),
    )
    coges = COGES("coges", cogas, generator)
    run_point = coges.get_system_run_point_from_power_output_kw(power_kw)
    return run_point.cogas.fuel_flow_rate_kg_per_s.fuels[0].mass_or_mass_fraction


power = np.array([250.0, 500.0, 750.0, 1000.0])  # exactly the curve points
expected = power / EFF[:, 1] / (LHV_MJ_PER_G * 1e6)
print("expected fuel flow kg/s:", expected)

violated = False
for label, gas, steam in [
    ("no turbine curve", None, None),
    ("both turbine curves", GAS, STEAM),
    ("steam turbine curve only", None, STEAM),
    ("gas turbine curve only", GAS, None),
]:
    try:
        flow = fuel_kg_per_s(gas, steam, power)
        ok = np.allclose(flow, expected, rtol=1e-9)
        print(f"{label:26s}: {flow}  {'ok' if ok else 'WRONG'}")
        violated |= not ok
    except Exception as error:  # noqa: BLE001
        print(f"{label:26s}: REFUSED at the fuel calculation: {type(error).__name__}: {error}")
        violated = True

if violated:
    print("\nPROPERTY VIOLATED: no fuel mass flow for an accepted plant and a power on its curve")
sys.exit(1 if violated else 0)
