"""C07 finding 3: a generating set silently drops its rectifier stage unless the rectifier object is
EXACTLY of class ElectricComponent (`if type(rectifier) is ElectricComponent:` in Genset.__init__).

A rectifier given as
  - an instance of a subclass of ElectricComponent (satisfies the annotation
    `rectifier: ElectricComponent`),
  - a SerialSystemElectric (transformer + rectifier in series, the library's own class for a
    train of conversion stages), or
  - a BasicComponent (the class MainEngineWithGearBoxForMechanicalPropulsion takes for its gearbox)
is accepted without a word and then ignored: the engine power is P_el / eta_generator only, the
fuel is that of an AC generating set.  The property demands the delivered power divided by the
efficiency of EVERY conversion stage.

Single-value efficiencies and a single-value consumption are used so that none of the known
interpolation effects of serial trains plays a part.

Exit status 1 = property violated (current code), 0 = holds.
"""
import sys

import numpy as np

from feems.components_model.component_base import BasicComponent
from feems.components_model.component_electric import (
    ElectricComponent,
    ElectricMachine,
    Genset,
    SerialSystemElectric,
)
from feems.components_model.component_mechanical import Engine
from feems.types_for_feems import TypeComponent, TypePower

BSFC = 200.0  # g/kWh
ETA_GEN = 0.96
ETA_RECT = 0.90
P_EL = 500.0  # kW delivered to the DC bus


class Rectifier(ElectricComponent):
    """A user's rectifier model: an ElectricComponent with nothing changed"""


def make_rectifier(kind: str):
    kwargs = dict(
        type_=TypeComponent.RECTIFIER,
        name="rectifier",
        rated_power=1000.0,
        eff_curve=np.array([ETA_RECT]),
        power_type=TypePower.POWER_TRANSMISSION,
    )
    if kind == "ElectricComponent":
        return ElectricComponent(switchboard_id=1, **kwargs)
    if kind == "subclass of ElectricComponent":
        return Rectifier(switchboard_id=1, **kwargs)
    if kind == "BasicComponent":
        return BasicComponent(**kwargs)
    if kind == "SerialSystemElectric":
        # two stages whose product is ETA_RECT
        stage_1 = ElectricComponent(
            type_=TypeComponent.TRANSFORMER,
            name="transformer",
            rated_power=1000.0,
            eff_curve=np.array([0.95]),
            power_type=TypePower.POWER_TRANSMISSION,
            switchboard_id=1,
        )
        stage_2 = ElectricComponent(
            type_=TypeComponent.RECTIFIER,
            name="rectifier",
            rated_power=1000.0,
            eff_curve=np.array([ETA_RECT / 0.95]),
            power_type=TypePower.POWER_TRANSMISSION,
            switchboard_id=1,
        )
        return SerialSystemElectric(
            type_=TypeComponent.RECTIFIER,
            name="transformer and rectifier",
            power_type=TypePower.POWER_TRANSMISSION,
            components=[stage_1, stage_2],
            switchboard_id=1,
            rated_power=1000.0,
        )
    raise ValueError(kind)


def fuel_kg_per_h(rectifier):
    engine = Engine(
        type_=TypeComponent.AUXILIARY_ENGINE,
        name="engine",
        rated_power=1000.0,
        rated_speed=900.0,
        bsfc_curve=np.array([BSFC]),
    )
    generator = ElectricMachine(
        type_=TypeComponent.GENERATOR,
        name="generator",
        rated_power=1000.0,
        rated_speed=900.0,
        power_type=TypePower.POWER_SOURCE,
        switchboard_id=1,
        eff_curve=np.array([ETA_GEN]),
    )
    genset = Genset("genset", engine, generator, rectifier)
    run_point = genset.get_fuel_cons_load_bsfc_from_power_out_generator_kw(np.array([P_EL]))
    flow = run_point.engine.fuel_flow_rate_kg_per_s.fuels[0].mass_or_mass_fraction
    return float(np.atleast_1d(flow)[0]) * 3600, float(np.atleast_1d(engine.power_output)[0])


expected_power = P_EL / ETA_GEN / ETA_RECT
expected_fuel = BSFC * expected_power / 1000.0
print(f"expected: engine power {expected_power:.3f} kW, fuel {expected_fuel:.4f} kg/h")
ac_fuel, ac_power = fuel_kg_per_h(None)
print(f"no rectifier (AC genset): engine power {ac_power:.3f} kW, fuel {ac_fuel:.4f} kg/h")

violated = False
for kind in [
    "ElectricComponent",
    "subclass of ElectricComponent",
    "SerialSystemElectric",
    "BasicComponent",
]:
    fuel, power = fuel_kg_per_h(make_rectifier(kind))
    ok = np.isclose(fuel, expected_fuel, rtol=1e-6)
    print(
        f"rectifier given as {kind:32s}: engine power {power:.3f} kW, fuel {fuel:.4f} kg/h"
        f"  {'ok' if ok else 'RECTIFIER STAGE IGNORED' if np.isclose(fuel, ac_fuel) else 'WRONG'}"
    )
    violated |= not ok

if violated:
    print(
        "\nPROPERTY VIOLATED: the engine power is not the delivered power divided by the "
        "efficiency of every conversion stage"
    )
sys.exit(1 if violated else 0)
