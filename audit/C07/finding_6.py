"""C07 finding 1: the gas/steam split of a combined plant (COGAS) leaves the given split curves
BELOW the first loaded curve point although the curves themselves start at zero load.

The two turbine power curves are given from 0 % to 100 % load (a no-load row 0 kW / 0 kW and the
usual rows above it; the steam turbine only starts to deliver above 25 % load, which is how a
heat-recovery steam cycle behaves). The constructor drops the no-load row (it has no share) and
builds a PCHIP interpolator of the gas-turbine SHARE over the remaining rows only; for every load
between 0 and the first remaining row the share is then EXTRAPOLATED by the end polynomial of the
interpolator. Result: gas-turbine power larger than the plant's output and NEGATIVE steam-turbine
power, for loads that lie inside the range covered by the given curves.

Exit status 1 = property violated (current code), 0 = holds.
"""
import sys

import numpy as np

from feems.components_model.component_electric import COGES, ElectricMachine
from feems.components_model.component_mechanical import COGAS
from feems.fuel import TypeFuel
from feems.types_for_feems import TypeComponent, TypePower

RATED = 1000.0
# load ratio, kW.  Gas + steam = load * rated power on every row (consistent curves).
GAS = np.array([[0.0, 0.0], [0.25, 250.0], [0.5, 400.0], [1.0, 650.0]])
STEAM = np.array([[0.0, 0.0], [0.25, 0.0], [0.5, 100.0], [1.0, 350.0]])
EFF = np.array([[0.0, 0.20], [0.25, 0.40], [0.5, 0.48], [1.0, 0.55]])

cogas = COGAS(
    name="cogas",
    rated_power=RATED,
    eff_curve=EFF,
    gas_turbine_power_curve=GAS,
    steam_turbine_power_curve=STEAM,
    fuel_type=TypeFuel.NATURAL_GAS,
)

# Powers strictly inside the load range [0, 1] covered by all three curves
power_kw = np.array([0.0, 25.0, 50.0, 100.0, 150.0, 200.0, 250.0, 500.0, 1000.0])
run_point = cogas.get_gas_turbine_run_point_from_power_output_kw(power_kw)
gas = np.asarray(run_point.gas_turbine_power_kw, dtype=float)
steam = np.asarray(run_point.steam_turbine_power_kw, dtype=float)

print("plant output  kW:", power_kw)
print("gas turbine   kW:", np.round(gas, 3))
print("steam turbine kW:", np.round(steam, 3))

violations = []

# (a) they add up to the output
if not np.allclose(gas + steam, power_kw, rtol=1e-12, atol=1e-9):
    violations.append("gas + steam does not add up to the plant output")

# (b) at the given curve rows the powers are the curve values
for load, p_gas in GAS:
    p = load * RATED
    rp = cogas.get_gas_turbine_run_point_from_power_output_kw(np.array([p]))
    if not np.isclose(rp.gas_turbine_power_kw[0], p_gas, rtol=1e-9, atol=1e-9):
        violations.append(f"gas turbine power at the curve row {load}: {rp.gas_turbine_power_kw[0]}")

# (c) between two rows of the given curves the turbine powers stay between the values of those
#     rows (both curves are monotone): in particular no turbine delivers negative power and no
#     turbine delivers more than the whole plant.
for p, g, s in zip(power_kw, gas, steam):
    load = p / RATED
    i = np.searchsorted(GAS[:, 0], load, side="left")
    i = min(max(i, 1), len(GAS) - 1)
    g_lo, g_hi = sorted((GAS[i - 1, 1], GAS[i, 1]))
    s_lo, s_hi = sorted((STEAM[i - 1, 1], STEAM[i, 1]))
    tol = 1e-9
    if not (g_lo - tol <= g <= g_hi + tol) or not (s_lo - tol <= s <= s_hi + tol):
        violations.append(
            f"output {p:7.1f} kW (load {load:.3f}, between the rows {GAS[i-1,0]} and {GAS[i,0]}): "
            f"gas {g:9.3f} kW not in [{g_lo}, {g_hi}] or steam {s:9.3f} kW not in [{s_lo}, {s_hi}]"
        )

# The same through the generating set (COGES), the entry point the plant calculation uses
generator = ElectricMachine(
    type_=TypeComponent.GENERATOR,
    name="generator",
    rated_power=RATED,
    rated_speed=3000,
    power_type=TypePower.POWER_SOURCE,
    switchboard_id=1,
    eff_curve=np.array([1.0]),
)
coges = COGES(name="coges", cogas=cogas, generator=generator)
rp_coges = coges.get_system_run_point_from_power_output_kw(np.array([100.0]))
print(
    "COGES at 100 kW: gas",
    rp_coges.cogas.gas_turbine_power_kw,
    "steam",
    rp_coges.cogas.steam_turbine_power_kw,
)
if rp_coges.cogas.steam_turbine_power_kw[0] < -1e-9:
    violations.append(
        f"COGES at 100 kW: steam turbine power {rp_coges.cogas.steam_turbine_power_kw[0]:.3f} kW < 0"
    )

if violations:
    print("\nPROPERTY VIOLATED (gas/steam powers do not follow the given split curves):")
    for v in violations:
        print("  -", v)
    sys.exit(1)
print("\nproperty holds")
sys.exit(0)
