"""C07 finding 1: a geared main engine reads the gearbox efficiency at the ENGINE's load ratio.

Clause: "for ... a geared main engine ... the engine ... power is first obtained by dividing the
delivered power by the efficiency of every conversion stage".

MainEngineWithGearBoxForMechanicalPropulsion.get_engine_run_point_from_power_out_kw computes
    load_ratio = self.get_load(power)          # power / ENGINE rated power
    eff_gearbox = self.gearbox.get_efficiency_from_load_percentage(load_ratio)
so a gearbox whose own rated power differs from the engine's (it has its own rated_power field,
also in the protobuf message "Gear") has its efficiency curve read at the wrong abscissa.

Exit status 1 = property violated, 0 = holds.
"""
import logging
import sys

import numpy as np
from scipy.interpolate import PchipInterpolator

logging.disable(logging.CRITICAL)

from feems.components_model.component_base import BasicComponent
from feems.components_model.component_mechanical import (
    Engine,
    MainEngineWithGearBoxForMechanicalPropulsion,
)
from feems.types_for_feems import TypeComponent, TypePower

BSFC = np.array([[0.25, 220.0], [0.5, 200.0], [0.75, 190.0], [1.0, 195.0]])
GEAR = np.array([[0.25, 0.90], [0.5, 0.95], [0.75, 0.97], [1.0, 0.98]])
ENGINE_RATED = 2000.0


def geared_engine(gearbox_rated_kw):
    engine = Engine(
        type_=TypeComponent.MAIN_ENGINE,
        name="engine",
        rated_power=ENGINE_RATED,
        rated_speed=750,
        bsfc_curve=BSFC,
    )
    gearbox = BasicComponent(
        type_=TypeComponent.GEARBOX,
        power_type=TypePower.POWER_TRANSMISSION,
        name="gearbox",
        rated_power=gearbox_rated_kw,
        eff_curve=GEAR,
    )
    return MainEngineWithGearBoxForMechanicalPropulsion("main engine", engine, gearbox), engine


def check(gearbox_rated_kw, delivered_kw):
    """Returns the largest relative deviation of the fuel flow from the statement."""
    geared, engine = geared_engine(gearbox_rated_kw)
    run_point = geared.get_engine_run_point_from_power_out_kw(delivered_kw)
    fuel_code = np.atleast_1d(run_point.fuel_flow_rate_kg_per_s.fuels[0].mass_or_mass_fraction)
    # independent evaluation: every curve is read at the load of the component it belongs to
    gear_eff = PchipInterpolator(GEAR[:, 0], GEAR[:, 1])(delivered_kw / gearbox_rated_kw)
    shaft_kw = delivered_kw / gear_eff
    bsfc = PchipInterpolator(BSFC[:, 0], BSFC[:, 1])(shaft_kw / ENGINE_RATED)
    fuel_expected = bsfc * shaft_kw / 3600 / 1000
    print(f"gearbox rated {gearbox_rated_kw:6.0f} kW, engine rated {ENGINE_RATED:.0f} kW")
    print("   delivered power kW        :", delivered_kw)
    print("   gearbox load (own rating) :", delivered_kw / gearbox_rated_kw)
    print("   engine shaft power, code  :", np.asarray(engine.power_output))
    print("   engine shaft power, stated:", shaft_kw)
    print("   fuel kg/s, code           :", fuel_code)
    print("   fuel kg/s, stated         :", fuel_expected)
    deviation = np.max(np.abs(fuel_code / fuel_expected - 1))
    print(f"   largest relative deviation: {deviation:.4%}")
    return deviation


# All gearbox loads are exactly at inside the gearbox curve (0.25 is one of its points) and the engine loads
# lie inside the BSFC curve: inside the quantifier of the property.
control = check(gearbox_rated_kw=2000.0, delivered_kw=np.array([500.0, 1000.0, 1500.0]))
violation = check(gearbox_rated_kw=4000.0, delivered_kw=np.array([1000.0, 1800.0]))
if control > 1e-9:
    print("UNEXPECTED: the control case (gearbox rated like the engine) deviates as well")
    sys.exit(1)
if violation > 1e-6:
    print(
        "VIOLATED: with a gearbox rated 4000 kW behind a 2000 kW engine the gearbox efficiency "
        "is taken at delivered/2000 instead of delivered/4000"
    )
    sys.exit(1)
print("property holds")
sys.exit(0)
