"""C07 finding 2: a generating set cannot be evaluated with a user-specified fuel.

Every other fuel-burning machine (Engine, MainEngineForMechanicalPropulsion, geared main engine,
FuelCell, FuelCellSystem, COGAS, COGES) takes the user's fuel factors
(fuel_specified_by=USER, lhv_mj_per_g, well-to-tank and tank-to-wake factors) in its run-point
method.  Genset.get_fuel_cons_load_bsfc_from_power_out_generator_kw has no such arguments and
hands only fuel_specified_by on to its engine, so asking for a user-specified fuel is refused
with an AssertionError from the Fuel constructor, although the engine itself delivers the
run point for the same fuel, and the fuel mass flow (bsfc * shaft power) does not even depend
on the factors.
"""
import logging
import sys

import numpy as np

logging.disable(logging.CRITICAL)

from feems.components_model.component_electric import ElectricMachine, Genset
from feems.components_model.component_mechanical import Engine
from feems.fuel import (
    FuelOrigin,
    FuelSpecifiedBy,
    GhgEmissionFactorTankToWake,
    TypeFuel,
)
from feems.types_for_feems import TypeComponent, TypePower

bsfc = np.array([[0.25, 420.0], [0.5, 400.0], [0.75, 390.0], [1.0, 395.0]])
gen_eff = np.array([[0.25, 0.92], [0.5, 0.95], [0.75, 0.96], [1.0, 0.96]])
engine = Engine(
    type_=TypeComponent.AUXILIARY_ENGINE,
    name="methanol engine",
    rated_power=1000,
    rated_speed=900,
    bsfc_curve=bsfc,
    fuel_type=TypeFuel.METHANOL,
    fuel_origin=FuelOrigin.BIO,
)
generator = ElectricMachine(
    type_=TypeComponent.GENERATOR,
    name="generator",
    rated_power=1000,
    rated_speed=900,
    power_type=TypePower.POWER_SOURCE,
    switchboard_id=1,
    eff_curve=gen_eff,
)
genset = Genset("genset", engine, generator)

user_fuel = dict(
    fuel_specified_by=FuelSpecifiedBy.USER,
    lhv_mj_per_g=0.0199,
    ghg_emission_factor_well_to_tank_gco2eq_per_mj=12.0,
    ghg_emission_factor_tank_to_wake=[
        GhgEmissionFactorTankToWake(
            co2_factor_gco2_per_gfuel=1.375,
            ch4_factor_gch4_per_gfuel=0.0,
            n2o_factor_gn2o_per_gfuel=0.0,
            c_slip_percent=0.0,
        )
    ],
)

power_electric_kw = np.array([0.0, 250.0, 500.0, 750.0])  # at the generator's curve points
power_shaft_kw = power_electric_kw / np.array([1.0, 0.92, 0.95, 0.96])
# what the property demands: bsfc(load) * shaft power, whatever the specification of the fuel
engine_alone = engine.get_engine_run_point_from_power_out_kw(power_shaft_kw, **user_fuel)
expected_kg_per_s = engine_alone.fuel_flow_rate_kg_per_s.fuels[0].mass_or_mass_fraction
print("engine alone, user-specified fuel [kg/s]:", expected_kg_per_s)

# [verdict adjusted when the script was promoted: asking for a user-specified fuel WITHOUT its factors is an input set without
#  its factors and is refused with reason; what is counted is the call WITH the user's factors, which the method could not take]
violated = False
try:
    genset.get_fuel_cons_load_bsfc_from_power_out_generator_kw(power_electric_kw, fuel_specified_by=FuelSpecifiedBy.USER)
    print("genset, fuel_specified_by=USER without factors: accepted")
except Exception as error:
    print("genset, fuel_specified_by=USER without factors: refused with %r [not counted]" % (error,))
try:
    run_point = genset.get_fuel_cons_load_bsfc_from_power_out_generator_kw(power_electric_kw, **user_fuel)
    got = run_point.engine.fuel_flow_rate_kg_per_s.fuels[0].mass_or_mass_fraction
    print("genset, user-specified fuel [kg/s]:", got)
    violated = not np.allclose(got, expected_kg_per_s, rtol=1e-9)
except Exception as error:
    print("genset, with the user's factors: refused with %r" % (error,))
    violated = True

if violated:
    print(
        "PROPERTY VIOLATED: no fuel mass flow for a generating set with a user-specified fuel "
        "(the property is stated for all fuels)"
    )
    sys.exit(1)
print("PROPERTY HOLDS")
sys.exit(0)
