"""C07 audit, finding 2 (marginal: precision of the representation of a series).

Engine.get_engine_run_point_from_power_out_kw (and the pilot fuel of EngineDualFuel, and
MainEngineForMechanicalPropulsion which hands the series straight on) computes the load
ratio and kWh/s in the dtype of the power series it is given.  The same powers held as
float32 (or float16) instead of float64 give a fuel mass flow that is not
SFC(load) * P for the values in the series: the deviation is ~6e-8 relative for float32 and
~5e-4 relative for float16, although every value of the series is exactly representable in
float64 and lies on / between the curve points.  The components derived from BasicComponent
(generator, gearbox, fuel cell, converter) convert the series to float first and do not
show this, so a Genset is exact and a bare engine / direct main engine is not.

Exit status 1 = property violated (beyond 1e-9 relative), 0 = holds.
"""
import logging
import sys

import numpy as np
from scipy.interpolate import PchipInterpolator

logging.disable(logging.CRITICAL)

from feems.components_model.component_mechanical import (
    Engine,
    EngineDualFuel,
    MainEngineForMechanicalPropulsion,
)
from feems.fuel import TypeFuel
from feems.types_for_feems import TypeComponent

bsfc = np.array([[0.25, 220.0], [0.5, 200.0], [0.75, 190.0], [1.0, 195.0]])
pilot = np.array([[0.25, 6.0], [1.0, 2.0]])
sfc = PchipInterpolator(bsfc[:, 0], bsfc[:, 1])
sfc_pilot = PchipInterpolator(pilot[:, 0], pilot[:, 1])

engine = Engine(
    type_=TypeComponent.MAIN_ENGINE, name="engine", rated_power=1000.0, rated_speed=750.0,
    bsfc_curve=bsfc,
)
main_engine = MainEngineForMechanicalPropulsion("main engine", engine)
dual = EngineDualFuel(
    type_=TypeComponent.MAIN_ENGINE, name="dual fuel engine", rated_power=1000.0,
    rated_speed=750.0, bsfc_curve=bsfc, bspfc_curve=pilot, pilot_fuel_type=TypeFuel.DIESEL,
)

rng = np.random.default_rng(0)
violated = False
for dtype in (np.float64, np.float32, np.float16):
    # the series in the narrow type; every value is exactly representable as float64
    power = rng.uniform(250.0, 1000.0, 2000).astype(dtype)
    exact = power.astype(np.float64)
    expected = sfc(exact / 1000.0) * exact / 3.6e6
    expected_pilot = sfc_pilot(exact / 1000.0) * exact / 3.6e6
    got = {
        "Engine": engine.get_engine_run_point_from_power_out_kw(power)
        .fuel_flow_rate_kg_per_s.fuels[0].mass_or_mass_fraction,
        "MainEngineForMechanicalPropulsion": main_engine.get_engine_run_point_from_power_out_kw(
            power
        ).fuel_flow_rate_kg_per_s.fuels[0].mass_or_mass_fraction,
        "EngineDualFuel main": dual.get_engine_run_point_from_power_out_kw(power)
        .fuel_flow_rate_kg_per_s.fuels[0].mass_or_mass_fraction,
    }
    got_pilot = (
        dual.get_engine_run_point_from_power_out_kw(power)
        .fuel_flow_rate_kg_per_s.fuels[1].mass_or_mass_fraction
    )
    for name, value in got.items():
        deviation = np.max(np.abs(np.asarray(value, dtype=np.float64) - expected) / expected)
        flag = deviation > 1e-9
        violated |= flag
        print(f"{np.dtype(dtype).name:8s} {name:36s} max relative deviation {deviation:.3e}"
              f"{'  <-- VIOLATION' if flag else ''}")
    deviation = np.max(np.abs(np.asarray(got_pilot, dtype=np.float64) - expected_pilot) / expected_pilot)
    flag = deviation > 1e-9
    violated |= flag
    print(f"{np.dtype(dtype).name:8s} {'EngineDualFuel pilot':36s} max relative deviation {deviation:.3e}"
          f"{'  <-- VIOLATION' if flag else ''}")

if violated:
    print("VIOLATION: the fuel mass flow of a series held in a narrow float type is not "
          "SFC(load) * P for the values of the series")
    sys.exit(1)
print("holds")
sys.exit(0)
