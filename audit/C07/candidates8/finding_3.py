"""C07 finding 3: with the simpson / trapezoid methods (simpson is the default) a machine's
running hours cover one interval more than its fuel.

A generating set delivers a constant 500 kW at every sample of a record (bsfc 200 g/kWh, generator
efficiency 1, so its fuel mass flow is exactly 100 kg/h whenever it runs).  A record of n samples
one hour apart spans n - 1 intervals: the fuel is integrated over those n - 1 hours, but the
running hours (and the duration) are counted as n hours.  So the machine accrues running hours
over an interval in which, according to its own fuel figure, it burnt nothing: fuel / running
hours is not the fuel mass flow.  With per-interval time steps (sum_with_time) the two agree.
"""
import logging
import sys

import numpy as np

logging.disable(logging.CRITICAL)

from feems.components_model.component_electric import ElectricComponent, ElectricMachine, Genset
from feems.components_model.component_mechanical import Engine
from feems.components_model.utility import IntegrationMethod
from feems.system_model import ElectricPowerSystem
from feems.types_for_feems import TypeComponent, TypePower

engine = Engine(
    type_=TypeComponent.AUXILIARY_ENGINE,
    name="engine",
    rated_power=1000,
    rated_speed=900,
    bsfc_curve=np.array([200.0]),
)
generator = ElectricMachine(
    type_=TypeComponent.GENERATOR,
    name="generator",
    rated_power=1000,
    rated_speed=900,
    power_type=TypePower.POWER_SOURCE,
    switchboard_id=1,
    eff_curve=np.array([1.0]),
)
genset = Genset("genset", engine, generator)
load = ElectricComponent(
    type_=TypeComponent.OTHER_LOAD,
    name="load",
    rated_power=1000,
    eff_curve=np.array([1.0]),
    power_type=TypePower.POWER_CONSUMER,
    switchboard_id=1,
)
system = ElectricPowerSystem("plant", [genset, load], [])

FUEL_FLOW_KG_PER_H = 200.0 * 500.0 / 1000.0  # bsfc * shaft power
violated = False
for n_samples in (2, 3, 5):
    for method, time_interval in (
        (IntegrationMethod.simpson, 3600.0),
        (IntegrationMethod.trapezoid, 3600.0),
        (IntegrationMethod.sum_with_time, np.full(n_samples, 3600.0)),
    ):
        load.power_input = np.full(n_samples, 500.0)
        genset.status = np.ones(n_samples, dtype=bool)
        system.set_time_interval(time_interval, method)
        system.do_power_balance_calculation()
        result = system.get_fuel_energy_consumption_running_time()
        fuel_kg = result.fuel_consumption_total_kg
        hours = result.running_hours_genset_total_hr
        consistent = np.isclose(fuel_kg, FUEL_FLOW_KG_PER_H * hours, rtol=1e-9)
        print(
            "%d samples, %-13s fuel %6.1f kg, running hours %.1f h -> %6.1f kg per running hour "
            "(fuel mass flow while running: %.1f kg/h)%s"
            % (
                n_samples,
                method.name,
                fuel_kg,
                hours,
                fuel_kg / hours,
                FUEL_FLOW_KG_PER_H,
                "" if consistent else "   <-- inconsistent",
            )
        )
        violated |= not consistent

if violated:
    print(
        "PROPERTY VIOLATED: running hours are accrued over an interval for which no fuel is "
        "counted (n samples: fuel over n - 1 intervals, running hours over n)"
    )
    sys.exit(1)
print("PROPERTY HOLDS")
sys.exit(0)
