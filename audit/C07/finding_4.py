"""C07 finding 4: a combined plant whose split curves start at zero load, or whose split curves
hold whole numbers, cannot be built at all.

Clause: "a combined plant's gas- and steam-turbine powers follow the given split curves and add
up to its output" / "Fuel flow is zero at zero power" - for all curves.

COGAS.__init__:
    self.power_ratio_gas_turbine_points = gas_turbine_power_curve.copy()
    self.power_ratio_gas_turbine_points[:, 1] /= self.total_power_curve[:, 1]
 * a point (0, 0 kW) in both curves - the natural first row of a power curve - gives 0/0 = NaN and
   PchipInterpolator refuses it: ValueError("`y` must contain only finite values.");
 * curves given as integer arrays (kW are whole numbers; a one-point curve [[1, 3300]] or the
   loads 0 and 1 make the whole array integer) fail in the in-place division:
   UFuncTypeError "Cannot cast ufunc 'divide' output from dtype('float64') to dtype('int64')".
The same curves written with a decimal point, and without the zero row, work.

Exit status 1 = property violated, 0 = holds.
"""
import logging
import sys
import warnings

import numpy as np

logging.disable(logging.CRITICAL)
warnings.simplefilter("ignore")

from feems.components_model.component_mechanical import COGAS

RATED = 5000.0


def check(label, gas, steam, power, gas_expected):
    print(label)
    try:
        plant = COGAS(
            name="cogas",
            rated_power=RATED,
            rated_speed=3000,
            eff_curve=np.array([0.5]),
            gas_turbine_power_curve=gas,
            steam_turbine_power_curve=steam,
        )
        run_point = plant.get_gas_turbine_run_point_from_power_output_kw(power)
    except Exception as error:
        print(f"   REFUSED: {type(error).__name__}: {error}")
        return False
    gas_kw, steam_kw = run_point.gas_turbine_power_kw, run_point.steam_turbine_power_kw
    fuel = run_point.fuel_flow_rate_kg_per_s.fuels[0].mass_or_mass_fraction
    print("   output kW :", power)
    print("   gas kW    :", gas_kw, " expected", gas_expected)
    print("   steam kW  :", steam_kw)
    print("   fuel kg/s :", fuel)
    ok = (
        np.all(np.isfinite(gas_kw))
        and np.allclose(gas_kw + steam_kw, power)
        and np.allclose(gas_kw, gas_expected)
        and np.all(fuel[power == 0] == 0)
        and np.all(fuel[power > 0] > 0)
    )
    print("   ok" if ok else "   WRONG")
    return ok


power = np.array([0.0, 2500.0, 5000.0])
expected = np.array([0.0, 1800.0, 3300.0])
results = [
    check(
        "control: float curves from 50 % load",
        np.array([[0.5, 1800.0], [1.0, 3300.0]]),
        np.array([[0.5, 700.0], [1.0, 1700.0]]),
        power,
        expected,
    ),
    check(
        "float curves starting at (0 load, 0 kW)",
        np.array([[0.0, 0.0], [0.5, 1800.0], [1.0, 3300.0]]),
        np.array([[0.0, 0.0], [0.5, 700.0], [1.0, 1700.0]]),
        power,
        expected,
    ),
    check(
        "one-point split (3300 kW gas + 1700 kW steam at full load) as whole numbers",
        np.array([[1, 3300]]),
        np.array([[1, 1700]]),
        power,
        power * 3300 / 5000,
    ),
    check(
        "control: the same one-point split with a decimal point",
        np.array([[1.0, 3300.0]]),
        np.array([[1.0, 1700.0]]),
        power,
        power * 3300 / 5000,
    ),
]
print(results)
if not (results[0] and results[3]):
    print("UNEXPECTED: a control case fails")
    sys.exit(1)
if not all(results):
    print("VIOLATED: valid split curves (zero-load row / whole numbers) are refused")
    sys.exit(1)
print("property holds")
sys.exit(0)
