"""C07 audit, finding 1 (peripheral entry point).

FEEMSResultConverter.get_timeseries_for_power_sources_and_energy_storage() is the public
method that tabulates, per component, the power series and the fuel mass flow series
(kg/s) that the converter has computed from the consumption / efficiency curves.  For ANY
plant with at least one power source it raises

    TypeError: object of type 'FuelConsumptionRateArray' has no len()

so the fuel mass flow of a generating set cannot be read through this entry point at all,
although the same series is present (and correct) in the protobuf message.

The script builds a one-genset plant through the public API, balances it, computes the
result, converts it with the time series, and then asks for the table.  It checks that the
table carries the genset's fuel flow = BSFC(load) * P_engine with P_engine = P / eta_gen.
Exit status 1 = property cannot be confirmed / is violated, 0 = holds.
"""
import logging
import sys

import numpy as np
from scipy.interpolate import PchipInterpolator

logging.disable(logging.CRITICAL)

from feems.components_model.component_electric import ElectricComponent, ElectricMachine, Genset
from feems.components_model.component_mechanical import Engine
from feems.components_model.utility import IntegrationMethod
from feems.system_model import ElectricPowerSystem
from feems.types_for_feems import TypeComponent, TypePower
from MachSysS.convert_feems_result_to_proto import FEEMSResultConverter

bsfc = np.array([[0.25, 220.0], [0.5, 200.0], [0.75, 190.0], [1.0, 195.0]])
eta = np.array([[0.25, 0.90], [0.5, 0.94], [0.75, 0.95], [1.0, 0.96]])
engine = Engine(
    type_=TypeComponent.AUXILIARY_ENGINE, name="engine", rated_power=1000.0, rated_speed=900.0,
    bsfc_curve=bsfc,
)
generator = ElectricMachine(
    type_=TypeComponent.GENERATOR, name="generator", rated_power=900.0, rated_speed=900.0,
    power_type=TypePower.POWER_SOURCE, switchboard_id=1, eff_curve=eta,
)
genset = Genset("genset", engine, generator)
load = ElectricComponent(
    TypeComponent.OTHER_LOAD, "load", 1000.0, np.array([1.0]), TypePower.POWER_CONSUMER,
    switchboard_id=1,
)
system = ElectricPowerSystem("plant", [genset, load], [])

power = np.array([225.0, 450.0, 675.0, 900.0])  # the curve points of the generator
load.power_input = power
system.set_status_by_switchboard_id_power_type(1, TypePower.POWER_SOURCE, np.ones((4, 1), bool))
system.set_load_sharing_mode_power_sources_by_switchboard_id_power_type(
    1, TypePower.POWER_SOURCE, np.zeros((4, 1))
)
system.set_time_interval(np.array([10.0, 20.0, 30.0, 40.0]), IntegrationMethod.sum_with_time)
system.do_power_balance_calculation()
result = system.get_fuel_energy_consumption_running_time()

power_engine = power / PchipInterpolator(eta[:, 0], eta[:, 1])(power / 900.0)
expected = PchipInterpolator(bsfc[:, 0], bsfc[:, 1])(power_engine / 1000.0) * power_engine / 3.6e6
print("expected fuel flow kg/s:", expected)

converter = FEEMSResultConverter(result, system)
message = converter.get_feems_result_proto(include_time_series_for_components=True)
in_message = np.array(
    message.electric_system.detailed_result[0]
    .result_time_series.fuel_consumption_kg_per_s.fuels[0]
    .mass_or_mass_fraction
)
print("in the protobuf message:", in_message, "(agrees:", np.allclose(in_message, expected, rtol=1e-9), ")")

try:
    table = converter.get_timeseries_for_power_sources_and_energy_storage()
except Exception as error:  # noqa: BLE001
    print(
        "VIOLATION: the fuel-flow table cannot be produced: "
        f"{type(error).__name__}: {error}"
    )
    sys.exit(1)

print(table)
column = [c for c in table.columns if "fuel_consumption" in c]
if not column:
    print("VIOLATION: the table has no fuel flow column for the genset")
    sys.exit(1)
values = table[column[0]].values
try:
    ok = np.allclose(np.asarray(values, dtype=float), expected, rtol=1e-9)
except Exception:  # noqa: BLE001
    ok = False
if not ok:
    print("VIOLATION: the fuel flow in the table is not BSFC(load) * P / eta:", values)
    sys.exit(1)
print("holds")
sys.exit(0)
