"""C07 finding 3: the gas/steam split of a combined plant depends on the ROW ORDER of the two
split curves; with another order it is silently wrong or the plant is refused.

Clause: "a combined plant's gas- and steam-turbine powers follow the given split curves and add
up to its output".

COGAS.__init__ adds the two curves row by row (total[:, 1] = gas[:, 1] + steam[:, 1]) without
sorting them by load first - every other curve in FEEMS is sorted by get_efficiency_curve_from_points,
and the tests write their curves in descending order. The guard
    if np.all(gas[:, 0] != steam[:, 0]): raise ValueError("The x values ... should be the same.")
only fires when NO row agrees (np.all instead of np.any), so
 * three points, one curve descending and the other ascending (middle row agrees): accepted, and
   the 25 % gas power is divided by the 100 % total: wrong split, no message;
 * four points in the same situation: refused although both curves have the same load points.

Exit status 1 = property violated, 0 = holds.
"""
import logging
import sys

import numpy as np

logging.disable(logging.CRITICAL)

from feems.components_model.component_mechanical import COGAS

RATED = 5000.0
# load ratio -> kW of each turbine; the two add up to load * rated power at every point
GAS = {0.25: 1000.0, 0.5: 1800.0, 0.75: 2600.0, 1.0: 3300.0}
STEAM = {0.25: 250.0, 0.5: 700.0, 0.75: 1150.0, 1.0: 1700.0}


def curve(table, loads):
    return np.array([[x, table[x]] for x in loads])


def split_follows_curves(loads_gas, loads_steam):
    """True when the split at the curve points is the one of the curves."""
    print(f"gas curve rows at loads {loads_gas}, steam curve rows at loads {loads_steam}")
    try:
        plant = COGAS(
            name="cogas",
            rated_power=RATED,
            rated_speed=3000,
            eff_curve=np.array([0.5]),
            gas_turbine_power_curve=curve(GAS, loads_gas),
            steam_turbine_power_curve=curve(STEAM, loads_steam),
        )
    except Exception as error:  # a valid pair of curves must not be refused
        print(f"   REFUSED: {type(error).__name__}: {error}")
        return False
    loads = np.array(sorted(loads_gas))
    power = loads * RATED
    run_point = plant.get_gas_turbine_run_point_from_power_output_kw(power)
    gas_expected = np.array([GAS[x] for x in loads])
    steam_expected = np.array([STEAM[x] for x in loads])
    print("   output kW          :", power)
    print("   gas kW, code       :", np.round(run_point.gas_turbine_power_kw, 2))
    print("   gas kW, curve      :", gas_expected)
    print("   steam kW, code     :", np.round(run_point.steam_turbine_power_kw, 2))
    print("   steam kW, curve    :", steam_expected)
    adds_up = np.allclose(run_point.gas_turbine_power_kw + run_point.steam_turbine_power_kw, power)
    follows = np.allclose(run_point.gas_turbine_power_kw, gas_expected, rtol=1e-9) and np.allclose(
        run_point.steam_turbine_power_kw, steam_expected, rtol=1e-9
    )
    print(f"   adds up: {adds_up}, follows the curves: {follows}")
    return adds_up and follows


results = {
    "control, both ascending": split_follows_curves([0.25, 0.5, 1.0], [0.25, 0.5, 1.0]),
    "3 points, gas descending": split_follows_curves([1.0, 0.5, 0.25], [0.25, 0.5, 1.0]),
    "4 points, gas descending": split_follows_curves([1.0, 0.75, 0.5, 0.25], [0.25, 0.5, 0.75, 1.0]),
}
print(results)
if not results["control, both ascending"]:
    print("UNEXPECTED: the control case fails as well")
    sys.exit(1)
if not all(results.values()):
    print("VIOLATED: the same two split curves, rows listed in another order, give another split")
    sys.exit(1)
print("property holds")
sys.exit(0)
