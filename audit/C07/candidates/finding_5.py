"""C07 finding 5: the rectifier of a DC generating set is silently dropped when it is an instance
of a SUBCLASS of ElectricComponent.

Clause: "for a generating set ... the engine ... power is first obtained by dividing the delivered
power by the efficiency of every conversion stage".

Genset.__init__(name, aux_engine, generator, rectifier: ElectricComponent = None) tests
    if type(rectifier) is ElectricComponent:
instead of isinstance(...). An object of a class derived from ElectricComponent (the usual way to
attach project data to a component; ElectricMachine, ShorePowerConnection ... are such classes in
FEEMS itself) satisfies the annotation, is accepted without a message, and is then ignored: the
generating set is calculated as an AC set and burns too little fuel (here 2 % .. 20 %).

Exit status 1 = property violated, 0 = holds.
"""
import logging
import sys

import numpy as np
from scipy.interpolate import PchipInterpolator

logging.disable(logging.CRITICAL)

from feems.components_model.component_electric import ElectricComponent, ElectricMachine, Genset
from feems.components_model.component_mechanical import Engine
from feems.types_for_feems import TypeComponent, TypePower

RECTIFIER = np.array([[0.1, 0.80], [0.2, 0.90], [0.5, 0.95], [1.0, 0.98]])  # points on the 10 % grid
GENERATOR_EFF = 0.95
BSFC = 200.0
RATED = 1000.0


class Rectifier(ElectricComponent):
    """A rectifier with a little project data attached; nothing of ElectricComponent is changed."""

    manufacturer = "ACME"


def genset(rectifier_class):
    engine = Engine(
        type_=TypeComponent.AUXILIARY_ENGINE,
        name="engine",
        rated_power=1500.0,
        rated_speed=750,
        bsfc_curve=np.array([BSFC]),
    )
    generator = ElectricMachine(
        type_=TypeComponent.GENERATOR,
        name="generator",
        rated_power=RATED,
        rated_speed=750,
        power_type=TypePower.POWER_SOURCE,
        switchboard_id=1,
        eff_curve=np.array([GENERATOR_EFF]),
    )
    rectifier = rectifier_class(
        type_=TypeComponent.RECTIFIER,
        name="rectifier",
        rated_power=RATED,
        eff_curve=RECTIFIER,
        power_type=TypePower.POWER_TRANSMISSION,
        switchboard_id=1,
    )
    return Genset("genset", engine, generator, rectifier)


delivered = RECTIFIER[:, 0] * RATED  # at the points of the rectifier curve (all on the 10 % grid)
rectifier_eff = PchipInterpolator(RECTIFIER[:, 0], RECTIFIER[:, 1])(delivered / RATED)
fuel_expected = BSFC * delivered / rectifier_eff / GENERATOR_EFF / 3600 / 1000
deviation = {}
for rectifier_class in (ElectricComponent, Rectifier):
    run_point = genset(rectifier_class).get_fuel_cons_load_bsfc_from_power_out_generator_kw(
        delivered.copy()
    )
    fuel = run_point.engine.fuel_flow_rate_kg_per_s.fuels[0].mass_or_mass_fraction
    deviation[rectifier_class.__name__] = np.abs(fuel / fuel_expected - 1).max()
    print(f"rectifier of class {rectifier_class.__name__}")
    print("   delivered kW      :", delivered)
    print("   fuel kg/s, code   :", np.round(fuel, 6))
    print("   fuel kg/s, stated :", np.round(fuel_expected, 6))
    print("   relative deviation:", np.round(fuel / fuel_expected - 1, 4))

if deviation["ElectricComponent"] > 1e-6:
    print("UNEXPECTED: the control case (plain ElectricComponent) deviates as well")
    sys.exit(1)
if deviation["Rectifier"] > 1e-6:
    print("VIOLATED: the losses of the rectifier (a subclass instance) are not in the fuel flow")
    sys.exit(1)
print("property holds")
sys.exit(0)
