"""C07 finding 2: a DC generating set (generator + rectifier) does not use the efficiency curves
that were given, but a copy re-sampled on a 10 % load grid.

Clause: "for a generating set ... the engine ... power is first obtained by dividing the delivered
power by the efficiency of every conversion stage" (and: the value at the given curve points).

Genset.__init__ builds, for a rectifier, a SerialSystemElectric [generator, rectifier];
SerialSystem.__init__ evaluates the product of the efficiencies only at load = 0, 0.1, ... 1.0 and
the generating set then interpolates (PCHIP) through these eleven samples. Every point of the
original curves that is not a multiple of 10 % load (5 %, 15 %, 25 %, 75 % ...) is lost; where the
generator curve bends (low load) the engine power and the fuel are off by several percent - even
when the rectifier is loss-free, in which case the DC set must be identical with the AC set.

Exit status 1 = property violated, 0 = holds.
"""
import logging
import sys

import numpy as np
from scipy.interpolate import PchipInterpolator

logging.disable(logging.CRITICAL)

from feems.components_model.component_electric import ElectricComponent, ElectricMachine, Genset
from feems.components_model.component_mechanical import Engine
from feems.types_for_feems import TypeComponent, TypePower

GENERATOR = np.array(
    [[0.05, 0.50], [0.15, 0.80], [0.25, 0.90], [0.50, 0.94], [0.75, 0.95], [1.00, 0.955]]
)
BSFC = 200.0  # g/kWh, single value: fuel is proportional to the engine power
RATED = 1000.0


def genset(rectifier_efficiency):
    engine = Engine(
        type_=TypeComponent.AUXILIARY_ENGINE,
        name="engine",
        rated_power=2200.0,
        rated_speed=750,
        bsfc_curve=np.array([BSFC]),
    )
    generator = ElectricMachine(
        type_=TypeComponent.GENERATOR,
        name="generator",
        rated_power=RATED,
        rated_speed=750,
        power_type=TypePower.POWER_SOURCE,
        switchboard_id=1,
        eff_curve=GENERATOR,
    )
    rectifier = None
    if rectifier_efficiency is not None:
        rectifier = ElectricComponent(
            type_=TypeComponent.RECTIFIER,
            name="rectifier",
            rated_power=RATED,
            eff_curve=np.array([rectifier_efficiency]),
            power_type=TypePower.POWER_TRANSMISSION,
            switchboard_id=1,
        )
    return Genset("genset", engine, generator, rectifier)


# delivered power exactly at the points of the generator curve
delivered = GENERATOR[:, 0] * RATED
generator_eff = PchipInterpolator(GENERATOR[:, 0], GENERATOR[:, 1])
worst = 0.0
for rectifier_efficiency in (None, 1.0, 0.98):
    run_point = genset(rectifier_efficiency).get_fuel_cons_load_bsfc_from_power_out_generator_kw(
        delivered.copy()
    )
    fuel = run_point.engine.fuel_flow_rate_kg_per_s.fuels[0].mass_or_mass_fraction
    eta_r = 1.0 if rectifier_efficiency is None else rectifier_efficiency
    # (a) FEEMS' own convention for serial systems: every stage read at the delivered load
    shaft_a = delivered / eta_r / generator_eff(delivered / RATED)
    # (b) strict chain: the generator is read at its own output (= rectifier input)
    shaft_b = delivered / eta_r / generator_eff(delivered / eta_r / RATED)
    fuel_a = BSFC * shaft_a / 3600 / 1000
    fuel_b = BSFC * shaft_b / 3600 / 1000
    deviation = np.minimum(np.abs(fuel / fuel_a - 1), np.abs(fuel / fuel_b - 1))
    kind = "AC (no rectifier)" if rectifier_efficiency is None else f"DC, rectifier {eta_r}"
    print(kind)
    print("   generator load        :", delivered / RATED)
    print("   fuel kg/s, code       :", np.round(fuel, 6))
    print("   fuel kg/s, stated (a) :", np.round(fuel_a, 6))
    print("   fuel kg/s, stated (b) :", np.round(fuel_b, 6))
    print("   deviation from the nearer of (a), (b):", np.round(deviation, 5))
    worst = max(worst, deviation.max())

print(f"largest deviation at a given curve point: {worst:.3%}")
if worst > 1e-3:
    print(
        "VIOLATED: at points of the generator's own efficiency curve the DC generating set burns "
        "fuel for another engine power than delivered / (efficiency of generator x rectifier)"
    )
    sys.exit(1)
print("property holds")
sys.exit(0)
