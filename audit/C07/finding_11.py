"""C07 finding 4: the per-component fuel / running-hours calculation accepts a bare engine only
when it is labelled MAIN_ENGINE.

feems.components_model.node.get_fuel_emission_energy_balance_for_component declares Engine and
EngineDualFuel among the power sources it takes (the PowerSource union).  An Engine must be given
a type_; with TypeComponent.MAIN_ENGINE the function returns bsfc * power integrated over time
and the running hours, with TypeComponent.AUXILIARY_ENGINE (the label every engine of a
generating set carries) the very same engine, power series and time steps are refused with a
TypeError.
"""
import logging
import sys

import numpy as np

logging.disable(logging.CRITICAL)

from feems.components_model.component_mechanical import Engine, EngineDualFuel
from feems.components_model.node import get_fuel_emission_energy_balance_for_component
from feems.components_model.utility import IntegrationMethod
from feems.fuel import TypeFuel
from feems.types_for_feems import TypeComponent

bsfc = np.array([[0.25, 220.0], [0.5, 205.0], [1.0, 200.0]])
power_kw = np.array([250.0, 0.0, 500.0, 1000.0])  # at the points of the curve
time_interval_s = np.array([600.0, 600.0, 1200.0, 1200.0])
expected_kg = np.dot(np.array([220.0, 0.0, 205.0, 200.0]) * power_kw / 3.6e6, time_interval_s)
expected_hours = (600.0 + 1200.0 + 1200.0) / 3600.0

violated = False
for engine_class in (Engine, EngineDualFuel):
    for type_ in (TypeComponent.MAIN_ENGINE, TypeComponent.AUXILIARY_ENGINE):
        kwargs = dict(type_=type_, name="engine", rated_power=1000, rated_speed=750, bsfc_curve=bsfc)
        if engine_class is EngineDualFuel:
            kwargs.update(bspfc_curve=np.array([2.0]), pilot_fuel_type=TypeFuel.DIESEL)
        engine = engine_class(**kwargs)
        engine.power_output = power_kw
        label = "%s labelled %s" % (engine_class.__name__, type_.name)
        try:
            result = get_fuel_emission_energy_balance_for_component(
                component=engine,
                time_interval_s=time_interval_s,
                integration_method=IntegrationMethod.sum_with_time,
            )
        except Exception as error:
            print("%-40s refused: %r" % (label, error))
            violated = True
            continue
        main_fuel_kg = result.multi_fuel_consumption_total_kg.fuels[0].mass_or_mass_fraction
        ok = np.isclose(main_fuel_kg, expected_kg, rtol=1e-9) and np.isclose(
            result.running_hours_main_engines_hr, expected_hours
        )
        print(
            "%-40s fuel %.4f kg (expected %.4f), running hours %.4f (expected %.4f)"
            % (label, main_fuel_kg, expected_kg, result.running_hours_main_engines_hr, expected_hours)
        )
        violated |= not ok

if violated:
    print("PROPERTY VIOLATED: an engine with the auxiliary-engine label gets no fuel figure")
    sys.exit(1)
print("PROPERTY HOLDS")
sys.exit(0)
