"""C07 finding 1: between the given points a combined gas/steam plant does not follow its
turbine power curves (it interpolates the SHARE of the points, not the two power curves).

The curves below are straight lines through collinear points (gas 400/475/550 kW and steam
0/225/450 kW at 40/70/100 % load of a 1000 kW plant; gas + steam = load * rated power at every
point), so every interpolation of the given curves - linear, or the PCHIP interpolation FEEMS
uses for all its curves - gives the same values between the points, and they add up to the
output.  The run point must return those values.
"""
import logging
import sys

import numpy as np
from scipy.interpolate import PchipInterpolator

logging.disable(logging.CRITICAL)

from feems.components_model.component_electric import COGES, ElectricMachine
from feems.components_model.component_mechanical import COGAS
from feems.fuel import TypeFuel
from feems.types_for_feems import TypeComponent, TypePower

RATED = 1000.0
gas_curve = np.array([[0.4, 400.0], [0.7, 475.0], [1.0, 550.0]])
steam_curve = np.array([[0.4, 0.0], [0.7, 225.0], [1.0, 450.0]])
# the curves are consistent: at every point gas + steam is the plant output
assert np.allclose(gas_curve[:, 1] + steam_curve[:, 1], gas_curve[:, 0] * RATED)

cogas = COGAS(
    name="cogas",
    rated_power=RATED,
    rated_speed=3000,
    eff_curve=np.array([[0.4, 0.40], [0.7, 0.46], [1.0, 0.50]]),
    gas_turbine_power_curve=gas_curve.copy(),
    steam_turbine_power_curve=steam_curve.copy(),
    fuel_type=TypeFuel.NATURAL_GAS,
)

load = np.array([0.4, 0.5, 0.55, 0.6, 0.7, 0.85, 1.0])  # all inside the range of the curves
power_kw = load * RATED
run_point = cogas.get_gas_turbine_run_point_from_power_output_kw(power_kw)

gas_expected = np.interp(load, gas_curve[:, 0], gas_curve[:, 1])
steam_expected = np.interp(load, steam_curve[:, 0], steam_curve[:, 1])
# FEEMS' own interpolant agrees with the straight line on these collinear points
assert np.allclose(gas_expected, PchipInterpolator(gas_curve[:, 0], gas_curve[:, 1])(load))
assert np.allclose(steam_expected, PchipInterpolator(steam_curve[:, 0], steam_curve[:, 1])(load))
assert np.allclose(gas_expected + steam_expected, power_kw)

print("load                 ", load)
print("gas   turbine, code  ", np.round(run_point.gas_turbine_power_kw, 3))
print("gas   turbine, curve ", gas_expected)
print("steam turbine, code  ", np.round(run_point.steam_turbine_power_kw, 3))
print("steam turbine, curve ", steam_expected)
adds_up = np.allclose(
    run_point.gas_turbine_power_kw + run_point.steam_turbine_power_kw, power_kw, rtol=1e-12
)
print("gas + steam == output:", adds_up)

# the same through the generating plant (COGES), scalar query, and the stored-power properties
generator = ElectricMachine(
    type_=TypeComponent.GENERATOR,
    name="gen",
    rated_power=950,
    rated_speed=3000,
    power_type=TypePower.POWER_SOURCE,
    switchboard_id=1,
    eff_curve=np.array([0.95]),
)
coges = COGES("coges", cogas, generator)
coges_point = coges.get_system_run_point_from_power_output_kw(0.95 * 500.0)  # turbines: 500 kW
print(
    "COGES delivering 475 kW (500 kW at the turbines): gas %.3f steam %.3f, curves say 425 / 75; "
    "properties: gas %.3f steam %.3f"
    % (
        coges_point.cogas.gas_turbine_power_kw,
        coges_point.cogas.steam_turbine_power_kw,
        cogas.power_output_gas_turbine,
        cogas.power_output_steam_turbine,
    )
)

follows = np.allclose(run_point.gas_turbine_power_kw, gas_expected, rtol=1e-6) and np.allclose(
    run_point.steam_turbine_power_kw, steam_expected, rtol=1e-6, atol=1e-6
)
if follows and adds_up:
    print("PROPERTY HOLDS")
    sys.exit(0)
deviation = run_point.steam_turbine_power_kw - steam_expected
print(
    "PROPERTY VIOLATED: the turbine powers do not follow the given curves between the points "
    "(steam turbine off by up to %.1f kW = %.0f %% of its curve value)"
    % (
        np.max(np.abs(deviation)),
        100 * np.max(np.abs(deviation)[steam_expected > 0] / steam_expected[steam_expected > 0]),
    )
)
sys.exit(1)
