"""C18 finding 2: a scalar mass held as a zero-dimensional INTEGER array (np.array(5),
np.squeeze(np.array([5])), int_series[0, ...]) can be added, scaled and totalled, but the mass
fractions and the emissions of the record are refused (UFuncTypeError from an in-place true
division of an integer array).  The same masses as python int, numpy int64 scalar, 0-d float
array or one-element integer series give fractions 0.625 / 0.375.

Exit status 1 = property violated, 0 = holds.
"""
import sys
import numpy as np
from feems.fuel import Fuel, FuelConsumption, TypeFuel, FuelOrigin

violations = []


def record(m1, m2):
    return FuelConsumption(
        [
            Fuel(TypeFuel.DIESEL, FuelOrigin.FOSSIL, mass_or_mass_fraction=m1),
            Fuel(TypeFuel.NATURAL_GAS, FuelOrigin.FOSSIL, mass_or_mass_fraction=m2),
        ]
    )


representations = {
    "python int": (5, 3),
    "numpy int64 scalar": (np.int64(5), np.int64(3)),
    "0-d float array": (np.array(5.0), np.array(3.0)),
    "one-element int series": (np.array([5]), np.array([3])),
    "0-d int array": (np.array(5), np.array(3)),
    "squeezed int series": (np.squeeze(np.array([5])), np.squeeze(np.array([3]))),
}
for label, (m1, m2) in representations.items():
    r = record(m1, m2)
    # add / scale / total accept every representation
    s = r + r
    k = r * 2
    assert float(np.sum(s.total_fuel_consumption)) == 16.0, label
    assert float(np.sum(k.total_fuel_consumption)) == 16.0, label
    assert float(np.sum(r.total_fuel_consumption)) == 8.0, label
    try:
        fractions = [float(np.sum(f.mass_or_mass_fraction)) for f in r.fuel_by_mass_fraction.fuels]
        emissions = r.get_total_co2_emissions()
    except Exception as exc:  # noqa: BLE001
        violations.append(label)
        print(f"VIOLATION {label}: total = {r.total_fuel_consumption} but fractions / emissions raise "
              f"{type(exc).__name__}: {exc}")
        continue
    ok = np.allclose(fractions, [0.625, 0.375]) and np.isclose(sum(fractions), 1.0)
    print(f"{'ok       ' if ok else 'VIOLATION'} {label}: fractions = {fractions}, "
          f"CO2 tank-to-wake = {np.sum(emissions.tank_to_wake_kg_or_gco2eq_per_gfuel):.4f}")
    if not ok:
        violations.append(label)
    # operands unchanged
    assert np.array_equal(r.fuels[0].mass_or_mass_fraction, m1)
    assert np.array_equal(r.fuels[1].mass_or_mass_fraction, m2)

print()
if violations:
    print(f"Property C18 VIOLATED for: {violations}")
    sys.exit(1)
print("Property C18 holds on these inputs")
sys.exit(0)
