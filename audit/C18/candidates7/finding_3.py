"""C18 finding 3: scaling and adding fuel records depend on the operand order of the python
expression: record * k works, k * record is refused; builtin sum() of records is refused (it
starts with 0 + record) although np.sum of the same list and sum(records, FuelConsumption())
work.  The emission record GHGEmissions of the same module defines __rmul__ / __radd__, so
the symmetric forms are evidently intended.

Exit status 1 = property violated, 0 = holds.
"""
import sys
import numpy as np
from feems.fuel import Fuel, FuelConsumption, TypeFuel, FuelOrigin

violations = []


def masses(rec):
    return [np.asarray(f.mass_or_mass_fraction, dtype=float).tolist() for f in rec.fuels]


for label, m1, m2 in (
    ("scalar", 5.0, 3.0),
    ("series", np.array([1.0, 0.0, 3.0]), np.array([0.0, 0.0, 2.0])),
):
    r = FuelConsumption(
        [
            Fuel(TypeFuel.DIESEL, FuelOrigin.FOSSIL, mass_or_mass_fraction=m1),
            Fuel(TypeFuel.NATURAL_GAS, FuelOrigin.FOSSIL, mass_or_mass_fraction=m2),
        ]
    )
    right = r * 2.0
    print(f"{label}: record * 2.0 -> {masses(right)}")
    for k_label, k in (("2.0", 2.0), ("np.float64(2.0)", np.float64(2.0))):
        try:
            left = k * r
            same = masses(left) == masses(right)
            print(f"{label}: {k_label} * record -> {masses(left)}")
            if not same:
                violations.append(f"{label}: {k_label} * record differs")
        except TypeError as exc:
            violations.append(f"{label}: {k_label} * record refused")
            print(f"VIOLATION {label}: {k_label} * record raises TypeError: {exc}")
    with_start = sum([r, r, r], FuelConsumption())
    print(f"{label}: sum(records, FuelConsumption()) -> {masses(with_start)}")
    try:
        plain = sum([r, r, r])
        print(f"{label}: sum(records) -> {masses(plain)}")
        if masses(plain) != masses(with_start):
            violations.append(f"{label}: sum(records) differs")
    except TypeError as exc:
        violations.append(f"{label}: sum(records) refused")
        print(f"VIOLATION {label}: sum(records) raises TypeError: {exc}")

print()
if violations:
    print(f"Property C18 VIOLATED: {violations}")
    sys.exit(1)
print("Property C18 holds on these inputs")
sys.exit(0)
