"""C18 finding 2: the mass fractions of a record whose mass series are single precision (float32)
or half precision (float16) do not sum to one: the masses are converted to float64 (the repair
for integer series) but divided by a total that was summed in the narrow type.

Clause: 'mass fractions sum to one wherever consumption is non-zero'.
"""
import sys

import numpy as np

from feems.fuel import Fuel, FuelConsumption, FuelOrigin, TypeFuel

TOLERANCE = 1e-9  # float64 rounding of a sum of four fractions is about 2e-16

kinds = [TypeFuel.DIESEL, TypeFuel.HFO, TypeFuel.NATURAL_GAS, TypeFuel.LFO]
rng = np.random.default_rng(0)
masses64 = [rng.random(6) * scale for scale in (1.0, 10.0, 0.1, 100.0)]
for m in masses64:
    m[2] = 0.0  # a sample without consumption

worst = {}
for dtype in (np.float64, np.float32, np.float16):
    record = FuelConsumption(
        fuels=[
            Fuel(kind, FuelOrigin.FOSSIL, mass_or_mass_fraction=m.astype(dtype))
            for kind, m in zip(kinds, masses64)
        ]
    )
    before = [f.mass_or_mass_fraction.copy() for f in record.fuels]
    fractions = record.fuel_by_mass_fraction
    total = np.asarray(record.total_fuel_consumption)
    fraction_sum = sum(f.mass_or_mass_fraction for f in fractions.fuels)
    deviation = np.abs(fraction_sum[total != 0] - 1).max()
    zero_ok = np.all(fraction_sum[total == 0] == 0)
    unchanged = all(
        np.array_equal(x, f.mass_or_mass_fraction) and f.mass_or_mass_fraction.dtype == dtype
        for x, f in zip(before, record.fuels)
    )
    print(
        f"{np.dtype(dtype).name:8s} fractions are {fraction_sum.dtype}, total is {total.dtype}:"
        f" max |sum of fractions - 1| = {deviation:.3g};"
        f" zero where no consumption: {zero_ok}; operand unchanged: {unchanged}"
    )
    worst[np.dtype(dtype).name] = deviation

bad = {k: v for k, v in worst.items() if v > TOLERANCE}
if bad:
    print("PROPERTY VIOLATED: the fractions do not sum to one for", bad)
    sys.exit(1)
print("property holds")
sys.exit(0)
