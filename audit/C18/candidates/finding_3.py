"""C18 finding 3 (borderline domain): a mass series given as a Python list or tuple is
accepted by Fuel and by total_fuel_consumption, but adding two such records CONCATENATES
the series and scaling by an integer REPEATS it - silently, no error.

Run: PYTHONPATH=<worktree>/feems /venv/bin/python finding_3.py   (exit 1 = property violated)
"""
import sys
import numpy as np
from feems.fuel import Fuel, FuelConsumption, TypeFuel, FuelOrigin, FuelSpecifiedBy

violations = []


def rec(kind, mass):
    return FuelConsumption(fuels=[Fuel(kind, FuelOrigin.FOSSIL, FuelSpecifiedBy.IMO,
                                       mass_or_mass_fraction=mass)])


for make in (list, tuple, np.array):
    label = make.__name__
    a = rec(TypeFuel.DIESEL, make([1.0, 2.0, 3.0]))
    b = rec(TypeFuel.DIESEL, make([0.5, 0.0, 0.5]))
    total_a, total_b = a.total_fuel_consumption, b.total_fuel_consumption
    print(f"[{label}] totals of the operands: {total_a} and {total_b}")
    s = a + b
    total = s.total_fuel_consumption
    print(f"[{label}] a + b -> mass {s.fuels[0].mass_or_mass_fraction!r}, total {total}")
    if np.shape(total) != np.shape(total_a) or not np.allclose(total, total_a + total_b):
        violations.append(f"{label}: a + b has total {total}, expected {total_a + total_b}")
    k = a * 2
    total = k.total_fuel_consumption
    print(f"[{label}] a * 2 -> mass {k.fuels[0].mass_or_mass_fraction!r}, total {total}")
    if np.shape(total) != np.shape(total_a) or not np.allclose(total, 2 * total_a):
        violations.append(f"{label}: a * 2 has total {total}, expected {2 * total_a}")

print()
if violations:
    print(f"PROPERTY VIOLATED ({len(violations)} observations):")
    for v in violations:
        print("  -", v)
    sys.exit(1)
print("property holds")
sys.exit(0)
