"""C18 finding 4 (borderline domain): for a boolean mass series numpy's '+' is a logical
OR, so adding two records loses mass wherever both series are True (1 + 1 -> 1), and
scaling by True/False series stays boolean. The same series given as 0/1 integers or
0.0/1.0 floats adds correctly.

Run: PYTHONPATH=<worktree>/feems /venv/bin/python finding_4.py   (exit 1 = property violated)
"""
import sys
import numpy as np
from feems.fuel import Fuel, FuelConsumption, TypeFuel, FuelOrigin, FuelSpecifiedBy

violations = []


def rec(mass):
    return FuelConsumption(fuels=[Fuel(TypeFuel.DIESEL, FuelOrigin.FOSSIL, FuelSpecifiedBy.IMO,
                                       mass_or_mass_fraction=mass)])


x = [1, 0, 1, 1]
y = [1, 1, 0, 1]
expected = np.array(x, dtype=float) + np.array(y, dtype=float)
for dtype in (float, int, bool):
    a, b = rec(np.array(x, dtype=dtype)), rec(np.array(y, dtype=dtype))
    s = a + b
    got = s.fuels[0].mass_or_mass_fraction
    total = np.asarray(s.total_fuel_consumption, dtype=float)
    print(f"{dtype.__name__:5s}: a + b -> {got!r}  total {total}  expected {expected}")
    if not np.array_equal(total, expected):
        violations.append(f"{dtype.__name__} series: total of a + b is {total}, expected {expected}")
    three = np.asarray(((a + b) + a).total_fuel_consumption, dtype=float)
    if not np.array_equal(three, expected + np.array(x, dtype=float)):
        violations.append(f"{dtype.__name__} series: (a + b) + a is {three}")

print()
if violations:
    print(f"PROPERTY VIOLATED ({len(violations)} observations):")
    for v in violations:
        print("  -", v)
    sys.exit(1)
print("property holds")
sys.exit(0)
