"""C18 finding 1: the sum of a series record and a scalar record of ANOTHER fuel kind
cannot be totalled, split or turned into emissions (ValueError), although the same sum
works when the two records hold the same kind.

Run: PYTHONPATH=<worktree>/feems /venv/bin/python finding_1.py   (exit 1 = property violated)
"""
import sys
import numpy as np
from feems.fuel import Fuel, FuelConsumption, TypeFuel, FuelOrigin, FuelSpecifiedBy
from feems.components_model.component_mechanical import Engine
from feems.types_for_feems import TypeComponent

violations = []


def fuel(kind, mass):
    return Fuel(
        fuel_type=kind,
        origin=FuelOrigin.FOSSIL,
        fuel_specified_by=FuelSpecifiedBy.IMO,
        mass_or_mass_fraction=mass,
    )


def check_sum(label, a, b):
    """a + b must conserve the total, split into fractions that sum to one, give the sum
    of the two emissions, and leave a and b alone."""
    expected_total = a.total_fuel_consumption + b.total_fuel_consumption  # broadcasts
    expected_ttw = (
        a.get_total_co2_emissions().tank_to_wake_kg_or_gco2eq_per_gfuel
        + b.get_total_co2_emissions().tank_to_wake_kg_or_gco2eq_per_gfuel
    )
    for name, s in (("a+b", a + b), ("b+a", b + a)):
        try:
            total = s.total_fuel_consumption
            ok = np.allclose(total, expected_total)
            print(f"  {label} {name}: total = {total}  expected {expected_total}")
            if not ok:
                violations.append(f"{label} {name}: total not conserved")
        except Exception as e:  # noqa: BLE001
            print(f"  {label} {name}: total_fuel_consumption raises {type(e).__name__}: {e}")
            violations.append(f"{label} {name}: total_fuel_consumption raises {type(e).__name__}")
        try:
            fractions = [f.mass_or_mass_fraction for f in s.fuel_by_mass_fraction.fuels]
            frac_sum = np.sum(np.broadcast_arrays(*fractions), axis=0)
            print(f"  {label} {name}: fractions sum = {frac_sum}")
            if not np.allclose(frac_sum[np.asarray(expected_total) != 0], 1.0):
                violations.append(f"{label} {name}: fractions do not sum to one")
        except Exception as e:  # noqa: BLE001
            print(f"  {label} {name}: fuel_by_mass_fraction raises {type(e).__name__}")
            violations.append(f"{label} {name}: fuel_by_mass_fraction raises {type(e).__name__}")
        try:
            ttw = s.get_total_co2_emissions().tank_to_wake_kg_or_gco2eq_per_gfuel
            print(f"  {label} {name}: TTW emission = {ttw}  expected {expected_ttw}")
            if not np.allclose(ttw, expected_ttw):
                violations.append(f"{label} {name}: emission differs from the sum of emissions")
        except Exception as e:  # noqa: BLE001
            print(f"  {label} {name}: get_total_co2_emissions raises {type(e).__name__}")
            violations.append(f"{label} {name}: get_total_co2_emissions raises {type(e).__name__}")


print("Control - series diesel + scalar DIESEL (same kind, broadcasts):")
check_sum(
    "same kind",
    FuelConsumption(fuels=[fuel(TypeFuel.DIESEL, np.array([1.0, 2.0, 0.0]))]),
    FuelConsumption(fuels=[fuel(TypeFuel.DIESEL, 0.5)]),
)
n_control = len(violations)

print("Case 1 - series diesel + scalar NATURAL GAS (two kinds):")
check_sum(
    "two kinds",
    FuelConsumption(fuels=[fuel(TypeFuel.DIESEL, np.array([1.0, 2.0, 0.0]))]),
    FuelConsumption(fuels=[fuel(TypeFuel.NATURAL_GAS, 0.5)]),
)

print("Case 2 - series diesel + scalar ZERO natural gas (an idle consumer):")
check_sum(
    "zero scalar",
    FuelConsumption(fuels=[fuel(TypeFuel.DIESEL, np.array([1.0, 2.0, 0.0]))]),
    FuelConsumption(fuels=[fuel(TypeFuel.NATURAL_GAS, 0.0)]),
)

print("Case 3 - the same through the component API: a diesel engine over a load series")
print("         plus a gas engine at one constant load:")
curve = np.array([[0.25, 220.0], [0.5, 200.0], [0.75, 190.0], [1.0, 195.0]])
diesel_engine = Engine(
    type_=TypeComponent.AUXILIARY_ENGINE, name="diesel", rated_power=1000.0,
    rated_speed=900.0, bsfc_curve=curve,
)
gas_engine = Engine(
    type_=TypeComponent.AUXILIARY_ENGINE, name="gas", rated_power=1000.0,
    rated_speed=900.0, bsfc_curve=curve, fuel_type=TypeFuel.NATURAL_GAS,
)
check_sum(
    "engines",
    diesel_engine.get_engine_run_point_from_power_out_kw(
        np.array([300.0, 500.0, 800.0])
    ).fuel_flow_rate_kg_per_s,
    gas_engine.get_engine_run_point_from_power_out_kw(600.0).fuel_flow_rate_kg_per_s,
)

print()
if n_control:
    print("UNEXPECTED: the control case failed too")
if violations:
    print(f"PROPERTY VIOLATED ({len(violations)} observations):")
    for v in violations:
        print("  -", v)
    sys.exit(1)
print("property holds")
sys.exit(0)
