"""C18 finding 2: FuelConsumption.asdict, the record's per-kind mass view, is keyed by
type and origin only. A sum that holds two kinds differing in their specification (which
__add__ keeps apart, as the property's definition of a kind demands), or the same kind
twice (main and pilot fuel, which __add__ explicitly supports), loses a mass in that view.

Run: PYTHONPATH=<worktree>/feems /venv/bin/python finding_2.py   (exit 1 = property violated)
"""
import sys
import numpy as np
from feems.fuel import (
    Fuel, FuelConsumption, TypeFuel, FuelOrigin, FuelSpecifiedBy, GhgEmissionFactorTankToWake,
)

violations = []


def check(label, record, n_kinds_expected):
    total = record.total_fuel_consumption
    view = record.asdict
    total_of_view = np.sum(list(view.values()), axis=0) if view else 0.0
    print(f"{label}:")
    print(f"  fuels in record        : "
          f"{[(str(f), f.fuel_specified_by.name, f.mass_or_mass_fraction) for f in record.fuels]}")
    print(f"  total_fuel_consumption : {total}")
    print(f"  asdict                 : {view}")
    print(f"  sum of asdict values   : {total_of_view}")
    if len(view) != n_kinds_expected:
        violations.append(f"{label}: asdict has {len(view)} entries for {n_kinds_expected} kinds")
    if not np.allclose(total_of_view, total):
        violations.append(f"{label}: asdict masses add up to {total_of_view}, the record to {total}")


# (a) the same type and origin under two specifications: IMO factors and FuelEU factors
imo = FuelConsumption(fuels=[Fuel(TypeFuel.DIESEL, FuelOrigin.FOSSIL, FuelSpecifiedBy.IMO,
                                  mass_or_mass_fraction=1.0)])
eu = FuelConsumption(fuels=[Fuel(TypeFuel.DIESEL, FuelOrigin.FOSSIL,
                                 FuelSpecifiedBy.FUEL_EU_MARITIME, mass_or_mass_fraction=2.0)])
check("IMO diesel + FuelEU diesel (scalar)", imo + eu, 2)

# (b) the same with series masses, IMO and a user-specified diesel
user = FuelConsumption(fuels=[Fuel(
    TypeFuel.DIESEL, FuelOrigin.FOSSIL, FuelSpecifiedBy.USER, lhv_mj_per_g=0.0427,
    ghg_emission_factor_well_to_tank_gco2eq_per_mj=14.0,
    ghg_emission_factor_tank_to_wake=[GhgEmissionFactorTankToWake(3.2, 0.0, 0.0, 0.0)],
    mass_or_mass_fraction=np.array([2.0, 0.0, 1.0]))])
imo_series = FuelConsumption(fuels=[Fuel(TypeFuel.DIESEL, FuelOrigin.FOSSIL, FuelSpecifiedBy.IMO,
                                         mass_or_mass_fraction=np.array([1.0, 1.0, 1.0]))])
check("IMO diesel + user-specified diesel (series)", imo_series + user, 2)
check("user-specified diesel + IMO diesel (series, other order)", user + imo_series, 2)

# (c) one record lists diesel twice (main and pilot fuel of a dual-fuel engine running on
#     diesel); __add__ keeps both entries ("A record may list one kind of fuel twice")
main_and_pilot = FuelConsumption(fuels=[
    Fuel(TypeFuel.DIESEL, FuelOrigin.FOSSIL, FuelSpecifiedBy.IMO, mass_or_mass_fraction=10.0),
    Fuel(TypeFuel.DIESEL, FuelOrigin.FOSSIL, FuelSpecifiedBy.IMO, mass_or_mass_fraction=0.5),
])
other = FuelConsumption(fuels=[Fuel(TypeFuel.DIESEL, FuelOrigin.FOSSIL, FuelSpecifiedBy.IMO,
                                    mass_or_mass_fraction=1.0)])
s = main_and_pilot + other
print("main + pilot diesel, plus diesel:")
print(f"  total_fuel_consumption : {s.total_fuel_consumption}")
print(f"  asdict                 : {s.asdict}")
if not np.isclose(sum(s.asdict.values()), s.total_fuel_consumption):
    violations.append(
        f"main+pilot: asdict gives {sum(s.asdict.values())} kg of diesel, the record holds "
        f"{s.total_fuel_consumption} kg"
    )

print()
if violations:
    print(f"PROPERTY VIOLATED ({len(violations)} observations):")
    for v in violations:
        print("  -", v)
    sys.exit(1)
print("property holds")
sys.exit(0)
