"""C18 finding 1: the per-fuel-type accessors of a fuel record (diesel, natural_gas, hydrogen)
refuse a record that holds a constant mass next to a mass series, although the total, the mass
fractions, the emissions and the addition accept it (and although every operand gives its own
per-type mass).  The per-kind mass of a sum can therefore not be read: conservation fails.

Exit status 1 = property violated, 0 = holds.
"""
import sys
import numpy as np
from feems.fuel import Fuel, FuelConsumption, TypeFuel, FuelOrigin

violations = []


def check(label, record, accessor, expected):
    try:
        got = getattr(record, accessor)
    except Exception as exc:  # noqa: BLE001
        violations.append(label)
        print(f"VIOLATION {label}: .{accessor} raises {type(exc).__name__}: {exc}")
        print(f"          expected per-type mass {expected}")
        return
    if not np.allclose(np.broadcast_arrays(got, expected)[0], np.broadcast_arrays(got, expected)[1]):
        violations.append(label)
        print(f"VIOLATION {label}: .{accessor} = {got}, expected {expected}")
    else:
        print(f"ok        {label}: .{accessor} = {got}")


series = np.array([1.0, 2.0, 3.0])

# (a) sum of a series record and a scalar record of the same fuel type (different origin)
a = FuelConsumption([Fuel(TypeFuel.DIESEL, FuelOrigin.FOSSIL, mass_or_mass_fraction=series.copy())])
b = FuelConsumption([Fuel(TypeFuel.DIESEL, FuelOrigin.BIO, mass_or_mass_fraction=2.0)])
print("a.diesel =", a.diesel, "  b.diesel =", b.diesel)
for label, s in (("a+b", a + b), ("b+a", b + a)):
    print(f"{label}: total = {s.total_fuel_consumption}, fractions = "
          f"{[f.mass_or_mass_fraction.tolist() for f in s.fuel_by_mass_fraction.fuels]}")
    check(f"(a) {label}", s, "diesel", a.diesel + b.diesel)

# (b) a record that merely declares a second fuel of the type with the default mass 0.0
c = FuelConsumption(
    [
        Fuel(TypeFuel.NATURAL_GAS, FuelOrigin.FOSSIL, mass_or_mass_fraction=series.copy()),
        Fuel(TypeFuel.NATURAL_GAS, FuelOrigin.BIO),  # default mass 0.0
    ]
)
check("(b) default mass 0.0 next to a series", c, "natural_gas", series)

# (c) a one-sample series next to a longer series (the total broadcasts it)
d = FuelConsumption(
    [
        Fuel(TypeFuel.HYDROGEN, FuelOrigin.RENEWABLE_NON_BIO, mass_or_mass_fraction=series.copy()),
        Fuel(TypeFuel.HYDROGEN, FuelOrigin.BIO, mass_or_mass_fraction=np.array([0.5])),
    ]
)
print("d.total =", d.total_fuel_consumption)
check("(c) one-element array next to a series", d, "hydrogen", series + 0.5)

# control: same shapes work
e = FuelConsumption(
    [
        Fuel(TypeFuel.DIESEL, FuelOrigin.FOSSIL, mass_or_mass_fraction=series.copy()),
        Fuel(TypeFuel.DIESEL, FuelOrigin.BIO, mass_or_mass_fraction=np.full(3, 2.0)),
    ]
)
check("control: two series", e, "diesel", series + 2.0)

print()
if violations:
    print(f"Property C18 VIOLATED in {len(violations)} case(s): {violations}")
    sys.exit(1)
print("Property C18 holds on these inputs")
sys.exit(0)
