"""C18 finding 1: fuel records whose masses are an integer series of a narrow type (int16, int8,
uint8): adding or scaling the records wraps around instead of adding / multiplying the masses.

Clause: 'adding records adds masses per fuel kind so that the total and every per-kind mass are
conserved' and 'scaling multiplies every mass'.
"""
import sys

import numpy as np

from feems.fuel import Fuel, FuelConsumption, FuelOrigin, TypeFuel


def diesel(mass):
    return Fuel(TypeFuel.DIESEL, FuelOrigin.FOSSIL, mass_or_mass_fraction=mass)


def gas(mass):
    return Fuel(TypeFuel.NATURAL_GAS, FuelOrigin.FOSSIL, mass_or_mass_fraction=mass)


violations = []

# Two records with one kind each, masses in kg per step as a 16 bit integer series
a = FuelConsumption(fuels=[diesel(np.array([20000, 100], dtype=np.int16))])
b = FuelConsumption(fuels=[diesel(np.array([20000, 5], dtype=np.int16))])
expected_total = a.total_fuel_consumption.astype(float) + b.total_fuel_consumption.astype(float)

s = a + b
print("a + b: diesel mass       ", s.fuels[0].mass_or_mass_fraction, " expected", expected_total)
if not np.allclose(np.asarray(s.fuels[0].mass_or_mass_fraction, dtype=float), expected_total):
    violations.append("add: per-kind mass not conserved")
if not np.allclose(np.asarray(s.total_fuel_consumption, dtype=float), expected_total):
    violations.append("add: total not conserved")

# The same two masses as two kinds in ONE record are totalled correctly (np.sum widens):
c = FuelConsumption(
    fuels=[
        diesel(np.array([20000, 100], dtype=np.int16)),
        gas(np.array([20000, 5], dtype=np.int16)),
    ]
)
print("total of a two-kind record", c.total_fuel_consumption, "(correct, for comparison)")

# Scaling by a whole number
m = a * 2
print("a * 2: diesel mass       ", m.fuels[0].mass_or_mass_fraction, " expected [40000 200]")
if not np.allclose(np.asarray(m.fuels[0].mass_or_mass_fraction, dtype=float), [40000.0, 200.0]):
    violations.append("scale: mass not multiplied")
# ... and by the same number as a float it is right
print("a * 2.0: diesel mass     ", (a * 2.0).fuels[0].mass_or_mass_fraction)

# A constant mass (python int) next to the series: wraps, or is refused, depending on its size
s2 = a + FuelConsumption(fuels=[diesel(20000)])
print("a + (20000): diesel mass ", s2.fuels[0].mass_or_mass_fraction, " expected [40000 20100]")
if not np.allclose(np.asarray(s2.fuels[0].mass_or_mass_fraction, dtype=float), [40000.0, 20100.0]):
    violations.append("add series + constant: per-kind mass not conserved")
try:
    s3 = a + FuelConsumption(fuels=[diesel(40000)])
    print("a + (40000): diesel mass ", s3.fuels[0].mass_or_mass_fraction)
    if not np.allclose(
        np.asarray(s3.fuels[0].mass_or_mass_fraction, dtype=float), [60000.0, 40100.0]
    ):
        violations.append("add series + constant 40000: per-kind mass not conserved")
except OverflowError as exc:
    print("a + (40000): refused:", exc)
    violations.append("add series + constant 40000: refused with OverflowError")

# The operands themselves are untouched (this clause holds)
assert a.fuels[0].mass_or_mass_fraction.tolist() == [20000, 100]
assert b.fuels[0].mass_or_mass_fraction.tolist() == [20000, 5]

if violations:
    print("PROPERTY VIOLATED:")
    for v in violations:
        print("  -", v)
    sys.exit(1)
print("property holds")
sys.exit(0)
