"""C17 finding 2: an interval vector given as a Python list is refused, although the same numbers
as numpy array are accepted.

feems.types_for_feems.TimeIntervalList = Union[np.ndarray, List[float], float, int] is the declared
type of time_interval_s of Battery.get_energy_stored_kj / get_soc (and of the SuperCapacitor
twins); MachinerySystem.set_time_interval accepts a list for IntegrationMethod.sum_with_time and
node.get_duration_s has a branch for lists. utility.data_is_valid_for_variable_time_interval only
lets numpy arrays and scalars through, so every clause of C17 fails with IntegrationError for this
representation of the interval vector - at the component and, for a plant with a store, at the
ElectricPowerSystem level.

Exit status 1: property violated (valid input refused / results differ), 0: holds.
"""

import logging
import sys

import numpy as np

logging.disable(logging.CRITICAL)

from feems.components_model.component_electric import (  # noqa: E402
    Battery,
    BatterySystem,
    ElectricComponent,
    SuperCapacitor,
)
from feems.components_model.utility import IntegrationMethod  # noqa: E402
from feems.system_model import ElectricPowerSystem  # noqa: E402
from feems.types_for_feems import TypeComponent, TypePower  # noqa: E402

p_terminal = np.array([100.0, -50.0, 0.0, -100.0, 200.0])
dt_array = np.array([10.0, 20.0, 30.0, 40.0, 50.0])
dt_list = [10.0, 20.0, 30.0, 40.0, 50.0]

violated = False

battery = Battery("battery", 1000.0, 1, 1, soc0=0.5, eff_charging=0.9, eff_discharging=0.8)
supercap = SuperCapacitor("supercap", 50000.0, 1000.0, soc0=0.5, eff_charging=0.9, eff_discharging=0.8)
for store in (battery, supercap):
    store.power_input = p_terminal
    ref_total = store.get_energy_stored_kj(dt_array, IntegrationMethod.sum_with_time)
    ref_soc = store.get_soc(dt_array, IntegrationMethod.sum_with_time, True)
    print(f"== {store.name}: with numpy intervals total = {ref_total} kJ, SoC series = {ref_soc}")
    for label, call in (
        ("energy total", lambda: store.get_energy_stored_kj(dt_list, IntegrationMethod.sum_with_time)),
        ("energy series", lambda: store.get_energy_stored_kj(dt_list, IntegrationMethod.sum_with_time, True)),
        ("soc end", lambda: store.get_soc(dt_list, IntegrationMethod.sum_with_time)),
        ("soc series", lambda: store.get_soc(dt_list, IntegrationMethod.sum_with_time, True)),
    ):
        try:
            value = call()
            print(f"   list intervals, {label}: {value}")
        except Exception as exc:  # noqa: BLE001
            violated = True
            print(f"   list intervals, {label}: REFUSED with {type(exc).__name__}: {exc}")

# The same through the plant: a load and a battery system on one switchboard
converter = ElectricComponent(
    type_=TypeComponent.POWER_CONVERTER, name="converter", rated_power=1000.0,
    eff_curve=np.array([0.97]), power_type=TypePower.POWER_TRANSMISSION, switchboard_id=1,
)
battery_1 = Battery("battery 1", 1000.0, 1, 1, soc0=0.5, eff_charging=0.9, eff_discharging=0.8, switchboard_id=1)
battery_system = BatterySystem("battery system", battery_1, converter, 1)
load = ElectricComponent(
    type_=TypeComponent.OTHER_LOAD, name="load", rated_power=2000.0, eff_curve=np.array([1.0]),
    power_type=TypePower.POWER_CONSUMER, switchboard_id=1,
)
plant = ElectricPowerSystem("plant", [load, battery_system], bus_tie_connections=[])
n = len(p_terminal)
plant.set_power_input_from_power_output_by_switchboard_id_type_name(
    power_output=np.array([300.0, 200.0, 0.0, 600.0, 50.0]), switchboard_id=1,
    type_=TypePower.POWER_CONSUMER, name="load",
)
plant.set_status_by_switchboard_id_power_type(
    switchboard_id=1, power_type=TypePower.ENERGY_STORAGE, status=np.ones([n, 1])
)
plant.set_load_sharing_mode_power_sources_by_switchboard_id_power_type(
    switchboard_id=1, power_type=TypePower.ENERGY_STORAGE, load_sharing_mode=np.zeros([n, 1])
)
plant.set_bus_tie_status_all(np.array([]))
plant.set_time_interval(time_interval_s=dt_array, integration_method=IntegrationMethod.sum_with_time)
plant.do_power_balance_calculation()
results = {}
for label, dt in (("numpy", dt_array), ("list", dt_list)):
    try:
        plant.set_time_interval(time_interval_s=dt, integration_method=IntegrationMethod.sum_with_time)
        results[label] = plant.get_fuel_energy_consumption_running_time().energy_stored_total_mj
        print(f"== plant, {label} intervals: energy stored = {results[label]} MJ")
    except Exception as exc:  # noqa: BLE001
        violated = True
        print(f"== plant, {label} intervals: REFUSED with {type(exc).__name__}: {exc}")
if len(results) == 2 and not np.isclose(results["numpy"], results["list"]):
    violated = True

if violated:
    print("\nVIOLATED: the interval vector as a list (an admitted TimeIntervalList) is refused")
    sys.exit(1)
print("\nproperty holds")
sys.exit(0)
