"""C17 finding 5 (borderline, a refusal): the constant terminal power of a storage unit given
as a python NUMBER (the declared type of set_power_output_from_input is
Union[float, np.ndarray]; the unit itself converts and integrates it) is refused by the plant's
power balance with AttributeError: 'float' object has no attribute 'size', while the same
constant as a one-element array is accepted.  Stored energy and state of charge of a legal
terminal power cannot be obtained through the plant.

Run: PYTHONPATH=<wt>/feems:<wt>/machinery-system-structure:<wt>/RunFEEMSSim python finding_5.py
Exit status 1 = property violated (current code), 0 = property holds.
"""
import logging
import sys

import numpy as np

logging.disable(logging.CRITICAL)

from feems.components_model.component_electric import (
    Battery,
    ElectricComponent,
    ElectricMachine,
    Genset,
    SuperCapacitor,
)
from feems.components_model.component_mechanical import Engine
from feems.components_model.utility import IntegrationMethod
from feems.system_model import ElectricPowerSystem
from feems.types_for_feems import Power_kW, Speed_rpm, SwbId, TypeComponent, TypePower

time_interval_s = np.array([100.0, 200.0, 300.0, 400.0])
hotel_load = np.array([500.0, 600.0, 700.0, 800.0])
ETA_DIS = 0.8
TERMINAL_KW = -200.0  # constant discharge


def plant_with(storage):
    engine = Engine(
        type_=TypeComponent.AUXILIARY_ENGINE,
        name="engine",
        rated_power=Power_kW(1000),
        rated_speed=Speed_rpm(1500),
        bsfc_curve=np.array([[0.25, 0.5, 0.75, 1.0], [210.0, 195.0, 190.0, 194.0]]).T,
    )
    generator = ElectricMachine(
        type_=TypeComponent.GENERATOR,
        name="generator",
        rated_power=Power_kW(950),
        rated_speed=Speed_rpm(1500),
        power_type=TypePower.POWER_SOURCE,
        switchboard_id=SwbId(1),
        eff_curve=np.array([0.95]),
    )
    genset = Genset("genset", engine, generator)
    load = ElectricComponent(
        type_=TypeComponent.OTHER_LOAD,
        name="hotel load",
        rated_power=Power_kW(1000),
        power_type=TypePower.POWER_CONSUMER,
        switchboard_id=SwbId(1),
    )
    plant = ElectricPowerSystem("plant", [genset, load, storage], [])
    load.set_power_input_from_output(hotel_load)
    genset.status = np.ones(1, dtype=bool)
    storage.status = np.ones(1, dtype=bool)
    storage.load_sharing_mode = np.ones(1)  # the power is given
    plant.set_time_interval(time_interval_s, IntegrationMethod.sum_with_time)
    return plant, genset


def storage_units():
    return [
        Battery("battery", 1000, 1, 1, soc0=0.5, eff_charging=0.9, eff_discharging=ETA_DIS,
                switchboard_id=SwbId(1)),
        SuperCapacitor("supercapacitor", 500000, Power_kW(500), soc0=0.5, eff_charging=0.9,
                       eff_discharging=ETA_DIS, switchboard_id=SwbId(1)),
    ]


demanded_kj = TERMINAL_KW / ETA_DIS * time_interval_s.sum()
violated = False
for constant in (np.array([TERMINAL_KW]), TERMINAL_KW, np.float64(TERMINAL_KW)):
    for storage in storage_units():
        plant, genset = plant_with(storage)
        storage.set_power_output_from_input(constant)
        own = storage.get_energy_stored_kj(time_interval_s, IntegrationMethod.sum_with_time)
        label = f"{storage.name}, terminal power {constant!r}"
        try:
            plant.do_power_balance_calculation()
            result = plant.get_fuel_energy_consumption_running_time()
            got_kj = result.energy_stored_total_mj * 1000
            ok = np.isclose(got_kj, demanded_kj) and np.allclose(
                genset.power_output, hotel_load + TERMINAL_KW
            )
            print(f"{label:55s} unit alone {own:10.1f} kJ; plant {got_kj:10.1f} kJ "
                  f"(demanded {demanded_kj:.1f})  {'ok' if ok else 'WRONG'}")
            violated |= not ok
        except Exception as error:  # noqa
            print(f"{label:55s} unit alone {own:10.1f} kJ; plant REFUSED: "
                  f"{type(error).__name__}: {error}")
            violated = True

if violated:
    print("VIOLATED: a constant terminal power given as a number is refused by the plant "
          "(validate_inputs_before_power_balance_calculation reads power_input.size).")
    sys.exit(1)
print("property holds")
sys.exit(0)
