"""C17 finding 1: the accumulated series of stored energy / state of charge is refused for a
constant terminal power held as a single value, although the integrated total of the same
call (accumulated_time_series=False) is computed over all the intervals.  Clause that fails:
'the last value of the accumulated series equals the integrated total'.

Run: PYTHONPATH=<wt>/feems:<wt>/machinery-system-structure:<wt>/RunFEEMSSim python finding_1.py
Exit status 1 = property violated (current code), 0 = property holds.
"""
import logging
import sys

import numpy as np

logging.disable(logging.CRITICAL)

from feems.components_model.component_electric import (
    Battery,
    BatterySystem,
    ElectricComponent,
    Genset,
    SuperCapacitor,
    SuperCapacitorSystem,
)
from feems.components_model.component_mechanical import Engine
from feems.components_model.component_electric import ElectricMachine
from feems.components_model.utility import IntegrationMethod
from feems.system_model import ElectricPowerSystem
from feems.types_for_feems import Power_kW, Speed_rpm, SwbId, TypeComponent, TypePower

METHOD = IntegrationMethod.sum_with_time
time_interval_s = np.array([10.0, 20.0, 30.0])  # interval vector


def converter(name):
    return ElectricComponent(
        type_=TypeComponent.POWER_CONVERTER,
        name=name,
        rated_power=Power_kW(1000),
        eff_curve=np.array([[0.0, 0.8], [0.25, 0.9], [0.5, 0.95], [0.75, 0.97], [1.0, 0.96]]),
        power_type=TypePower.POWER_TRANSMISSION,
        switchboard_id=SwbId(1),
    )


def units():
    battery = Battery("battery", 1000, 1, 1, soc0=0.5, eff_charging=0.9, eff_discharging=0.8)
    supercapacitor = SuperCapacitor(
        "supercapacitor", 500, Power_kW(200), soc0=0.4, eff_charging=0.95, eff_discharging=0.9
    )
    return [
        battery,
        BatterySystem(
            "battery system",
            Battery("b", 1000, 1, 1, soc0=0.5, eff_charging=0.9, eff_discharging=0.8),
            converter("c1"),
            SwbId(1),
        ),
        supercapacitor,
        SuperCapacitorSystem(
            "supercapacitor system",
            SuperCapacitor(
                "s", 500, Power_kW(200), soc0=0.4, eff_charging=0.95, eff_discharging=0.9
            ),
            converter("c2"),
            SwbId(1),
        ),
    ]


violated = False


def check(label, unit):
    """total and accumulated series for whatever terminal power the unit holds"""
    global violated
    total = unit.get_soc(time_interval_s, METHOD)
    energy_total = unit.get_energy_stored_kj(time_interval_s, METHOD)
    try:
        series = unit.get_soc(time_interval_s, METHOD, accumulated_time_series=True)
        energy_series = unit.get_energy_stored_kj(
            time_interval_s, METHOD, accumulated_time_series=True
        )
    except Exception as error:  # noqa
        print(f"{label:45s} total: {energy_total:10.3f} kJ, SoC {total:.6f};  accumulated "
              f"series REFUSED: {type(error).__name__}: {error}")
        violated = True
        return
    ok = np.isclose(series[-1], total, rtol=1e-12) and np.isclose(
        energy_series[-1], energy_total, rtol=1e-12
    )
    print(f"{label:45s} total: {energy_total:10.3f} kJ, SoC {total:.6f};  accumulated "
          f"last value {energy_series[-1]:10.3f} kJ, SoC {series[-1]:.6f}  "
          f"{'ok' if ok else 'DIFFERENT'}")
    violated |= not ok


print("A. the unit on its own, constant terminal power, three intervals of 10, 20, 30 s")
for constant in (np.array([100.0]), np.array([-100.0]), 100.0):
    for unit in units():
        unit.power_input = constant
        check(f"{unit.name}, power_input = {constant!r}", unit)
    # for reference: the same constant written out as a series is accepted
    for unit in units():
        unit.power_input = np.full(3, float(np.atleast_1d(constant)[0]))
        check(f"  (reference) {unit.name}, written out", unit)

print()
print("B. the same after the power balance of a plant whose inputs are all constants")
engine = Engine(
    type_=TypeComponent.AUXILIARY_ENGINE,
    name="engine",
    rated_power=Power_kW(1000),
    rated_speed=Speed_rpm(1500),
    bsfc_curve=np.array([[0.25, 0.5, 0.75, 1.0], [210.0, 195.0, 190.0, 194.0]]).T,
)
generator = ElectricMachine(
    type_=TypeComponent.GENERATOR,
    name="generator",
    rated_power=Power_kW(950),
    rated_speed=Speed_rpm(1500),
    power_type=TypePower.POWER_SOURCE,
    switchboard_id=SwbId(1),
    eff_curve=np.array([0.95]),
)
genset = Genset("genset", engine, generator)
load = ElectricComponent(
    type_=TypeComponent.OTHER_LOAD,
    name="hotel load",
    rated_power=Power_kW(1000),
    power_type=TypePower.POWER_CONSUMER,
    switchboard_id=SwbId(1),
)
battery = Battery(
    "battery", 1000, 1, 1, soc0=0.5, eff_charging=0.9, eff_discharging=0.8,
    switchboard_id=SwbId(1),
)
plant = ElectricPowerSystem("plant", [genset, load, battery], [])
load.set_power_input_from_output(np.array([500.0]))  # constant hotel load
genset.status = np.ones(1, dtype=bool)
battery.status = np.ones(1, dtype=bool)
battery.load_sharing_mode = np.ones(1)  # given power
battery.set_power_output_from_input(np.array([-200.0]))  # constant discharge at the terminal
plant.set_time_interval(time_interval_s, METHOD)
plant.do_power_balance_calculation()
result = plant.get_fuel_energy_consumption_running_time()
print(f"plant result: duration {result.duration_s} s, energy stored "
      f"{result.energy_stored_total_mj * 1000:.3f} kJ "
      f"(= -200 kW / 0.8 * 60 s = {-200 / 0.8 * 60:.3f} kJ)")
check("battery of the plant", battery)

if violated:
    print("VIOLATED: for a constant held as a single value the total is integrated over all "
          "the intervals, the accumulated series of the same quantity is refused.")
    sys.exit(1)
print("property holds")
sys.exit(0)
