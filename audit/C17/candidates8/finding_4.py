"""C17 finding 4: a storage system keeps TWO copies of the parameters of its store (its own
attributes, copied at construction, and those of the battery / supercapacitor object it wraps)
and reads some from one copy and some from the other.  get_soc takes the initial state and the
capacity from the system's copy but the efficiencies from the wrapped store; the protobuf
writer takes everything from the wrapped store.  So a new initial state (e.g. the final state
of the previous leg, for a second calculation on the same objects) given to either object is
wrong in one of the two public paths, and an efficiency given to the system object is ignored.

Run: PYTHONPATH=<wt>/feems:<wt>/machinery-system-structure:<wt>/RunFEEMSSim python finding_4.py
Exit status 1 = property violated (current code), 0 = property holds.
"""
import logging
import sys

import numpy as np

logging.disable(logging.CRITICAL)

from MachSysS.convert_to_feems import convert_proto_propulsion_system_to_feems
from MachSysS.convert_to_protobuf import convert_electric_system_to_protobuf_machinery_system
from feems.components_model.component_electric import (
    Battery,
    BatterySystem,
    ElectricComponent,
    SuperCapacitor,
    SuperCapacitorSystem,
)
from feems.components_model.utility import IntegrationMethod
from feems.system_model import ElectricPowerSystem
from feems.types_for_feems import Power_kW, SwbId, TypeComponent, TypePower

METHOD = IntegrationMethod.sum_with_time
ETA_CONV = 0.95
terminal_power = np.array([400.0, -300.0, 0.0, 250.0, -500.0])
time_interval_s = np.array([60.0, 30.0, 10.0, 45.0, 20.0])


def converter(name):
    return ElectricComponent(
        type_=TypeComponent.POWER_CONVERTER,
        name=name,
        rated_power=Power_kW(1000),
        eff_curve=np.array([ETA_CONV]),
        power_type=TypePower.POWER_TRANSMISSION,
        switchboard_id=SwbId(1),
    )


def demanded_soc(soc0, capacity_kj, eta_ch, eta_dis):
    power_into_store = np.where(
        terminal_power > 0,
        terminal_power * ETA_CONV * eta_ch,
        terminal_power / ETA_CONV / eta_dis,
    )
    return soc0 + float(np.dot(power_into_store, time_interval_s)) / capacity_kj


def build(kind):
    if kind == "battery":
        store = Battery("store", 1000, 1, 1, soc0=0.5, eff_charging=0.9, eff_discharging=0.8)
        return store, BatterySystem("system", store, converter("c"), SwbId(1)), 1000 * 3600.0
    store = SuperCapacitor(
        "store", 50000, Power_kW(1000), soc0=0.5, eff_charging=0.9, eff_discharging=0.8
    )
    return store, SuperCapacitorSystem("system", store, converter("c"), SwbId(1)), 50000 * 3.6


def soc_after_protobuf(system):
    plant = ElectricPowerSystem("plant", [system], [])
    twin = convert_proto_propulsion_system_to_feems(
        convert_electric_system_to_protobuf_machinery_system(plant)
    ).energy_storage[0]
    twin.power_input = terminal_power
    return twin.get_soc(time_interval_s, METHOD)


violated = False


def report(label, got, demanded):
    global violated
    ok = np.isclose(got, demanded, rtol=0, atol=1e-9)
    violated |= not ok
    print(f"    {label:58s} {got:.6f}  demanded {demanded:.6f}  {'ok' if ok else 'WRONG'}")


for kind in ("battery", "supercapacitor"):
    print(f"{kind} behind a converter")

    print("  a. second leg: the new initial state 0.30 is given to the store the user built")
    store, system, capacity_kj = build(kind)
    system.power_input = terminal_power
    store.soc0 = 0.30
    demanded = demanded_soc(0.30, capacity_kj, 0.9, 0.8)
    report("system.get_soc", system.get_soc(time_interval_s, METHOD), demanded)
    report("the same plant written to and read from protobuf", soc_after_protobuf(system), demanded)

    print("  b. second leg: the new initial state 0.30 is given to the system object")
    store, system, capacity_kj = build(kind)
    system.power_input = terminal_power
    system.soc0 = 0.30
    report("system.get_soc", system.get_soc(time_interval_s, METHOD), demanded)
    report("the same plant written to and read from protobuf", soc_after_protobuf(system), demanded)

    print("  c. an aged store: charging efficiency 0.70 given to the system object")
    store, system, capacity_kj = build(kind)
    system.power_input = terminal_power
    system.eff_charging = 0.70
    demanded = demanded_soc(0.5, capacity_kj, 0.70, 0.8)
    report("system.get_soc", system.get_soc(time_interval_s, METHOD), demanded)

    print("  d. the same efficiency given to the wrapped store is used (for comparison)")
    store, system, capacity_kj = build(kind)
    system.power_input = terminal_power
    store.eff_charging = 0.70
    report("system.get_soc", system.get_soc(time_interval_s, METHOD), demanded)

if violated:
    print("VIOLATED: initial state / capacity are read from the system's copy, efficiencies "
          "from the wrapped store, protobuf from the wrapped store only.")
    sys.exit(1)
print("property holds")
sys.exit(0)
