"""C17 finding 3: a store behind TWO conversion stages, built as a storage system whose store
is itself a storage system (BatterySystem / SuperCapacitorSystem are Battery / SuperCapacitor
subclasses, so the constructors take them), is calculated correctly by FEEMS, but the protobuf
writer exports the inner system as a bare battery / supercapacitor: the inner converter is
dropped without a word and the plant read back credits another energy to the store.

Run: PYTHONPATH=<wt>/feems:<wt>/machinery-system-structure:<wt>/RunFEEMSSim python finding_3.py
Exit status 1 = property violated (current code), 0 = property holds.
"""
import logging
import sys

import numpy as np

logging.disable(logging.CRITICAL)

from MachSysS.convert_to_feems import convert_proto_propulsion_system_to_feems
from MachSysS.convert_to_protobuf import convert_electric_system_to_protobuf_machinery_system
from feems.components_model.component_electric import (
    Battery,
    BatterySystem,
    ElectricComponent,
    SuperCapacitor,
    SuperCapacitorSystem,
)
from feems.components_model.utility import IntegrationMethod
from feems.system_model import ElectricPowerSystem
from feems.types_for_feems import Power_kW, SwbId, TypeComponent, TypePower

ETA_DCDC, ETA_TRAFO, ETA_CH, ETA_DIS = 0.95, 0.90, 0.9, 0.8


def stage(name, eta, type_):
    return ElectricComponent(
        type_=type_,
        name=name,
        rated_power=Power_kW(1000),
        eff_curve=np.array([eta]),
        power_type=TypePower.POWER_TRANSMISSION,
        switchboard_id=SwbId(1),
    )


battery = Battery("cells", 1000, 1, 1, soc0=0.5, eff_charging=ETA_CH, eff_discharging=ETA_DIS)
battery_with_dcdc = BatterySystem(
    "cells + dc/dc", battery, stage("dc/dc", ETA_DCDC, TypeComponent.POWER_CONVERTER), SwbId(1)
)
battery_plant = BatterySystem(
    "battery plant",
    battery_with_dcdc,
    stage("transformer", ETA_TRAFO, TypeComponent.TRANSFORMER),
    SwbId(1),
)
capacitor = SuperCapacitor(
    "capacitor", 50000, Power_kW(1000), soc0=0.5, eff_charging=ETA_CH, eff_discharging=ETA_DIS
)
capacitor_with_dcdc = SuperCapacitorSystem(
    "capacitor + dc/dc",
    capacitor,
    stage("dc/dc 2", ETA_DCDC, TypeComponent.POWER_CONVERTER),
    SwbId(1),
)
capacitor_plant = SuperCapacitorSystem(
    "capacitor plant",
    capacitor_with_dcdc,
    stage("transformer 2", ETA_TRAFO, TypeComponent.TRANSFORMER),
    SwbId(1),
)
plant = ElectricPowerSystem("plant", [battery_plant, capacitor_plant], [])

terminal_power = np.array([400.0, -300.0, 0.0, 250.0, -500.0])
time_interval_s = np.array([60.0, 30.0, 10.0, 45.0, 20.0])
eta_train = ETA_DCDC * ETA_TRAFO
expected_kj = float(
    np.dot(
        np.where(
            terminal_power > 0,
            terminal_power * eta_train * ETA_CH,
            terminal_power / eta_train / ETA_DIS,
        ),
        time_interval_s,
    )
)

plant_read_back = convert_proto_propulsion_system_to_feems(
    convert_electric_system_to_protobuf_machinery_system(plant)
)

violated = False
for unit in plant.energy_storage:
    twin = next(c for c in plant_read_back.energy_storage if c.name == unit.name)
    unit.power_input = terminal_power
    twin.power_input = terminal_power
    before = unit.get_energy_stored_kj(time_interval_s, IntegrationMethod.sum_with_time)
    after = twin.get_energy_stored_kj(time_interval_s, IntegrationMethod.sum_with_time)
    inner = twin.battery if hasattr(twin, "battery") else twin.supercapacitor
    print(f"{unit.name}: demanded {expected_kj:.3f} kJ; as built {before:.3f} kJ; "
          f"after protobuf {after:.3f} kJ (store read back as {type(inner).__name__}, "
          f"converter {twin.converter.name!r})")
    if not np.isclose(before, expected_kj, rtol=1e-6) or not np.isclose(
        after, expected_kj, rtol=1e-6
    ):
        violated = True

if violated:
    print("VIOLATED: the inner conversion stage is lost on the way through protobuf; the "
          "energy credited to the store is no longer 'after converter loss'.")
    sys.exit(1)
print("property holds")
sys.exit(0)
