"""C17 finding 2: a battery / supercapacitor system described in protobuf with a transformer
(or a second converter) between the switchboard and the store is read with converter1 only.
The loss of the other stages is silently dropped, so the energy credited to the store and the
state of charge are not 'after converter loss' of the plant that was described.

Run: PYTHONPATH=<wt>/feems:<wt>/machinery-system-structure:<wt>/RunFEEMSSim python finding_2.py
Exit status 1 = property violated (current code), 0 = property holds.
"""
import logging
import sys

import numpy as np

logging.disable(logging.CRITICAL)

import MachSysS.system_structure_pb2 as proto
from MachSysS.convert_to_feems import (
    convert_proto_battery_system_to_feems,
    convert_proto_supercapacitor_system_to_feems,
    convert_proto_propulsion_system_to_feems,
)
from feems.components_model.utility import IntegrationMethod

ETA_TRAFO, ETA_CONV1, ETA_CONV2 = 0.90, 0.95, 0.97
ETA_CH, ETA_DIS = 0.9, 0.8
SOC0 = 0.5


def stage(name, eta, order):
    return proto.ElectricComponent(
        name=name,
        rated_power_kw=1000,
        efficiency=proto.Efficiency(value=eta),
        order_from_switchboard_or_shaftline=order,
        uid=f"uid-of-{name}-0123456789",
    )


def battery_subsystem():
    return proto.Subsystem(
        name="battery system",
        power_type=proto.Subsystem.PowerType.ENERGY_STORAGE,
        component_type=proto.Subsystem.ComponentType.BATTERY_SYSTEM,
        rated_power_kw=1000,
        transformer=stage("transformer", ETA_TRAFO, 1),
        converter1=stage("converter 1", ETA_CONV1, 2),
        converter2=stage("converter 2", ETA_CONV2, 3),
        battery=proto.Battery(
            name="battery",
            energy_capacity_kwh=1000,
            rated_charging_rate_c=1,
            rated_discharging_rate_c=1,
            efficiency_charging=ETA_CH,
            efficiency_discharging=ETA_DIS,
            initial_state_of_charge=SOC0,
            order_from_switchboard_or_shaftline=4,
            uid="uid-of-battery-0123456789",
        ),
        uid="uid-of-battery-system-0123456789",
    )


def supercapacitor_subsystem():
    return proto.Subsystem(
        name="supercapacitor system",
        power_type=proto.Subsystem.PowerType.ENERGY_STORAGE,
        component_type=proto.Subsystem.ComponentType.SUPERCAPACITOR_SYSTEM,
        rated_power_kw=1000,
        transformer=stage("transformer", ETA_TRAFO, 1),
        converter1=stage("converter 1", ETA_CONV1, 2),
        converter2=stage("converter 2", ETA_CONV2, 3),
        supercapacitor=proto.SuperCapacitor(
            name="supercapacitor",
            energy_capacity_wh=50000,
            rated_power_kw=1000,
            efficiency_charging=ETA_CH,
            efficiency_discharging=ETA_DIS,
            initial_state_of_charge=SOC0,
            order_from_switchboard_or_shaftline=4,
            uid="uid-of-supercapacitor-0123456789",
        ),
        uid="uid-of-supercapacitor-system-0123456789",
    )


# Terminal power (kW, + charging / - discharging) and the interval vector (s)
terminal_power = np.array([400.0, -300.0, 0.0, 250.0, -500.0])
time_interval_s = np.array([60.0, 30.0, 10.0, 45.0, 20.0])
eta_train = ETA_TRAFO * ETA_CONV1 * ETA_CONV2
power_into_store = np.where(
    terminal_power > 0,
    terminal_power * eta_train * ETA_CH,
    terminal_power / eta_train / ETA_DIS,
)
expected_kj = float(np.dot(power_into_store, time_interval_s))

violated = False

# 1. the two public reader functions
for label, subsystem, convert, capacity_kj in [
    ("battery system", battery_subsystem(), convert_proto_battery_system_to_feems, 1000 * 3600),
    (
        "supercapacitor system",
        supercapacitor_subsystem(),
        convert_proto_supercapacitor_system_to_feems,
        50000 * 3.6,
    ),
]:
    component = convert(subsystem, switchboard_id=1)
    component.power_input = terminal_power
    got_kj = component.get_energy_stored_kj(time_interval_s, IntegrationMethod.sum_with_time)
    got_soc = component.get_soc(time_interval_s, IntegrationMethod.sum_with_time)
    expected_soc = SOC0 + expected_kj / capacity_kj
    print(f"{label}: stages kept by the reader: converter = "
          f"{getattr(component.converter, 'name', None)!r} only")
    print(f"  energy credited to the store  {got_kj:12.3f} kJ, "
          f"demanded (all three stages) {expected_kj:12.3f} kJ")
    print(f"  state of charge at the end    {got_soc:12.6f}   , demanded {expected_soc:12.6f}")
    if not np.isclose(got_kj, expected_kj, rtol=1e-3):
        violated = True

# 2. the same through the whole-plant reader
system_proto = proto.MachinerySystem(
    name="plant",
    propulsion_type=proto.MachinerySystem.PropulsionType.ELECTRIC,
    electric_system=proto.ElectricSystem(
        switchboards=[proto.Switchboard(switchboard_id=1, subsystems=[battery_subsystem()])]
    ),
)
plant = convert_proto_propulsion_system_to_feems(system_proto)
storage = plant.energy_storage[0]
storage.power_input = terminal_power
got_kj = storage.get_energy_stored_kj(time_interval_s, IntegrationMethod.sum_with_time)
print(f"whole plant reader: {got_kj:.3f} kJ credited, demanded {expected_kj:.3f} kJ")
if not np.isclose(got_kj, expected_kj, rtol=1e-3):
    violated = True

if violated:
    print("VIOLATED: the transformer and the second converter of the described storage system "
          "are dropped without a word; the store is credited as if they were loss-free.")
    sys.exit(1)
print("property holds")
sys.exit(0)
