"""C17 finding 3 (borderline, see findings.md): the accumulated series of the stored energy / state
of charge cannot be had for a series with a constant time step.

Clause: "the last value of the accumulated series equals the integrated total".

get_soc / get_energy_stored_kj document integration_method as "'simpson' or 'trapezoid'. 'simpson'
is default value" and accumulated_time_series=True as "returns accumulated time-series". For these
two methods (which take the scalar step) the total is returned but the accumulated series raises
TypeError("The given method ... is not valid"); for sum_with_time with the same scalar step and
more than one sample both are refused. The only way to the series is to expand the step into a
vector by hand.

Exit status 1: property violated (series refused although the total is given), 0: holds.
"""

import logging
import sys

import numpy as np

logging.disable(logging.CRITICAL)

from feems.components_model.component_electric import (  # noqa: E402
    Battery,
    BatterySystem,
    ElectricComponent,
    SuperCapacitor,
    SuperCapacitorSystem,
)
from feems.components_model.utility import IntegrationMethod  # noqa: E402
from feems.types_for_feems import TypeComponent, TypePower  # noqa: E402


def converter(name):
    return ElectricComponent(
        type_=TypeComponent.POWER_CONVERTER, name=name, rated_power=1000.0,
        eff_curve=np.array([0.97]), power_type=TypePower.POWER_TRANSMISSION, switchboard_id=1,
    )


battery = Battery("battery", 1000.0, 1, 1, soc0=0.5, eff_charging=0.9, eff_discharging=0.8)
supercap = SuperCapacitor("supercap", 50000.0, 1000.0, soc0=0.5, eff_charging=0.9, eff_discharging=0.8)
stores = [
    battery,
    BatterySystem("battery system", battery, converter("c1"), 1),
    supercap,
    SuperCapacitorSystem("supercap system", supercap, converter("c2"), 1),
]
p_terminal = np.array([100.0, 150.0, 50.0, -50.0, -200.0, -100.0, 0.0])
step_s = 10.0

violated = False
for store in stores:
    store.power_input = p_terminal
    for method in (IntegrationMethod.simpson, IntegrationMethod.trapezoid, IntegrationMethod.sum_with_time):
        try:
            total = store.get_soc(step_s, method)
        except Exception as exc:  # noqa: BLE001
            total = f"refused ({type(exc).__name__})"
        try:
            series = store.get_soc(step_s, method, accumulated_time_series=True)
            last = series[-1]
        except Exception as exc:  # noqa: BLE001
            last = f"refused ({type(exc).__name__}: {exc})"
        ok = (
            not isinstance(total, str) and not isinstance(last, str) and np.isclose(total, last)
        ) or (isinstance(total, str) and isinstance(last, str))
        if not ok:
            violated = True
        print(f"{store.name:16s} {method.name:14s} end SoC = {total};  last of SoC series = {last}")

# what works: the step expanded to a vector
series = battery.get_soc(np.full(len(p_terminal), step_s), IntegrationMethod.sum_with_time, True)
print("battery, step expanded to a vector, sum_with_time:", series)

if violated:
    print("\nVIOLATED: the total is returned but the accumulated series is refused, so its last "
          "value cannot equal the total")
    sys.exit(1)
print("\nproperty holds")
sys.exit(0)
