"""C17 finding 1: a store behind a converter is credited too much energy while it is charged at a
small load (below about 1.5 % of the converter rating), although that load lies INSIDE the range of
the converter's own efficiency-curve points.

Clause: "the energy credited to the store is the time integral of terminal power times the
charging efficiency while charging ... (after converter loss)" and "the state of charge is the
initial value plus that energy over the capacity".

The reference for the power behind the converter is the solution x of
        x / eta_converter(x / rated) = P_terminal
with eta_converter taken from the component's own public get_efficiency_from_load_percentage; the
same relation is checked a second way, without any root solver, by feeding the power that FEEMS
puts behind the converter back through the converter's own forward function
get_power_input_from_bidirectional_output (it must give the terminal power back).

Exit status 1: property violated (relative error above 0.5 %), 0: holds.
"""

import logging
import sys

import numpy as np
from scipy.optimize import brentq

logging.disable(logging.CRITICAL)

from feems.components_model.component_electric import (  # noqa: E402
    Battery,
    BatterySystem,
    ElectricComponent,
    SuperCapacitor,
    SuperCapacitorSystem,
)
from feems.components_model.utility import IntegrationMethod  # noqa: E402
from feems.types_for_feems import TypeComponent, TypePower  # noqa: E402

TOL = 0.005  # 0.5 %

# Converter: 1000 kW, efficiency points from no load to full load (load axis as a ratio 0..1)
CURVE = np.array(
    [[0.0, 0.50], [0.10, 0.90], [0.25, 0.95], [0.50, 0.97], [0.75, 0.975], [1.0, 0.97]]
)
RATED_KW = 1000.0
EFF_CH, EFF_DIS = 0.9, 0.8


def converter(name):
    return ElectricComponent(
        type_=TypeComponent.POWER_CONVERTER,
        name=name,
        rated_power=RATED_KW,
        eff_curve=CURVE,
        power_type=TypePower.POWER_TRANSMISSION,
        switchboard_id=1,
    )


def power_behind_converter(conv, p_terminal):
    """Reference: power on the store side of the converter for one terminal power value."""
    if p_terminal <= 0:  # discharging: the terminal is the output side of the converter
        return p_terminal / conv.get_efficiency_from_load_percentage(
            abs(p_terminal) / conv.rated_power
        )
    f = (
        lambda x: x / conv.get_efficiency_from_load_percentage(x / conv.rated_power) - p_terminal
    )
    return brentq(f, 0.0, p_terminal, xtol=1e-14, rtol=1e-14)


# Terminal power [kW]: trickle charge at 0.05 % .. 1.2 % of the converter rating, then a discharge.
# All loads lie between the first (0) and the last (1) load point of the curve.
p_terminal = np.array([0.5, 1.0, 2.0, 5.0, 8.0, 12.0, 0.0, -5.0, -8.0])
dt = np.array([600.0, 900.0, 300.0, 1200.0, 600.0, 300.0, 60.0, 600.0, 450.0])

battery = Battery("battery", 10.0, 100, 100, soc0=0.4, eff_charging=EFF_CH, eff_discharging=EFF_DIS)
supercap = SuperCapacitor(
    "supercap", 20000.0, RATED_KW, soc0=0.4, eff_charging=EFF_CH, eff_discharging=EFF_DIS
)
stores = [
    (BatterySystem("battery system", battery, converter("conv 1"), 1), 10.0 * 3600.0),
    (SuperCapacitorSystem("supercap system", supercap, converter("conv 2"), 1), 20000.0 * 3.6),
]

violated = False
for store, capacity_kj in stores:
    conv = store.converter
    behind = np.array([power_behind_converter(conv, p) for p in p_terminal])
    to_store_ref = np.where(behind > 0, behind * EFF_CH, behind / EFF_DIS)
    series_ref = np.concatenate([[0.0], np.cumsum(to_store_ref * dt)])
    charged_ref = np.sum((to_store_ref * dt)[p_terminal > 0])

    store.power_input = p_terminal
    total = store.get_energy_stored_kj(dt, IntegrationMethod.sum_with_time)
    series = store.get_energy_stored_kj(dt, IntegrationMethod.sum_with_time, True)
    soc = store.get_soc(dt, IntegrationMethod.sum_with_time, True)
    to_store, _ = store.get_power_output_from_bidirectional_input(p_terminal)
    charged = np.sum((to_store * dt)[p_terminal > 0])

    print(f"== {store.name}")
    print("terminal power [kW]          :", p_terminal)
    print("to the store, FEEMS [kW]     :", np.round(to_store, 4))
    print("to the store, reference [kW] :", np.round(to_store_ref, 4))
    with np.errstate(invalid="ignore", divide="ignore"):
        rel = np.where(to_store_ref != 0, (to_store - to_store_ref) / to_store_ref, 0.0)
    print("relative error per sample    :", np.round(rel, 4))

    # second check without root solver: the converter's own forward function must give the
    # terminal power back from the power FEEMS puts behind it
    behind_feems = np.where(to_store > 0, to_store / EFF_CH, to_store * EFF_DIS)
    back, _ = conv.get_power_input_from_bidirectional_output(behind_feems[p_terminal > 0])
    print("terminal power needed for it :", np.round(back, 4), "(given:", p_terminal[p_terminal > 0], ")")

    err_charged = (charged - charged_ref) / charged_ref
    print(f"energy credited while charging: FEEMS {charged:.3f} kJ, reference {charged_ref:.3f} kJ "
          f"-> {100 * err_charged:+.2f} %")
    print(f"total: FEEMS {total:.3f} kJ, reference {series_ref[-1]:.3f} kJ; last of series {series[-1]:.3f}")
    soc_ref = 0.4 + series_ref / capacity_kj
    print(f"state of charge at the end: FEEMS {soc[-1]:.6f}, reference {soc_ref[-1]:.6f}; "
          f"highest: FEEMS {soc.max():.6f}, reference {soc_ref.max():.6f}")
    dsoc_err = (soc.max() - 0.4) / (soc_ref.max() - 0.4) - 1
    print(f"rise of the state of charge over the charging phase is off by {100 * dsoc_err:+.2f} %")

    # the exact (iterative) conversion, which get_energy_stored_kj does not use, agrees
    strict, _ = store.get_power_output_from_bidirectional_input(p_terminal, strict_power_balance=True)
    print("with strict_power_balance=True the largest relative error is",
          f"{np.max(np.abs(strict - to_store_ref) / np.maximum(np.abs(to_store_ref), 1e-12)):.2e}")

    if abs(err_charged) > TOL or abs(dsoc_err) > TOL or np.max(np.abs(rel)) > TOL:
        violated = True

if violated:
    print("\nVIOLATED: energy credited to the store while charging at low converter load differs "
          "from terminal power x converter efficiency x charging efficiency by more than 0.5 %")
    sys.exit(1)
print("\nproperty holds")
sys.exit(0)
