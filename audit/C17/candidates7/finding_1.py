"""C17 finding 1: Switchboard.set_power_load_component_from_power_input_by_type_and_name
takes the given terminal power (power_input) for the power at the other end (power_output).

For a battery / battery system / supercapacitor the terminal power that is stored on the
component is then P / eff_charging (charging) or P * eff_discharging (discharging) instead of P,
and the energy credited to the store is integral(P) instead of integral(P * eff_charging) resp.
integral(P / eff_discharging).

exit status 1 = property violated (current code), 0 = property holds
"""
import logging
import sys

import numpy as np

logging.disable(logging.CRITICAL)

from feems.components_model.component_electric import (
    Battery,
    BatterySystem,
    ElectricComponent,
    SuperCapacitor,
)
from feems.components_model.node import Switchboard
from feems.components_model.utility import IntegrationMethod
from feems.types_for_feems import TypeComponent, TypePower

EFF_C, EFF_D, EFF_CONV = 0.9, 0.8, 0.95
P_TERMINAL = np.array([100.0, -100.0, 50.0, 0.0])  # kW at the terminal, + = charging
DT = np.array([10.0, 10.0, 10.0, 10.0])  # s


def expected_stored_kj(eff_conv):
    stored_kw = np.where(
        P_TERMINAL > 0, P_TERMINAL * eff_conv * EFF_C, P_TERMINAL / eff_conv / EFF_D
    )
    return float(np.dot(stored_kw, DT))


battery = Battery("battery", 500, 1, 1, soc0=0.5, eff_charging=EFF_C, eff_discharging=EFF_D,
                  switchboard_id=1)
converter = ElectricComponent(
    TypeComponent.POWER_CONVERTER, "converter", 400, np.array([EFF_CONV])
)
battery_system = BatterySystem(
    "battery system",
    Battery("cells", 500, 1, 1, soc0=0.5, eff_charging=EFF_C, eff_discharging=EFF_D),
    converter,
    switchboard_id=1,
)
supercap = SuperCapacitor("supercap", 5000, 300, soc0=0.5, eff_charging=EFF_C,
                          eff_discharging=EFF_D, switchboard_id=1)
switchboard = Switchboard("swb 1", 1, [battery, battery_system, supercap])

violated = False
for component, eff_conv, capacity_kj in [
    (battery, 1.0, 500 * 3600.0),
    (battery_system, EFF_CONV, 500 * 3600.0),
    (supercap, 1.0, 5000 * 3.6),
]:
    ok = switchboard.set_power_load_component_from_power_input_by_type_and_name(
        name=component.name, power_type=TypePower.ENERGY_STORAGE, power_input=P_TERMINAL.copy()
    )
    assert ok == 1
    energy = component.get_energy_stored_kj(DT, IntegrationMethod.sum_with_time)
    soc = component.get_soc(DT, IntegrationMethod.sum_with_time)
    exp_energy = expected_stored_kj(eff_conv)
    exp_soc = 0.5 + exp_energy / capacity_kj
    print(f"{component.name}:")
    print(f"  terminal power given as power_input : {P_TERMINAL}")
    print(f"  component.power_input afterwards    : {np.asarray(component.power_input)}")
    print(f"  energy stored [kJ] code / property  : {energy:.4f} / {exp_energy:.4f}")
    print(f"  SoC code / property                 : {soc:.8f} / {exp_soc:.8f}")
    if not (
        np.allclose(component.power_input, P_TERMINAL)
        and np.isclose(energy, exp_energy, rtol=1e-9, atol=1e-9)
        and np.isclose(soc, exp_soc, rtol=1e-9, atol=1e-12)
    ):
        violated = True

if violated:
    print("VIOLATED: the power given as terminal power (power_input) is stored as power_output;"
          " energy credited is integral(P), not integral(P*eff_c) / integral(P/eff_d)")
    sys.exit(1)
print("property holds")
sys.exit(0)
