"""C17 finding 5 (borderline: needs an attribute assignment after construction): BatterySystem and
SuperCapacitorSystem hold every parameter of the store twice - on the system itself (copied in
the constructor: soc0, rated capacity, eff_charging, eff_discharging) and on system.battery /
system.supercapacitor - and use one copy for some clauses and the other copy for the others:

  * get_soc reads soc0 and the capacity of the SYSTEM, but the efficiencies of the inner STORE;
  * the protobuf export writes the inner STORE's soc0, capacity and efficiencies.

A second leg that starts from the state of charge the first leg ended with (or a sensitivity run
with another efficiency / capacity) therefore silently keeps the old value, depending on which of
the two public attributes is assigned:
    system.battery.soc0 = x        -> ignored by get_soc
    system.eff_charging = x        -> ignored by get_energy_stored_kj / get_soc
    system.soc0 = x                -> used by get_soc, but not exported to protobuf

exit status 1 = property violated (current code), 0 = property holds
"""
import logging
import sys

import numpy as np

logging.disable(logging.CRITICAL)

from feems.components_model.component_electric import (
    Battery,
    BatterySystem,
    ElectricComponent,
    SuperCapacitor,
    SuperCapacitorSystem,
)
from feems.components_model.utility import IntegrationMethod
from feems.types_for_feems import TypeComponent

P = np.array([50.0, -20.0])
DT = np.array([3600.0, 1800.0])
EFF_CONV = 0.95


def soc_by_property(soc0, capacity_kj, eff_c, eff_d):
    stored = np.where(P > 0, P * EFF_CONV * eff_c, P / EFF_CONV / eff_d)
    return soc0 + float(np.dot(stored, DT)) / capacity_kj


def make(kind):
    conv = ElectricComponent(TypeComponent.POWER_CONVERTER, "conv", 100, np.array([EFF_CONV]))
    if kind == "battery":
        return BatterySystem("bs", Battery("b", 100, 1, 1, 0.5, 0.9, 0.8), conv, 1), "battery", 3600.0
    return (SuperCapacitorSystem("ss", SuperCapacitor("s", 100000, 100, 0.5, 0.9, 0.8), conv, 1),
            "supercapacitor", 3.6)


violated = False
for kind in ("battery", "supercap"):
    # leg 1
    system, inner_name, kj_per_unit = make(kind)
    inner = getattr(system, inner_name)
    cap = system.rated_capacity * kj_per_unit
    system.set_power_output_from_input(P.copy())
    soc_end_leg_1 = system.get_soc(DT, IntegrationMethod.sum_with_time)
    assert np.isclose(soc_end_leg_1, soc_by_property(0.5, cap, 0.9, 0.8))

    # leg 2 starts where leg 1 ended: the store's initial state is set on the store
    inner.soc0 = soc_end_leg_1
    got = system.get_soc(DT, IntegrationMethod.sum_with_time)
    want = soc_by_property(soc_end_leg_1, cap, 0.9, 0.8)
    print(f"{system.name}: {inner_name}.soc0 = {soc_end_leg_1:.4f}: SoC after leg 2 {got:.6f},"
          f" property {want:.6f}  (system.soc0 is still {system.soc0})")
    violated |= not np.isclose(got, want)

    # another charging efficiency, set on the system (where get_soc takes soc0 from)
    system, inner_name, kj_per_unit = make(kind)
    system.eff_charging = 0.6
    system.set_power_output_from_input(P.copy())
    got = system.get_soc(DT, IntegrationMethod.sum_with_time)
    want = soc_by_property(0.5, cap, 0.6, 0.8)
    print(f"{system.name}: system.eff_charging = 0.6: SoC {got:.6f}, property {want:.6f}"
          f"  ({inner_name}.eff_charging is still {getattr(system, inner_name).eff_charging})")
    violated |= not np.isclose(got, want)

if violated:
    print("VIOLATED: the system and its store hold separate copies of soc0 / capacity / efficiencies"
          " and each clause reads a different copy")
    sys.exit(1)
print("property holds")
sys.exit(0)
