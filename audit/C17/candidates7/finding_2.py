"""C17 finding 2: the accumulated series of stored energy / SoC cannot be had for a one-step
load given as a number, although the integrated total of the very same input is returned.

Battery / SuperCapacitor (and the ...System classes) declare power as Union[float, np.ndarray]
in all their conversion methods, BasicComponent.set_power_output_from_input stores a float as
it is, and get_energy_stored_kj / get_soc answer for it with accumulated_time_series=False.
With accumulated_time_series=True the same call raises TypeError / AttributeError, so the
clause 'the last value of the accumulated series equals the integrated total' cannot be
evaluated (valid input wrongly refused). A BatterySystem with a converter turns a float that
charges into a 0-d array, which is refused in the same way.

exit status 1 = property violated (current code), 0 = property holds
"""
import logging
import sys

import numpy as np

logging.disable(logging.CRITICAL)

from feems.components_model.component_electric import (
    Battery,
    BatterySystem,
    ElectricComponent,
    SuperCapacitor,
)
from feems.components_model.utility import IntegrationMethod
from feems.types_for_feems import TypeComponent

EFF_C, EFF_D = 0.9, 0.8
battery = Battery("battery", 100, 1, 1, soc0=0.5, eff_charging=EFF_C, eff_discharging=EFF_D)
supercap = SuperCapacitor("supercap", 5000, 300, soc0=0.5, eff_charging=EFF_C,
                          eff_discharging=EFF_D)
battery_system = BatterySystem(
    "battery system",
    Battery("cells", 100, 1, 1, soc0=0.5, eff_charging=EFF_C, eff_discharging=EFF_D),
    ElectricComponent(TypeComponent.POWER_CONVERTER, "converter", 100, np.array([0.95])),
    switchboard_id=1,
)

violated = False
for component in (battery, supercap, battery_system):
    for power_kw in (10.0, -10.0):
        for dt in (60.0, np.array([60.0])):
            component.set_power_output_from_input(power_kw)  # terminal power, one step
            total = component.get_soc(dt, IntegrationMethod.sum_with_time)
            try:
                series = component.get_soc(
                    dt, IntegrationMethod.sum_with_time, accumulated_time_series=True
                )
                ok = np.isclose(np.asarray(series)[-1], total, rtol=1e-12, atol=1e-12)
                msg = f"accumulated {np.asarray(series)}"
            except Exception as exc:  # noqa
                ok = False
                msg = f"accumulated series REFUSED: {type(exc).__name__}: {exc}"
            print(f"{component.name:15s} P={power_kw:6.1f} kW dt={dt!r:15}: total SoC {total:.6f}; {msg}")
            violated |= not ok

# the same one-step load as a one-element array is accepted (for reference)
battery.set_power_output_from_input(np.array([10.0]))
print("reference, P=np.array([10.0]):",
      battery.get_soc(60.0, IntegrationMethod.sum_with_time, accumulated_time_series=True))

if violated:
    print("VIOLATED: total is returned but the accumulated series is refused for the same input")
    sys.exit(1)
print("property holds")
sys.exit(0)
