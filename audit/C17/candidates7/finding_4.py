"""C17 finding 4: a converter efficiency below 1 % is silently replaced by 1 %.

The property ranges over 'efficiencies in (0,1]' and over converter curves. A battery's or
supercapacitor's own efficiency is used as given (0.005 is 0.005), but the converter's efficiency
goes through BasicComponent.get_efficiency_from_load_percentage, which clips to [0.01, 1]. A
battery system behind a converter of 0.5 % efficiency is therefore credited with twice the
energy when charging and debited half the energy when discharging.

exit status 1 = property violated (current code), 0 = property holds
"""
import logging
import sys

import numpy as np

logging.disable(logging.CRITICAL)

from feems.components_model.component_electric import (
    Battery,
    BatterySystem,
    ElectricComponent,
    SuperCapacitor,
    SuperCapacitorSystem,
)
from feems.components_model.utility import IntegrationMethod
from feems.types_for_feems import TypeComponent

EFF_C, EFF_D, EFF_CONV = 0.9, 0.8, 0.005
P = np.array([50.0, -0.2, 0.0, 80.0])  # kW at the terminal
DT = np.array([60.0, 60.0, 60.0, 30.0])


def converter():
    return ElectricComponent(
        TypeComponent.POWER_CONVERTER, "converter", 100, np.array([EFF_CONV])
    )


systems = [
    (BatterySystem("battery system",
                   Battery("cells", 100, 1, 1, 0.5, EFF_C, EFF_D), converter(), 1), 100 * 3600.0),
    (SuperCapacitorSystem("supercapacitor system",
                          SuperCapacitor("cap", 5000, 100, 0.5, EFF_C, EFF_D), converter(), 1),
     5000 * 3.6),
]
stored_kw = np.where(P > 0, P * EFF_CONV * EFF_C, P / EFF_CONV / EFF_D)
expected_kj = float(np.dot(stored_kw, DT))
violated = False
for system, capacity_kj in systems:
    system.set_power_output_from_input(P.copy())
    energy = system.get_energy_stored_kj(DT, IntegrationMethod.sum_with_time)
    series = system.get_energy_stored_kj(DT, IntegrationMethod.sum_with_time, True)
    soc = system.get_soc(DT, IntegrationMethod.sum_with_time)
    print(f"{system.name}: power into the store {np.asarray(system.power_output)}"
          f" (property: {stored_kw})")
    print(f"  energy stored [kJ] code / property: {energy:.4f} / {expected_kj:.4f};"
          f" last accumulated value {series[-1]:.4f}")
    print(f"  SoC code / property: {soc:.6f} / {0.5 + expected_kj / capacity_kj:.6f}")
    if not np.isclose(energy, expected_kj, rtol=1e-6):
        violated = True

# reference: the store's own efficiency of 0.5 % is used as given
b = Battery("b", 100, 1, 1, 0.5, 0.005, 0.005)
b.set_power_output_from_input(np.array([50.0, -0.2]))
print("reference, Battery with eff 0.005 of its own:", b.power_output, "(= 50*0.005, -0.2/0.005)")

if violated:
    print("VIOLATED: converter efficiency 0.005 in (0,1] is computed with as 0.01")
    sys.exit(1)
print("property holds")
sys.exit(0)
