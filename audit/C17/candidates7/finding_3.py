"""C17 finding 3 (borderline: it is the power balance that refuses, so the stored energy of a
legal plant cannot be had at all): an energy storage unit that keeps its default, single-value
load sharing mode (np.zeros(1) = 'shares the bus load') is refused for a load series, whereas a
genset that keeps the very same default is balanced ('a single value stands for the whole
series', repaired for power sources only). The same holds for a single value 1 (given power for
the whole series).

exit status 1 = property violated / valid input refused (current code), 0 = property holds
"""
import logging
import sys

import numpy as np

logging.disable(logging.CRITICAL)

from feems.components_model.component_electric import (
    Battery,
    ElectricComponent,
    ElectricMachine,
    Genset,
)
from feems.components_model.component_mechanical import Engine
from feems.components_model.utility import IntegrationMethod
from feems.system_model import ElectricPowerSystem
from feems.types_for_feems import NOxCalculationMethod, TypeComponent, TypePower

EFF_C, EFF_D = 0.9, 0.8
N = 3
generator = ElectricMachine(
    type_=TypeComponent.GENERATOR, name="generator", rated_power=1000, rated_speed=900,
    power_type=TypePower.POWER_SOURCE, switchboard_id=1, eff_curve=np.array([0.95]),
)
engine = Engine(
    type_=TypeComponent.AUXILIARY_ENGINE, name="engine", rated_power=1100, rated_speed=900,
    bsfc_curve=np.array([[0.25, 220.0], [0.5, 200.0], [0.75, 190.0], [1.0, 195.0]]),
    nox_calculation_method=NOxCalculationMethod.TIER_2,
)
genset = Genset("genset", engine, generator)
battery = Battery("battery", 500, 1, 1, soc0=0.5, eff_charging=EFF_C, eff_discharging=EFF_D,
                  switchboard_id=1)  # rated power 500 kW
consumer = ElectricComponent(
    TypeComponent.OTHER_LOAD, "hotel", 2000, np.array([1.0]), TypePower.POWER_CONSUMER,
    switchboard_id=1,
)
system = ElectricPowerSystem("plant", [genset, battery, consumer], [])
dt = np.array([10.0, 20.0, 30.0])
system.set_time_interval(dt, IntegrationMethod.sum_with_time)
load_kw = np.array([150.0, 600.0, 900.0])
consumer.power_input = load_kw
genset.status = np.ones(N, dtype=bool)   # sharing mode of the genset left at its default, too
battery.status = np.ones(N, dtype=bool)
print("battery.load_sharing_mode (default):", battery.load_sharing_mode)
print("genset.load_sharing_mode  (default):", genset.load_sharing_mode if hasattr(genset, "load_sharing_mode") else "n/a")

# property: both share the load by rating -> battery terminal power = -500 * load / 1500
terminal_kw = -500.0 * load_kw / 1500.0
expected_kj = float(np.dot(terminal_kw / EFF_D, dt))
expected_soc = 0.5 + expected_kj / (500 * 3600.0)
try:
    system.do_power_balance_calculation()
    result = system.get_fuel_energy_consumption_running_time()
    soc = battery.get_soc(dt, IntegrationMethod.sum_with_time)
    print("battery terminal power:", battery.power_input, "expected", terminal_kw)
    print("energy stored [MJ]:", result.energy_stored_total_mj, "expected", expected_kj / 1000)
    ok = np.isclose(result.energy_stored_total_mj, expected_kj / 1000) and np.isclose(soc, expected_soc)
except Exception as exc:  # noqa
    print(f"REFUSED: {type(exc).__name__}: {exc}")
    ok = False

# for reference: with the mode written out as a series the same plant is balanced
battery.load_sharing_mode = np.zeros(N)
system.do_power_balance_calculation()
print("reference with load_sharing_mode=np.zeros(3): energy stored [MJ] =",
      system.get_fuel_energy_consumption_running_time().energy_stored_total_mj,
      "(expected", expected_kj / 1000, ")")

if not ok:
    print("VIOLATED: a storage unit in its default (single-value) sharing mode is refused for a series")
    sys.exit(1)
print("property holds")
sys.exit(0)
