/-
Audit: for every theorem in namespace `Feems.Props.*` print the axioms it depends on.
Run with `lake env lean Audit.lean` after `lake build`.  One line per theorem:
`AXIOMS <property> <theorem> [axiom, …]`.
-/
import FeemsProofs
open Lean Elab Command

run_cmd do
  let env ← getEnv
  let mut names : Array Name := #[]
  for (n, ci) in env.constants.toList do
    let last := n.components.getLast!.toString
    let auto := last == "injEq" || last == "sizeOf_spec" || ((last.startsWith "eq_") && (last.drop 3).all Char.isDigit) || last.startsWith "match_"
      || last.startsWith "proof_" || last == "inj" || last == "noConfusion" || last.startsWith "_"
      || last == "ext" || last == "ext_iff" || last == "eq_def"
    if (`Feems.Props).isPrefixOf n && !n.isInternal && !auto then
      match ci with
      | .thmInfo _ => names := names.push n
      | _ => pure ()
  let sorted := names.qsort (fun a b => a.toString < b.toString)
  for n in sorted do
    let axs ← Lean.collectAxioms n
    let prop := (n.components.getD 2 `none).toString
    let axsS := (axs.qsort (fun a b => a.toString < b.toString)).toList.map (·.toString)
    logInfo m!"AXIOMS {prop} {n} {axsS}"
