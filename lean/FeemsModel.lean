import FeemsModel.Model.Basic
import FeemsModel.Model.KeyedList
import FeemsModel.Model.Fuel
import FeemsModel.Model.Result
import FeemsModel.Model.Integrate
import FeemsModel.Model.Storage
import FeemsModel.Model.Pms
import FeemsModel.Model.Bus
