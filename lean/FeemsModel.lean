import FeemsModel.Model.Basic
import FeemsModel.Model.Fuel
