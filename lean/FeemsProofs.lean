import FeemsProofs.Prelude
import FeemsProofs.Lemmas.FuelLemmas
import FeemsProofs.C18
