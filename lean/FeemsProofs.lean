import FeemsProofs.Prelude
import FeemsProofs.Lemmas.KVLemmas
import FeemsProofs.C18
import FeemsProofs.C19
import FeemsProofs.C17
import FeemsProofs.Lemmas.PmsLemmas
import FeemsProofs.C15
import FeemsProofs.C02
