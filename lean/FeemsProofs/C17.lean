/-
C17 — stored energy and state of charge follow terminal power and efficiencies.
-/
import FeemsProofs.Prelude
import FeemsModel.Model.Storage

set_option linter.unusedSimpArgs false
set_option linter.unusedVariables false

namespace Feems.Props.C17
open Feems Feems.Integrate Feems.Storage

/-! ### Helper facts about `dot`, `cumsum`, `accumulate` -/

theorem dot_nil_left (ys : List Rat) : dot [] ys = 0 := by cases ys <;> rfl
theorem dot_nil_right (xs : List Rat) : dot xs [] = 0 := by cases xs <;> rfl
@[simp] theorem dot_cons (x y : Rat) (xs ys : List Rat) : dot (x :: xs) (y :: ys) = x * y + dot xs ys := rfl

theorem dot_eq_rsum_zipWith (xs ys : List Rat) : dot xs ys = rsum (List.zipWith (· * ·) xs ys) := by
  induction xs generalizing ys with
  | nil => simp [dot_nil_left]
  | cons x xs ih => cases ys with
    | nil => simp [dot_nil_right]
    | cons y ys => simp [ih]

theorem cumsum_length (a : Rat) (xs : List Rat) : (cumsum a xs).length = xs.length := by
  induction xs generalizing a with
  | nil => rfl
  | cons x xs ih => simp [cumsum, ih]

theorem cumsum_getLast (a : Rat) (xs : List Rat) : (a :: cumsum a xs).getLast? = some (a + rsum xs) := by
  induction xs generalizing a with
  | nil => simp [cumsum]
  | cons x xs ih =>
    have := ih (a + x)
    simp only [cumsum, rsum_cons]
    rw [List.getLast?_cons_cons, this, add_assoc]

/-! ### The property -/

/-- The energy credited to the store is the interval-weighted sum of terminal power times the
charging efficiency while charging and divided by the discharging efficiency while
discharging, after converter loss. -/
theorem energy_formula (s : Store) (conv : Rat → Rat) (ps dts : List Rat) (h : dts.length = ps.length) :
    energy s conv ps (.series dts) =
      some (dot (ps.map fun p => if 0 < conv p then conv p * s.ηc else conv p / s.ηd) dts) := by
  unfold energy integrate storedPower
  simp [valid, h, TimeBase.expand, cell]

/-- One operating point with a scalar interval is a series of length one. -/
theorem energy_single (s : Store) (conv : Rat → Rat) (p dt : Rat) :
    energy s conv [p] (.scalar dt) = energy s conv [p] (.series [dt]) := by
  simp [energy, integrate, valid, TimeBase.expand, storedPower]

/-- State of charge = initial value + energy over capacity (kJ → kWh: /3600; kJ → Wh: /3.6). -/
theorem soc_formula (s : Store) (conv : Rat → Rat) (ps : List Rat) (tb : TimeBase) (e : Rat)
    (h : energy s conv ps tb = some e) :
    soc s conv ps tb = some (if s.supercap then s.soc0 + e / (36 / 10) / s.capacity
                              else s.soc0 + e / 3600 / s.capacity) := by
  unfold soc; rw [h]; simp only [Option.map, socOf]
  split <;> rw [add_comm]

/-- The accumulated series has one more entry than the input and starts at zero … -/
theorem acc_length (s : Store) (conv : Rat → Rat) (ps dts : List Rat) (h : dts.length = ps.length) :
    (energyAcc s conv ps dts).length = ps.length + 1 ∧ (energyAcc s conv ps dts).head? = some 0 := by
  unfold energyAcc accumulate storedPower
  simp [cumsum_length, h]

/-- … and its last value equals the integrated total. -/
theorem acc_last (s : Store) (conv : Rat → Rat) (ps dts : List Rat) (h : dts.length = ps.length) :
    (energyAcc s conv ps dts).getLast? = energy s conv ps (.series dts) := by
  unfold energyAcc accumulate energy integrate
  rw [cumsum_getLast, zero_add, ← dot_eq_rsum_zipWith]
  simp [valid, storedPower, h, TimeBase.expand]

theorem socAcc_last (s : Store) (conv : Rat → Rat) (ps dts : List Rat) (h : dts.length = ps.length) :
    (socAcc s conv ps dts).getLast? = soc s conv ps (.series dts) := by
  unfold socAcc soc
  rw [List.getLast?_map, acc_last s conv ps dts h]

/-! ### A constant terminal power held as a single value -/

theorem spread_length (ps : List Rat) (n : Nat) (h : ps.length = 1 ∨ n = ps.length) : (spread ps n).length = n := by
  unfold spread
  split
  · simp
  · rename_i hne
    rcases h with h | h
    · match ps, h with
      | [p], _ => exact absurd rfl (hne p)
    · exact h.symm

/-- Written as one value or written out, a constant gives the same total and the same accumulated series. -/
theorem constant_as_single_value (s : Store) (conv : Rat → Rat) (p : Rat) (dts : List Rat) :
    energyC s conv [p] (.series dts) = energyC s conv (List.replicate dts.length p) (.series dts) ∧
    energyAccC s conv [p] dts = energyAccC s conv (List.replicate dts.length p) dts := by
  have h : spread (List.replicate dts.length p) dts.length = List.replicate dts.length p := by
    unfold spread
    split
    · rename_i q hq; rw [hq]
      have : dts.length = 1 := by simpa using congrArg List.length hq
      simp [this] at hq ⊢
    · rfl
  simp only [energyC, energyAccC, h]
  simp [spread]

/-- The accumulated series of a constant (or a series of the intervals' length): one more entry than there are
intervals, starting at zero, ending at the total. -/
theorem accC_last (s : Store) (conv : Rat → Rat) (ps dts : List Rat) (h : ps.length = 1 ∨ dts.length = ps.length) :
    (energyAccC s conv ps dts).length = dts.length + 1 ∧ (energyAccC s conv ps dts).head? = some 0 ∧
    (energyAccC s conv ps dts).getLast? = energyC s conv ps (.series dts) ∧
    (socAccC s conv ps dts).getLast? = socC s conv ps (.series dts) := by
  have hl := spread_length ps dts.length h
  have h1 := acc_length s conv (spread ps dts.length) dts hl.symm
  have h2 := acc_last s conv (spread ps dts.length) dts hl.symm
  refine ⟨by rw [energyAccC, h1.1, hl], h1.2, h2, ?_⟩
  unfold socAccC socC
  rw [List.getLast?_map]
  exact congrArg _ h2

/-- The store is never credited more than the terminal power (efficiencies in (0,1]). -/
theorem cell_le (ηc ηd p : Rat) (hc0 : 0 < ηc) (hc : ηc ≤ 1) (hd0 : 0 < ηd) (hd : ηd ≤ 1) :
    cell ηc ηd p ≤ p := by
  unfold cell; split
  · nlinarith
  · rename_i h
    have hp : p ≤ 0 := not_lt.mp h
    rw [div_le_iff₀ hd0]; nlinarith

theorem dot_le_dot (xs ys dts : List Rat) (hlen : xs.length = ys.length)
    (h : ∀ i (hx : i < xs.length) (hy : i < ys.length), xs[i] ≤ ys[i]) (hd : ∀ d ∈ dts, 0 ≤ d) :
    dot xs dts ≤ dot ys dts := by
  induction xs generalizing ys dts with
  | nil => cases ys with
    | nil => exact le_refl _
    | cons y ys => cases hlen
  | cons x xs ih => cases ys with
    | nil => cases hlen
    | cons y ys => cases dts with
      | nil => simp [dot_nil_right]
      | cons d dts =>
        simp only [dot_cons]
        have h0 := h 0 (by simp) (by simp)
        have hd0 := hd d (by simp)
        have := ih ys dts (by simpa using hlen)
          (fun i hx hy => by have := h (i + 1) (by simpa using hx) (by simpa using hy); simpa only [List.getElem_cons_succ] using this)
          (fun d' hd' => hd d' (by simp [hd']))
        simp only [List.getElem_cons_zero] at h0
        nlinarith

/-- Stored energy never exceeds the terminal energy, for every series, whatever the signs:
hence a charge followed by a discharge of the same terminal energy (net terminal energy 0)
never ends above the starting state of charge. -/
theorem stored_le_terminal (s : Store) (conv : Rat → Rat) (ps dts : List Rat) (e : Rat)
    (hc0 : 0 < s.ηc) (hc : s.ηc ≤ 1) (hd0 : 0 < s.ηd) (hd : s.ηd ≤ 1)
    (hconv : ∀ p, conv p ≤ p) (hdt : ∀ d ∈ dts, 0 ≤ d)
    (h : energy s conv ps (.series dts) = some e) : e ≤ dot ps dts := by
  unfold energy integrate at h
  split at h
  · injection h with h; subst h
    simp only [TimeBase.expand]
    apply dot_le_dot _ _ _ (by simp [storedPower]) _ hdt
    intro i hx hy
    simp only [storedPower, List.getElem_map]
    exact le_trans (cell_le _ _ _ hc0 hc hd0 hd) (hconv _)
  · cases h

theorem roundtrip_soc_le (s : Store) (conv : Rat → Rat) (ps dts : List Rat) (e : Rat)
    (hc0 : 0 < s.ηc) (hc : s.ηc ≤ 1) (hd0 : 0 < s.ηd) (hd : s.ηd ≤ 1) (hcap : 0 < s.capacity)
    (hconv : ∀ p, conv p ≤ p) (hdt : ∀ d ∈ dts, 0 ≤ d)
    (hnet : dot ps dts = 0)
    (h : energy s conv ps (.series dts) = some e) : socOf s e ≤ s.soc0 := by
  have he : e ≤ 0 := hnet ▸ stored_le_terminal s conv ps dts e hc0 hc hd0 hd hconv hdt h
  unfold socOf
  split
  · have : e / (36 / 10) / s.capacity ≤ 0 := by
      apply div_nonpos_of_nonpos_of_nonneg _ hcap.le
      apply div_nonpos_of_nonpos_of_nonneg he (by norm_num)
    linarith
  · have : e / 3600 / s.capacity ≤ 0 := by
      apply div_nonpos_of_nonpos_of_nonneg _ hcap.le
      apply div_nonpos_of_nonpos_of_nonneg he (by norm_num)
    linarith

/-- The closed form for one charge and one discharge of the same terminal power and length,
without converter. -/
theorem roundtrip_simple (s : Store) (x d : Rat) (hx : 0 < x) :
    energy s id [x, -x] (.series [d, d]) = some (x * d * (s.ηc - 1 / s.ηd)) := by
  unfold energy integrate storedPower cell
  have h1 : ¬ (0 < -x) := by linarith
  simp [valid, TimeBase.expand, hx, h1, dot]
  ring

/-- The two storage conversions are mutually inverse. -/
theorem terminal_cell (ηc ηd p : Rat) (hc0 : 0 < ηc) (hd0 : 0 < ηd) :
    terminal ηc ηd (cell ηc ηd p) = p := by
  unfold terminal cell
  by_cases h : 0 < p
  · have : 0 ≤ p * ηc := by positivity
    simp [h, this]; field_simp
  · have hp : p ≤ 0 := not_lt.mp h
    simp only [h, if_false]
    by_cases h0 : p = 0
    · subst h0; simp
    · have : p / ηd < 0 := div_neg_of_neg_of_pos (lt_of_le_of_ne hp h0) hd0
      rw [if_neg (not_le.mpr this)]; field_simp

/-! ### Non-vacuity -/

def exStore : Store := { ηc := 9/10, ηd := 8/10, soc0 := 1/2, capacity := 100, supercap := false }

example : energy exStore id [100, -100] (.series [3600, 3600]) = some (100 * 3600 * (9/10 - 1 / (8/10))) ∧
    0 < exStore.ηc ∧ exStore.ηc ≤ 1 ∧ 0 < exStore.ηd ∧ exStore.ηd ≤ 1 ∧ dot [100, -100] [3600, 3600] = 0 := by
  refine ⟨roundtrip_simple exStore 100 3600 (by norm_num), ?_, ?_, ?_, ?_, ?_⟩ <;> (try decide +kernel)

end Feems.Props.C17
