/-
C16 — same operating profile, same results, whatever the input route.
The four routes produce identical prepared inputs (propulsion power, auxiliary power, intervals);
the results are a function of those (C12: a calculation depends only on its inputs), hence equal.
-/
import FeemsProofs.Prelude
import FeemsModel.Model.Profile

set_option linter.unusedSimpArgs false
set_option linter.unusedVariables false

namespace Feems.Props.C16
open Feems Feems.Profile

theorem diffs_length (t : List Rat) : (diffs t).length = t.length - 1 := by
  induction t with
  | nil => rfl
  | cons a t ih => cases t with
    | nil => rfl
    | cons b t => simp only [diffs, List.length_cons, ih]; omega

/-- **Hold.** The interval after sample `k` is `t[k+1] − t[k]` and carries the power of sample `k`;
the last sample contributes no power. -/
theorem hold_dt (t : List Rat) (k : Nat) (h : k + 1 < t.length) :
    (diffs t)[k]? = some (t[k + 1] - t[k]) := by
  induction t generalizing k with
  | nil => simp at h
  | cons a t ih => cases t with
    | nil => simp at h
    | cons b t =>
      cases k with
      | zero => simp [diffs]
      | succ k =>
        simp only [diffs, List.getElem?_cons_succ]
        have := ih k (by simpa using h)
        simpa using this

theorem hold_power (t P : List Rat) (aux : Aux) (k : Nat) (h : k + 1 < P.length) :
    (fromSeries t P aux).P[k]? = some P[k] := by
  simp only [fromSeries]
  rw [List.getElem?_dropLast]
  simp [List.getElem?_eq_getElem (by omega : k < P.length)]
  omega

theorem last_sample_unused (t P : List Rat) (aux : Aux) :
    (fromSeries t P aux).P.length = P.length - 1 := by
  simp [fromSeries]

/-- The intervals add up to the span of the time stamps. -/
theorem total_duration (t : List Rat) (h : t ≠ []) : rsum (diffs t) = t.getLast h - t.head h := by
  induction t with
  | nil => exact absurd rfl h
  | cons a t ih => cases t with
    | nil => simp [diffs]
    | cons b t =>
      have := ih (by simp)
      simp only [diffs, rsum_cons, this, List.getLast_cons_cons, List.head_cons]
      ring

/-- **Routes agree (one auxiliary value).** A Gymir result, the same series given directly, a
protobuf message whose per-sample auxiliary power is unset, and the operating points
`(P[:-1], diff t)` all give the same prepared inputs. -/
theorem routes_agree_scalar (records : List (Rat × Rat)) (a : Rat) (hn : 2 ≤ records.length) :
    let t := records.map (·.1); let P := records.map (·.2)
    fromGymir records a = fromSeries t P (.scalar a) ∧
    fromProto (records.map fun r => (r.1, r.2, 0)) a = fromSeries t P (.scalar a) ∧
    fromStatistics P.dropLast (diffs t) (.scalar a) = fromSeries t P (.scalar a) := by
  refine ⟨rfl, ?_, ?_⟩
  · simp only [fromProto, fromSeries, List.map_map, Function.comp_def, List.length_map]
    have hall : (heldSamples (records.map fun _ => (0 : Rat))).all (· == 0) = true := by
      unfold heldSamples; split
      · simp only [List.all_eq_true]; intro x hx
        have := List.dropLast_subset _ hx; simp at this; simp [this.2]
      · simp
    simp only [hall, if_true, auxFor, List.length_replicate]
    have : records.length > 1 := by omega
    simp only [this, if_true, List.length_dropLast, List.length_map]
    congr 1
    rw [List.take_replicate]; congr 1; omega
  · simp [fromStatistics, fromSeries]

/-- **Routes agree (per-sample auxiliary power).** -/
theorem routes_agree_series (records : List (Rat × Rat × Rat)) (auxMsg : Rat) (hn : 2 ≤ records.length)
    (hnz : (heldSamples (records.map (·.2.2))).all (· == 0) = false) :
    fromProto records auxMsg =
      fromSeries (records.map (·.1)) (records.map (·.2.1)) (.series (records.map (·.2.2))) := by
  simp only [fromProto, hnz]; rfl

/-- A single auxiliary value is the constant series. -/
theorem aux_scalar_is_constant (n : Nat) (a : Rat) (hn : 2 ≤ n) :
    auxFor n (.scalar a) = auxFor n (.series (List.replicate (n + 1) a)) := by
  simp only [auxFor, List.length_replicate]
  rw [if_pos (by omega), List.take_replicate]; congr 1; omega

/-- A per-sample series is cut to the number of intervals. -/
theorem aux_series_truncated (n : Nat) (as : List Rat) (h : 1 < as.length) : auxFor n (.series as) = as.take n := by
  simp [auxFor, h]

/-- **The closing sample decides nothing** (protobuf route): two messages that agree on every record that is held over an interval
give the same prepared profile, whatever auxiliary power their closing records carry. -/
theorem proto_closing_aux_irrelevant (base : List (Rat × Rat × Rat)) (t p x y auxMsg : Rat) (hb : 2 ≤ base.length) :
    fromProto (base ++ [(t, p, x)]) auxMsg = fromProto (base ++ [(t, p, y)]) auxMsg := by
  have key : ∀ z : Rat, fromProto (base ++ [(t, p, z)]) auxMsg =
      { P := base.map (·.2.1),
        aux := if (base.map (·.2.2)).all (· == 0) then List.replicate base.length auxMsg else base.map (·.2.2),
        dt := diffs (base.map (·.1) ++ [t]) } := by
    intro z
    have hlen : ((base ++ [(t, p, z)]).map (·.2.2)).length > 1 := by simp; omega
    have hheld : heldSamples ((base ++ [(t, p, z)]).map (·.2.2)) = base.map (·.2.2) := by
      unfold heldSamples; rw [if_pos hlen]; simp [List.dropLast_concat]
    unfold fromProto
    simp only [hheld]
    unfold fromSeries
    simp only [List.map_append, List.map_cons, List.map_nil, List.dropLast_concat, List.length_map, List.length_append,
      List.length_singleton]
    by_cases h0 : (base.map (·.2.2)).all (· == 0) = true
    · simp only [h0, if_true, auxFor, List.length_replicate]
      rw [if_pos (by omega), List.take_replicate]
      congr 2; omega
    · have h0' : ((base.map (·.2.2)).all (· == 0)) = false := by simpa using h0
      simp only [h0', auxFor, List.length_append, List.length_map, List.length_singleton, Bool.false_eq_true, if_false]
      rw [if_pos (by omega), List.take_append_of_le_length (by simp)]
      simp
  rw [key x, key y]

/-- As found, a closing record of 5 kW switched every earlier interval from the message-level 200 kW to 0 kW. -/
theorem proto_closing_aux_legacy :
    (fromProtoLegacy [(0, 100, 0), (10, 100, 0), (20, 100, 0)] 200).aux = [200, 200] ∧
    (fromProtoLegacy [(0, 100, 0), (10, 100, 0), (20, 100, 5)] 200).aux = [0, 0] ∧
    (fromProto [(0, 100, 0), (10, 100, 0), (20, 100, 5)] 200).aux = [200, 200] := by decide +kernel

/-- **Split.** Each of `k` propulsors gets `P/k` as delivered power, each of `m` auxiliary loads
`aux/m`; the shares add up to the whole. -/
theorem split_sum (p : Prepared) (k m : Nat) (hk : 0 < k) (hm : 0 < m) :
    (split p k m).1.map (fun x : Rat => x * (k : Rat)) = p.P ∧ (split p k m).2.map (fun x : Rat => x * (m : Rat)) = p.aux := by
  have hk' : (k : Rat) ≠ 0 := by exact_mod_cast hk.ne'
  have hm' : (m : Rat) ≠ 0 := by exact_mod_cast hm.ne'
  constructor
  · simp only [split, List.map_map]
    conv_rhs => rw [← List.map_id p.P]
    apply List.map_congr_left; intro x _; simp [Function.comp, div_mul_cancel₀ _ hk']
  · simp only [split, List.map_map]
    conv_rhs => rw [← List.map_id p.aux]
    apply List.map_congr_left; intro x _; simp [Function.comp, div_mul_cancel₀ _ hm']

/-- **All propulsors together receive the propulsion power**, for every mix of electric drives and shaft-line
loads (every receiver is a propulsor and the divisor is their number). -/
theorem propulsors_receive_all (P : Rat) (drives mechLoads : Nat) (shaft : Bool)
    (h : 0 < propulsors drives mechLoads shaft) :
    handedOut P (propulsors drives mechLoads shaft) (propulsors drives mechLoads shaft) = P := by
  unfold handedOut
  have : ((propulsors drives mechLoads shaft : Nat) : Rat) ≠ 0 := by exact_mod_cast h.ne'
  field_simp

/-- As found (D34) a vessel with one propeller and one electric thruster handed the whole power to each. -/
theorem propulsors_legacy_double :
    handedOut 400 (propulsors 1 1 true) (propulsorsLegacy 1 1 true) = 800 ∧
    handedOut 400 (propulsors 1 1 true) (propulsors 1 1 true) = 400 := by
  decide +kernel

/-- Equal prepared inputs, equal results (for any result function). -/
theorem same_inputs_same_results {R : Type} (run : Prepared → R) (a b : Prepared) (h : a = b) : run a = run b := by
  rw [h]

/-! ### Non-vacuity: irregular time stamps -/

example : fromGymir [(0, 100), (10, 200), (40, 300)] 50 = ⟨[100, 200], [50, 50], [10, 30]⟩ ∧
    fromProto [(0, 100, 5), (10, 200, 6), (40, 300, 7)] 50 = ⟨[100, 200], [5, 6], [10, 30]⟩ := by
  constructor <;> decide +kernel

end Feems.Props.C16
