/-
C10, continued — the per-component figures the totals are sums of: which figure of the result a
component's series go into (`get_fuel_emission_energy_balance_for_component`).  Together with
`fold_eq_sum` this gives "running hours per machine class, stored energy, propulsion and auxiliary
energy of the system = the sums over the components of that class".
-/
import FeemsProofs.Prelude
import FeemsModel.Model.ComponentResult

set_option linter.unusedSimpArgs false
set_option linter.unusedVariables false

namespace Feems.Props.C10
open Feems Feems.CompResult Feems.Engine

variable (mech : Bool) (pout pin dts : List Rat) (fuel : List (Fuel.Kind × List Rat)) (st : Rat) (load : List Rat)

/-- **Running hours per machine class.** A component's running hours are counted in the class of
its kind and in no other: main engines; generating sets, shaft generators and COGES; fuel cells;
PTI/PTO. Loads, storage and shore power count no hours. -/
theorem hours_one_class (k : Kind) (c : HourClass) :
    (eval k mech pout pin dts fuel st load).fig.hours c =
      if k.hourClass = some c then runningHours pout dts else 0 := by
  cases k <;> cases c <;> cases mech <;> simp [eval, Figures.hours, Kind.hourClass]

theorem runningHours_nonneg : ∀ (p d : List Rat), (∀ x ∈ d, 0 ≤ x) → 0 ≤ runningHours p d
  | [], _, _ => by simp [runningHours]
  | _ :: _, [], _ => by simp [runningHours]
  | p :: ps, d :: ds, h => by
    have hd : 0 ≤ d := h d (by simp)
    have ih := runningHours_nonneg ps ds (fun x hx => h x (by simp [hx]))
    simp only [runningHours]
    split <;> positivity

/-- Running hours lie between 0 and the duration of the series. -/
theorem runningHours_le_duration : ∀ (p d : List Rat), (∀ x ∈ d, 0 ≤ x) → runningHours p d ≤ rsum d / 3600
  | [], d, h => by
    simp only [runningHours]
    have : 0 ≤ rsum d := by
      induction d with
      | nil => simp [rsum]
      | cons x xs ih =>
        have hx : 0 ≤ x := h x (by simp)
        have := ih (fun y hy => h y (by simp [hy]))
        simp only [rsum, List.foldr_cons] at this ⊢
        linarith
    positivity
  | _ :: _, [], _ => by simp [runningHours, rsum]
  | p :: ps, d :: ds, h => by
    have hd : 0 ≤ d := h d (by simp)
    have ih := runningHours_le_duration ps ds (fun x hx => h x (by simp [hx]))
    have hr : rsum (d :: ds) = d + rsum ds := by simp [rsum]
    simp only [runningHours, hr]
    split
    · linarith
    · have : (0:Rat) / 3600 = 0 := by norm_num
      rw [this]; linarith

/-- A machine that never delivers power has no running hours; one that always does runs the whole
duration. -/
theorem runningHours_idle (n : Nat) (d : List Rat) : runningHours (List.replicate n 0) d = 0 := by
  induction n generalizing d with
  | zero => simp [runningHours]
  | succ n ih => cases d with
    | nil => simp [runningHours, List.replicate_succ]
    | cons x xs => simp [runningHours, List.replicate_succ, ih]

theorem runningHours_always : ∀ (p d : List Rat), p.length = d.length → (∀ x ∈ p, x ≠ 0) →
    runningHours p d = rsum d / 3600
  | [], [], _, _ => by simp [runningHours, rsum]
  | [], _ :: _, h, _ => by simp at h
  | _ :: _, [], h, _ => by simp at h
  | p :: ps, d :: ds, h, hp => by
    have ih := runningHours_always ps ds (by simpa using h) (fun x hx => hp x (by simp [hx]))
    have hp0 : p ≠ 0 := hp p (by simp)
    have hr : rsum (d :: ds) = d + rsum ds := by simp [rsum]
    simp only [runningHours, if_pos hp0, ih, hr]
    ring

/-- **Energy classes.** Each kind writes only the energy figures of its role: a drive or propeller
its delivered energy as propulsion energy, an auxiliary load as auxiliary energy, a storage unit
the energy it reports as stored, shore power as electric input, a shaft generator its shaft power
as mechanical input; engines, generating sets, fuel cells and COGES write no energy figure. -/
theorem energy_classes (k : Kind) :
    let f := (eval k mech pout pin dts fuel st load).fig
    f.consElectric = 0 ∧
    f.propulsion = (if k = .propulsion then dot pout dts / 1000 else 0) ∧
    f.auxiliary = (if k = .otherLoad then dot pout dts / 1000 else 0) ∧
    f.stored = (if k = .storage then st / 1000 else 0) ∧
    f.inputElectric = (if k = .shorePower then dot pin dts / 1000 else 0) ∧
    (k ≠ .ptiPto → f.consMechanical = 0) ∧
    (k ≠ .ptiPto → f.inputMechanical = (if k = .generator then dot pin dts / 1000 else 0)) := by
  cases k <;> cases mech <;> simp [eval]

theorem dot_pos_neg : ∀ (xs d : List Rat), dot (plusPart xs) d + dot (minusPart xs) d = dot xs d
  | [], _ => by simp [plusPart, minusPart, dot]
  | _ :: _, [] => by simp [plusPart, minusPart, dot]
  | x :: xs, d :: ds => by
    have ih := dot_pos_neg xs ds
    simp only [plusPart, minusPart, List.map_cons, dot] at ih ⊢
    rcases lt_trichotomy x 0 with h | h | h
    · have h' : ¬ 0 < x := not_lt.mpr (le_of_lt h)
      simp only [h, h', if_true, if_false]; linarith
    · subst h; simp only [lt_irrefl, if_false]; linarith
    · have h' : ¬ x < 0 := not_lt.mpr (le_of_lt h)
      simp only [h, h', if_true, if_false]; linarith

theorem dot_plusPart_nonneg : ∀ (xs d : List Rat), (∀ x ∈ d, 0 ≤ x) → 0 ≤ dot (plusPart xs) d
  | [], _, _ => by simp [plusPart, dot]
  | _ :: _, [], _ => by simp [plusPart, dot]
  | x :: xs, d :: ds, h => by
    have hd : 0 ≤ d := h d (by simp)
    have ih := dot_plusPart_nonneg xs ds (fun y hy => h y (by simp [hy]))
    simp only [plusPart, List.map_cons, dot] at ih ⊢
    split
    · simpa using ih
    · rename_i hx
      have : 0 ≤ x := not_lt.mp hx
      have := mul_nonneg this hd
      linarith

theorem dot_minusPart_nonpos : ∀ (xs d : List Rat), (∀ x ∈ d, 0 ≤ x) → dot (minusPart xs) d ≤ 0
  | [], _, _ => by simp [minusPart, dot]
  | _ :: _, [], _ => by simp [minusPart, dot]
  | x :: xs, d :: ds, h => by
    have hd : 0 ≤ d := h d (by simp)
    have ih := dot_minusPart_nonpos xs ds (fun y hy => h y (by simp [hy]))
    simp only [minusPart, List.map_cons, dot] at ih ⊢
    split
    · simpa using ih
    · rename_i hx
      have : x ≤ 0 := not_lt.mp hx
      have := mul_nonpos_of_nonpos_of_nonneg this hd
      linarith

/-- **PTI/PTO, one machine on both sides.** Seen from the electric system its motoring energy is
mechanical energy *consumed* and its generating energy mechanical energy *put in*; seen from the
mechanical system the same two energies appear with the roles exchanged. The electric-side
figures are non-negative and their difference is the net electrical energy of the machine. -/
theorem pti_pto_sides :
    let e := (eval .ptiPto false pout pin dts fuel st load).fig
    let m := (eval .ptiPto true pout pin dts fuel st load).fig
    e.consMechanical = m.inputMechanical ∧ e.inputMechanical = -m.consMechanical ∧
    e.consMechanical - e.inputMechanical = dot pin dts / 1000 ∧
    ((∀ x ∈ dts, 0 ≤ x) → 0 ≤ e.consMechanical ∧ 0 ≤ e.inputMechanical) := by
  have e1 : (eval .ptiPto false pout pin dts fuel st load).fig.consMechanical = dot (plusPart pin) dts / 1000 := by
    simp [eval]
  have e2 : (eval .ptiPto false pout pin dts fuel st load).fig.inputMechanical = -(dot (minusPart pin) dts / 1000) := by
    simp [eval]
  refine ⟨by simp [eval], by simp [eval], ?_, ?_⟩
  · rw [e1, e2]
    have := dot_pos_neg pin dts
    linarith
  · intro h
    rw [e1, e2]
    have h1 := dot_plusPart_nonneg pin dts h
    have h2 := dot_minusPart_nonpos pin dts h
    constructor
    · positivity
    · have : 0 ≤ -dot (minusPart pin) dts := by linarith
      have h3 : -(dot (minusPart pin) dts / 1000) = (-dot (minusPart pin) dts) / 1000 := by ring
      rw [h3]; positivity

/-- **Fuel.** A machine that burns fuel reports, per fuel kind of its run point, the mass-flow
series integrated over the intervals; every other component reports no fuel. -/
theorem fuel_reported (k : Kind) :
    (eval k mech pout pin dts fuel st load).fuel =
      if k.burnsFuel then fuel.map (fun e => (e.1, dot e.2 dts)) else [] := by
  cases k <;> cases mech <;> simp [eval, fuelMass, Kind.burnsFuel]

/-- The generator load ratio is reported for a single-point series of a generating set or COGES only. -/
theorem load_ratio_reported (k : Kind) :
    (eval k mech pout pin dts fuel st load).loadRatio =
      if k = .genset ∨ k = .coges then singleLoad load else none := by
  cases k <;> cases mech <;> simp [eval]

/-! ### Non-vacuity -/

example : (eval .ptiPto false [90, -180, 0] [100, -200, 0] [60, 60, 60] [] 0 []).fig =
    { consMechanical := 6, inputMechanical := 12, hoursPtiPto := 1 / 30 } := by decide +kernel

example : (eval .ptiPto true [90, -180, 0] [100, -200, 0] [60, 60, 60] [] 0 []).fig =
    { inputMechanical := 6, consMechanical := -12, hoursPtiPto := 1 / 30 } := by decide +kernel

example : (eval .genset false [500, 0] [] [1800, 1800] [(⟨0, 1, 2⟩, [1 / 10, 0])] 0 [7 / 10]).fuel
    = [(⟨0, 1, 2⟩, 180)] := by decide +kernel

end Feems.Props.C10
