/-
C12 — a calculation depends only on its own inputs, not on earlier runs.
In a value model "the caller's arrays are left unchanged" has no content; that clause — and the
absence of hidden state in the real objects — is decided by the correspondence (object reuse vs a
fresh object, snapshots of caller-owned arrays).  The theorems say that the *protocol* itself
(set inputs, balance, read) is history-free for any balance / result function.
-/
import FeemsProofs.Prelude
import FeemsModel.Model.History
import FeemsModel.Model.ElectricBalance

set_option linter.unusedSimpArgs false
set_option linter.unusedVariables false

namespace Feems.Props.C12
open Feems Feems.History

variable {I O R : Type} (bal : I → O) (res : I → O → R)

/-- **Non-interference.** Whatever the object went through before, a calculation whose inputs are
supplied afresh gives the outputs of a fresh object. -/
theorem non_interference (s s' : State I O) (i : I) :
    (run bal res s (calcOps i)).2 = (run bal res s' (calcOps i)).2 := by
  simp [run, calcOps, step]

theorem fresh_object (s : State I O) (i : I) :
    (run bal res s (calcOps i)).2 = [.none, .balanced (bal i), .result (res i (bal i))] := by
  simp [run, calcOps, step]

/-- … after any history of earlier operations. -/
theorem after_any_history (s : State I O) (history : List (Op I)) (i : I) :
    (run bal res (run bal res s history).1 (calcOps i)).2 = [.none, .balanced (bal i), .result (res i (bal i))] :=
  fresh_object bal res _ i

/-- **Idempotent.** Repeating the calculation gives identical results, and the object ends in the
same state. -/
theorem idempotent (s : State I O) (i : I) :
    (run bal res (run bal res s (calcOps i)).1 (calcOps i)) = (run bal res s (calcOps i)) := by
  simp [run, calcOps, step]

/-- Balancing again without new inputs changes nothing either. -/
theorem rebalance (s : State I O) (i : I) :
    (run bal res (run bal res s (calcOps i)).1 [.balance, .result]) =
      ((run bal res s (calcOps i)).1, [.balanced (bal i), .result (res i (bal i))]) := by
  simp [run, calcOps, step]

/-- **Reading does not change.** Result queries return the state unchanged, and the same answer
however often they are asked. -/
theorem queries_pure (s : State I O) : (step bal res s .query).1 = s ∧ (step bal res s .result).1 = s := by
  constructor <;> (unfold step; cases s.inputs <;> cases s.outputs <;> rfl)

theorem query_twice (s : State I O) :
    (run bal res s [.query, .query]).2 = [(step bal res s .query).2, (step bal res s .query).2] := by
  have h := (queries_pure bal res s).1
  simp only [run]
  rw [h]

/-- Queries interleaved anywhere in a calculation do not change its outputs. -/
theorem interleaved_queries (s : State I O) (i : I) :
    ((run bal res s [.setInputs i, .query, .balance, .query, .result]).2.filter fun o =>
        match o with | .balanced _ => true | _ => false) = [.balanced (bal i)] ∧
    (run bal res s [.setInputs i, .query, .balance, .query, .result]).2.getLast? = some (.result (res i (bal i))) := by
  cases h1 : s.inputs <;> cases h2 : s.outputs <;> simp [run, step, h1, h2]

/-! ### The number of points of a balance carries no trace of the balance before (D89) -/

theorem filter_afterBalance (k : Nat) (units : List UnitLens) :
    ((units.map (afterBalance k)).filter (!·.sharesAlways)).map (·.powerLen) =
    (units.filter (!·.sharesAlways)).map (·.powerLen) := by
  induction units with
  | nil => rfl
  | cons u us ih =>
    cases h : u.sharesAlways <;> simp [afterBalance, h, List.filter_cons] at ih ⊢ <;> exact ih

theorem modeLen_afterBalance (k : Nat) (units : List UnitLens) :
    (units.map (afterBalance k)).map (·.modeLen) = units.map (·.modeLen) := by
  induction units with
  | nil => rfl
  | cons u us ih => cases h : u.sharesAlways <;> simp [afterBalance, h] at ih ⊢ <;> exact ih

/-- Whatever length `k` the balance before had: the units it wrote into do not change the number of points of the next one. -/
theorem numberPoints_no_trace (k consumers : Nat) (srcStatus breakers : List Nat) (units : List UnitLens) :
    numberPoints consumers srcStatus (units.map (afterBalance k)) breakers = numberPoints consumers srcStatus units breakers := by
  unfold numberPoints
  rw [filter_afterBalance, modeLen_afterBalance]

/-- As found: after a balance of 5 points, constant consumers with source statuses of 3 points next to a load-sharing battery
were taken for a calculation of 5 points (and refused, or calculated over 5 steps when everything was constant). -/
theorem numberPoints_legacy_trace :
    numberPointsLegacy 1 [3, 3] ([⟨1, true, 1⟩].map (afterBalance 5)) [] = 5 ∧
    numberPoints 1 [3, 3] ([⟨1, true, 1⟩].map (afterBalance 5)) [] = 3 := by decide

/-! ### Non-vacuity: the electric balance as the balance function -/

def demo : List Electric.Swb := [⟨1, [⟨1000, true, 0⟩], [], [400]⟩]

example : ∀ s s' : State (List Electric.Swb) (List (Nat × Option (List Rat × List Rat))),
    (run (Electric.balance id) (fun _ o => o.length) s (calcOps demo)).2 =
    (run (Electric.balance id) (fun _ o => o.length) s' (calcOps demo)).2 :=
  fun s s' => non_interference _ _ s s' _

end Feems.Props.C12
