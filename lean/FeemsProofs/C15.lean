/-
C15 — load-dependent start/stop picks a sufficient, minimal generator set.
Theorems about `Feems.Pms.pick` (the model of `min_load_table_dict` + `PmsLoadTable.on_pattern`)
for every list of positive ratings (any length ≥ 1), every positive load fraction and every load.
They use only "sorted + a permutation of all patterns", hence hold for any stable sort.
-/
import FeemsProofs.Lemmas.PmsLemmas

set_option linter.unusedSimpArgs false
set_option linter.unusedVariables false

namespace Feems.Props.C15
open Feems Feems.Pms

variable {rs : List Rat} {f L : Rat}

/-- Every entry of the sorted table is a pattern of the right length with its own load. -/
theorem entry_facts {e : Entry} (he : e ∈ sortedEntries rs f) :
    e.2.length = rs.length ∧ e.1 = f * cap rs e.2 := mem_entries.mp (mem_sortedEntries.mp he)

theorem entry_of_pattern (Q : Pat) (hQ : Q.length = rs.length) : (f * cap rs Q, Q) ∈ sortedEntries rs f :=
  mem_sortedEntries.mpr (mem_entries.mpr ⟨hQ, rfl⟩)

theorem asc_head_le {a : Entry} {rest : List Entry} (h : Asc (a :: rest)) {e : Entry}
    (he : e ∈ a :: rest) : a.1 ≤ e.1 := by
  rcases List.mem_cons.mp he with rfl | he
  · exact le_refl _
  · exact (List.pairwise_cons.mp h).1 e he

theorem asc_le_last {S : List Entry} (h : Asc S) (hne : S ≠ []) {e : Entry} (he : e ∈ S) :
    e.1 ≤ (S.getLast hne).1 := by
  induction S generalizing e with
  | nil => exact absurd rfl hne
  | cons a S ih =>
    cases S with
    | nil =>
      have : e = a := by simpa using he
      subst this; simp
    | cons b S =>
      rw [List.getLast_cons (by simp)]
      have h' : Asc (b :: S) := (List.pairwise_cons.mp h).2
      have hb : b.1 ≤ ((b :: S).getLast (by simp)).1 := ih h' (by simp) List.mem_cons_self
      rcases List.mem_cons.mp he with rfl | he
      · exact le_trans ((List.pairwise_cons.mp h).1 b List.mem_cons_self) hb
      · exact ih h' (by simp) he

theorem cap_eq_zero_of_all_off (rs : List Rat) (p : Pat) (h : true ∉ p) : cap rs p = 0 := by
  induction rs generalizing p with
  | nil => cases p <;> rfl
  | cons r rs ih =>
    cases p with
    | nil => rfl
    | cons b p =>
      cases b
      · simp only [cap, Bool.false_eq_true, if_false, zero_add]
        exact ih p (by simpa using h)
      · simp at h

/-- The head of the sorted table has load 0 (it is the all-off pattern's load). -/
theorem head_load_zero (hr : ∀ r ∈ rs, 0 < r) (hf : 0 < f) {a : Entry} {rest : List Entry}
    (hS : sortedEntries rs f = a :: rest) : a.1 = 0 := by
  have hasc : Asc (a :: rest) := hS ▸ sortedEntries_asc rs f
  have hoff : ((f * cap rs (allOff rs.length), allOff rs.length) : Entry) ∈ a :: rest :=
    hS ▸ entry_of_pattern (allOff rs.length) (by simp [allOff])
  have h0 : cap rs (allOff rs.length) = 0 := by
    clear hS hasc hoff hr
    induction rs with
    | nil => rfl
    | cons r rs ih => simp [allOff, List.replicate_succ, cap] at *; exact ih
  have h1 := asc_head_le hasc hoff
  have ha := entry_facts (rs := rs) (f := f) (hS ▸ List.mem_cons_self : a ∈ sortedEntries rs f)
  have h2 : 0 ≤ a.1 := by rw [ha.2]; exact mul_nonneg hf.le (cap_nonneg rs a.2 hr)
  simp only [h0, mul_zero] at h1
  exact le_antisymm h1 h2

/-- The picked pattern is an entry of the table: right length, and its load is `f · cap`. -/
theorem pick_mem (rs : List Rat) (f L : Rat) :
    ((f * cap rs (pick rs f L), pick rs f L) : Entry) ∈ sortedEntries rs f := by
  obtain ⟨a, rest, hS, h⟩ := pick_spec rs f L
  have key : ∀ x : Entry, x ∈ sortedEntries rs f → pick rs f L = x.2 →
      ((f * cap rs (pick rs f L), pick rs f L) : Entry) ∈ sortedEntries rs f := by
    intro x hx hp
    have := (entry_facts hx).2
    rw [hp, ← this]; exact hx
  rcases h with ⟨pre, x, suf, hrest, _, _, hp⟩ | ⟨_, hp⟩
  · exact key x (by rw [hS, hrest]; simp) hp
  · exact key _ (by rw [hS]; exact List.getLast_mem _) hp

theorem pick_length (rs : List Rat) (f L : Rat) : (pick rs f L).length = rs.length :=
  (entry_facts (pick_mem rs f L)).1

/-- **Sufficient.** Whenever some set of sources has `fraction × rating` above the load, the
selected set has. -/
theorem sufficient (hr : ∀ r ∈ rs, 0 < r) (hf : 0 < f)
    (h : ∃ Q : Pat, Q.length = rs.length ∧ L < f * cap rs Q) : L < f * cap rs (pick rs f L) := by
  obtain ⟨Q, hQ, hQL⟩ := h
  obtain ⟨a, rest, hS, hcase⟩ := pick_spec rs f L
  have hasc : Asc (a :: rest) := hS ▸ sortedEntries_asc rs f
  have ha0 := head_load_zero hr hf hS
  rcases hcase with ⟨pre, x, suf, hrest, _, hx, hp⟩ | ⟨hall, hp⟩
  · have hxm : x ∈ sortedEntries rs f := by rw [hS, hrest]; simp
    rw [hp, ← (entry_facts hxm).2]
    exact lt_of_le_of_lt (le_max_left _ _) hx
  · have hQm : ((f * cap rs Q, Q) : Entry) ∈ a :: rest := hS ▸ entry_of_pattern Q hQ
    have hQle : f * cap rs Q ≤ max L a.1 := by
      rcases List.mem_cons.mp hQm with h | h
      · rw [show f * cap rs Q = a.1 from congrArg Prod.fst h]; exact le_max_right _ _
      · exact hall _ h
    have hL : L < 0 := by
      rw [ha0] at hQle
      rcases le_max_iff.mp hQle with h | h
      · exact absurd hQL (not_lt.mpr h)
      · exact lt_of_lt_of_le hQL h
    have hlast := asc_le_last hasc (by simp) (List.mem_cons_self : a ∈ a :: rest)
    have hlm : (a :: rest).getLast (by simp) ∈ sortedEntries rs f := by rw [hS]; exact List.getLast_mem _
    rw [hp, ← (entry_facts hlm).2]
    rw [ha0] at hlast
    exact lt_of_lt_of_le hL hlast

/-- **All on otherwise.** When no set would do, the whole plant capacity is switched on. -/
theorem all_on_otherwise (hr : ∀ r ∈ rs, 0 < r) (hf : 0 < f)
    (h : ¬ ∃ Q : Pat, Q.length = rs.length ∧ L < f * cap rs Q) :
    cap rs (pick rs f L) = capAll rs := by
  have hall : f * capAll rs ≤ L := by
    by_contra hc
    exact h ⟨allOn rs.length, by simp [allOn], by rw [cap_allOn]; exact not_le.mp hc⟩
  obtain ⟨a, rest, hS, hcase⟩ := pick_spec rs f L
  have hasc : Asc (a :: rest) := hS ▸ sortedEntries_asc rs f
  have ha0 := head_load_zero hr hf hS
  have hle : ∀ e ∈ sortedEntries rs f, e.1 ≤ f * capAll rs := by
    intro e he
    rw [(entry_facts he).2]
    exact mul_le_mul_of_nonneg_left (cap_le_capAll rs e.2 hr) hf.le
  rcases hcase with ⟨pre, x, suf, hrest, _, hx, hp⟩ | ⟨_, hp⟩
  · have hxm : x ∈ sortedEntries rs f := by rw [hS, hrest]; simp
    have := hle x hxm
    have := lt_of_le_of_lt (le_max_left L a.1) hx
    linarith
  · have hlm : (a :: rest).getLast (by simp) ∈ sortedEntries rs f := by rw [hS]; exact List.getLast_mem _
    have hon : ((f * cap rs (allOn rs.length), allOn rs.length) : Entry) ∈ a :: rest :=
      hS ▸ entry_of_pattern (allOn rs.length) (by simp [allOn])
    have h1 := asc_le_last hasc (by simp) hon
    have h2 := hle _ hlm
    rw [cap_allOn] at h1
    have h3 : ((a :: rest).getLast (by simp)).1 = f * capAll rs := le_antisymm h2 h1
    rw [(entry_facts hlm).2, ← hp] at h3
    exact mul_left_cancel₀ hf.ne' h3

/-- **Minimal.** No non-empty set with a smaller combined rating would do. -/
theorem minimal (hr : ∀ r ∈ rs, 0 < r) (hf : 0 < f) (Q : Pat) (hQ : Q.length = rs.length)
    (hon : true ∈ Q) (hlt : cap rs Q < cap rs (pick rs f L)) : f * cap rs Q ≤ L := by
  obtain ⟨a, rest, hS, hcase⟩ := pick_spec rs f L
  have hasc : Asc (a :: rest) := hS ▸ sortedEntries_asc rs f
  have ha0 := head_load_zero hr hf hS
  have hpos : 0 < f * cap rs Q := mul_pos hf (cap_pos_of_some_on rs Q hr hQ hon)
  have hQm : ((f * cap rs Q, Q) : Entry) ∈ a :: rest := hS ▸ entry_of_pattern Q hQ
  have hQrest : ((f * cap rs Q, Q) : Entry) ∈ rest := by
    rcases List.mem_cons.mp hQm with h | h
    · have : f * cap rs Q = a.1 := congrArg Prod.fst h
      rw [ha0] at this; linarith
    · exact h
  have fromMax : f * cap rs Q ≤ max L a.1 → f * cap rs Q ≤ L := by
    intro h
    rw [ha0] at h
    rcases le_max_iff.mp h with h | h
    · exact h
    · linarith
  rcases hcase with ⟨pre, x, suf, hrest, hpre, hx, hp⟩ | ⟨hall, hp⟩
  · rw [hrest] at hQrest
    rcases List.mem_append.mp hQrest with h | h
    · exact fromMax (hpre _ h)
    · exfalso
      have hxm : x ∈ sortedEntries rs f := by rw [hS, hrest]; simp
      have hxl : x.1 = f * cap rs (pick rs f L) := by rw [hp]; exact (entry_facts hxm).2
      have hrestasc : Asc (pre ++ x :: suf) := hrest ▸ (List.pairwise_cons.mp hasc).2
      have hxsuf : Asc (x :: suf) := (List.pairwise_append.mp hrestasc).2.1
      rcases List.mem_cons.mp h with h | h
      · have : f * cap rs Q = x.1 := congrArg Prod.fst h
        rw [hxl] at this
        have := mul_left_cancel₀ hf.ne' this
        linarith
      · have h1 := (List.pairwise_cons.mp hxsuf).1 _ h
        rw [hxl] at h1
        have : cap rs (pick rs f L) ≤ cap rs Q := le_of_mul_le_mul_left h1 hf
        linarith
  · exact fromMax (hall _ hQrest)

/-- **Monotone.** The selected capacity never decreases as the load increases. -/
theorem monotone (hr : ∀ r ∈ rs, 0 < r) (hf : 0 < f) {L₁ L₂ : Rat} (hL : L₁ ≤ L₂) :
    cap rs (pick rs f L₁) ≤ cap rs (pick rs f L₂) := by
  obtain ⟨a, rest, hS, hcase₁⟩ := pick_spec rs f L₁
  obtain ⟨a', rest', hS', hcase₂⟩ := pick_spec rs f L₂
  have : a' = a ∧ rest' = rest := by rw [hS] at hS'; injection hS' with h1 h2; exact ⟨h1.symm, h2.symm⟩
  obtain ⟨rfl, rfl⟩ := this
  have hasc : Asc (a' :: rest') := hS ▸ sortedEntries_asc rs f
  have hmax : max L₁ a'.1 ≤ max L₂ a'.1 := max_le_max hL (le_refl _)
  have hload : ∀ L, f * cap rs (pick rs f L) = f * cap rs (pick rs f L) := fun _ => rfl
  suffices h : f * cap rs (pick rs f L₁) ≤ f * cap rs (pick rs f L₂) from le_of_mul_le_mul_left h hf
  have hm₁ := pick_mem rs f L₁
  rcases hcase₂ with ⟨pre₂, x₂, suf₂, hrest₂, _, hx₂, hp₂⟩ | ⟨_, hp₂⟩
  · have hx₂m : x₂ ∈ sortedEntries rs f := by rw [hS, hrest₂]; simp
    have hx₂l : x₂.1 = f * cap rs (pick rs f L₂) := by rw [hp₂]; exact (entry_facts hx₂m).2
    have hx₂rest : x₂ ∈ rest' := by rw [hrest₂]; simp
    rcases hcase₁ with ⟨pre₁, x₁, suf₁, hrest₁, hpre₁, hx₁, hp₁⟩ | ⟨hall₁, _⟩
    · have hx₁m : x₁ ∈ sortedEntries rs f := by rw [hS, hrest₁]; simp
      have hx₁l : x₁.1 = f * cap rs (pick rs f L₁) := by rw [hp₁]; exact (entry_facts hx₁m).2
      rw [← hx₁l, ← hx₂l]
      have hrestasc : Asc (pre₁ ++ x₁ :: suf₁) := hrest₁ ▸ (List.pairwise_cons.mp hasc).2
      have hxsuf : Asc (x₁ :: suf₁) := (List.pairwise_append.mp hrestasc).2.1
      rw [hrest₁] at hx₂rest
      rcases List.mem_append.mp hx₂rest with h | h
      · have := hpre₁ _ h; linarith
      · exact asc_head_le hxsuf h
    · have := hall₁ _ hx₂rest; linarith
  · have hlm : (a' :: rest').getLast (by simp) ∈ sortedEntries rs f := by rw [hS]; exact List.getLast_mem _
    rw [hp₂, ← (entry_facts hlm).2]
    exact asc_le_last hasc (by simp) (hS ▸ hm₁)

/-- **Non-empty.** At least one source runs (plants with at least one source). -/
theorem nonempty (hr : ∀ r ∈ rs, 0 < r) (hf : 0 < f) (hn : rs ≠ []) : true ∈ pick rs f L := by
  have hcapall : 0 < capAll rs := by
    cases rs with
    | nil => exact absurd rfl hn
    | cons r rs =>
      have := cap_pos_of_some_on (r :: rs) (allOn (r :: rs).length) hr (by simp [allOn])
        (by simp [allOn, List.replicate_succ])
      rwa [cap_allOn] at this
  have hpos : 0 < f * cap rs (pick rs f L) := by
    obtain ⟨a, rest, hS, hcase⟩ := pick_spec rs f L
    have hasc : Asc (a :: rest) := hS ▸ sortedEntries_asc rs f
    have ha0 := head_load_zero hr hf hS
    rcases hcase with ⟨pre, x, suf, hrest, _, hx, hp⟩ | ⟨_, hp⟩
    · have hxm : x ∈ sortedEntries rs f := by rw [hS, hrest]; simp
      rw [hp, ← (entry_facts hxm).2]
      exact lt_of_le_of_lt (ha0 ▸ le_max_right L a.1) hx
    · have hlm : (a :: rest).getLast (by simp) ∈ sortedEntries rs f := by rw [hS]; exact List.getLast_mem _
      have hon : ((f * cap rs (allOn rs.length), allOn rs.length) : Entry) ∈ a :: rest :=
        hS ▸ entry_of_pattern (allOn rs.length) (by simp [allOn])
      have h1 := asc_le_last hasc (by simp) hon
      rw [cap_allOn] at h1
      rw [hp, ← (entry_facts hlm).2]
      exact lt_of_lt_of_le (mul_pos hf hcapall) h1
  by_contra hnot
  have hz : cap rs (pick rs f L) = 0 := cap_eq_zero_of_all_off rs _ hnot
  rw [hz, mul_zero] at hpos
  exact lt_irrefl _ hpos

/-- **Loading.** After a calculation driven by the table (all sources on one bus, equal sharing,
so the load fraction of every running source is `L / capacity`, C01/C03) no running source is
loaded above the allowed fraction whenever the plant could avoid it. -/
theorem loading (hr : ∀ r ∈ rs, 0 < r) (hf : 0 < f) (hn : rs ≠ [])
    (h : ∃ Q : Pat, Q.length = rs.length ∧ L < f * cap rs Q) : L / cap rs (pick rs f L) < f := by
  have hs := sufficient hr hf h
  have hon := nonempty (L := L) hr hf hn
  have hc : 0 < cap rs (pick rs f L) := cap_pos_of_some_on rs _ hr (pick_length rs f L) hon
  rw [div_lt_iff₀ hc]; exact hs

/-- **Loading, with a PTI/PTO on the bus.** The table is asked with everything the sources have to carry - consumers plus the
given power of the PTI/PTOs (D109, D110) - so the load fraction `busLoad / capacity` of the running sources stays below the
allowed fraction whenever some set of sources could carry that load. -/
theorem loading_with_pti (consumers : Rat) (ptis : List (Rat × Rat)) (hr : ∀ r ∈ rs, 0 < r) (hf : 0 < f) (hn : rs ≠ [])
    (h : ∃ Q : Pat, Q.length = rs.length ∧ busLoad consumers ptis < f * cap rs Q) :
    busLoad consumers ptis / cap rs (pick rs f (busLoad consumers ptis)) < f :=
  loading hr hf hn h

/-- As found, the table was asked with the consumers alone: two 1000 kW sets at 80 %, consumers 500 kW and a PTI/PTO motoring
with 400 kW - one set is started and carries 900 kW (90 %), although both together would carry it at 45 %. -/
theorem loading_legacy_overload :
    busLoadLegacy 500 [(400, 1)] < 4 / 5 * cap [1000, 1000] [true, false] ∧
    ¬ (busLoad 500 [(400, 1)] / cap [1000, 1000] [true, false] < 4 / 5) ∧
    busLoad 500 [(400, 1)] / cap [1000, 1000] [true, true] < 4 / 5 := by
  decide +kernel

/-! ### Non-vacuity: the tie at 300 kW of ratings 100/200/300 -/

example : (300 : Rat) < 1 * cap [100, 200, 300] (pick [100, 200, 300] 1 300) :=
  sufficient (by simp) (by norm_num) ⟨[true, true, true], rfl, by simp [cap]; norm_num⟩

/-! ### The rule for equally sized sets (`feems/runsimulation.py`) -/

section equal_size
variable {n : Nat} {r : Rat}

theorem ceil_toNat_cast {x : Rat} (hx : 0 ≤ x) : ((x.ceil.toNat : Nat) : Rat) = ((x.ceil : Int) : Rat) := by
  have h0 : (0 : Int) ≤ x.ceil := by
    have : ((0 : Int) : Rat) ≤ x := by simpa using hx
    have := lt_of_lt_of_le (b := x) (by simpa using (show ((-1 : Int) : Rat) < 0 by norm_num) |>.trans_le hx) Rat.le_ceil
    have h1 : ((-1 : Int) : Rat) < ((x.ceil : Int) : Rat) := by simpa using this
    have : (-1 : Int) < x.ceil := by exact_mod_cast h1
    omega
  have : ((x.ceil.toNat : Nat) : Int) = x.ceil := Int.toNat_of_nonneg h0
  exact_mod_cast congrArg (fun z : Int => (z : Rat)) this

/-- At least one set runs. -/
theorem eq_nonempty (hn : 1 ≤ n) (hr : 0 < r) (hf : 0 < f) : 1 ≤ equalSizeCount n r f L := by
  unfold equalSizeCount
  split
  · rename_i hL
    have hx : 0 < L / (r * f) := div_pos hL (mul_pos hr hf)
    have h1 : (0 : Int) < (L / (r * f)).ceil := by
      have := Rat.lt_ceil_iff (x := L / (r * f)) (y := 0)
      exact this.mpr (by simpa using hx)
    have : 1 ≤ (L / (r * f)).ceil.toNat := by omega
    exact le_min this hn
  · exact le_min (le_refl _) hn

/-- Sufficient: if the whole plant can carry the load within the allowed fraction, the selected
sets can. -/
theorem eq_sufficient (hr : 0 < r) (hf : 0 < f) (h : L ≤ n * r * f) :
    L ≤ (equalSizeCount n r f L : Rat) * r * f := by
  have hrf : 0 < r * f := mul_pos hr hf
  unfold equalSizeCount
  split
  · rename_i hL
    have hx : 0 ≤ L / (r * f) := (div_pos hL hrf).le
    rcases le_total (L / (r * f)).ceil.toNat n with hle | hle
    · rw [min_eq_left hle, ceil_toNat_cast hx]
      have := Rat.le_ceil (x := L / (r * f))
      have h2 : L ≤ ((L / (r * f)).ceil : Rat) * (r * f) := by
        rw [← div_le_iff₀ hrf]; exact this
      linarith
    · rw [min_eq_right hle]; exact h
  · rename_i hL
    have hL' : L ≤ 0 := not_lt.mp hL
    have : 0 ≤ ((min 1 n : Nat) : Rat) * r * f := by positivity
    linarith

/-- Minimal: no smaller number of sets (≥ 1) would do. -/
theorem eq_minimal (hr : 0 < r) (hf : 0 < f) (j : Nat) (hj : j < equalSizeCount n r f L) (hL : 0 < L) :
    (j : Rat) * r * f < L := by
  have hrf : 0 < r * f := mul_pos hr hf
  unfold equalSizeCount at hj
  rw [if_pos hL] at hj
  have hj' : j < (L / (r * f)).ceil.toNat := lt_of_lt_of_le hj (min_le_left _ _)
  have h1 : (j : Int) < (L / (r * f)).ceil := by omega
  have h2 : ((j : Int) : Rat) < L / (r * f) := Rat.lt_ceil_iff.mp h1
  have h3 : (j : Rat) < L / (r * f) := by exact_mod_cast h2
  rw [lt_div_iff₀ hrf] at h3
  linarith

/-- The number of running sets never decreases with the load. -/
theorem eq_monotone (hn : 1 ≤ n) (hr : 0 < r) (hf : 0 < f) {L₁ L₂ : Rat} (hL : L₁ ≤ L₂) :
    equalSizeCount n r f L₁ ≤ equalSizeCount n r f L₂ := by
  have hrf : 0 < r * f := mul_pos hr hf
  by_cases h1 : 0 < L₁
  · have h2 : 0 < L₂ := lt_of_lt_of_le h1 hL
    unfold equalSizeCount
    rw [if_pos h1, if_pos h2]
    apply min_le_min _ (le_refl _)
    have hdiv : L₁ / (r * f) ≤ L₂ / (r * f) := div_le_div_of_nonneg_right hL hrf.le
    have : (L₁ / (r * f)).ceil ≤ (L₂ / (r * f)).ceil :=
      Rat.ceil_le_iff.mpr (le_trans hdiv Rat.le_ceil)
    omega
  · have : equalSizeCount n r f L₁ = min 1 n := by unfold equalSizeCount; rw [if_neg h1]
    rw [this, min_eq_left hn]
    exact eq_nonempty hn hr hf

end equal_size

end Feems.Props.C15
